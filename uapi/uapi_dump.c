/* Prints, as ndjson, the ioctl request numbers and structure layouts of <linux/vhost.h> of this
 * system: the trusted UAPI oracle against which spec/KernBackend.tla is cross-checked (C19). */
#include <stdio.h>
#include <stddef.h>
#include <sys/ioctl.h>
#include <linux/vhost.h>
#include <linux/vhost_types.h>

#define IO(n) printf("{\"ev\":\"uapi\",\"kind\":\"ioctl\",\"name\":\"%s\",\"lo\":%u,\"hi\":%u}\n", #n, (unsigned)((n) & 0xffff), (unsigned)(((unsigned)(n)) >> 16))
#define OFF(s, f) printf("{\"ev\":\"uapi\",\"kind\":\"offset\",\"name\":\"%s.%s\",\"lo\":%u,\"hi\":%u}\n", #s, #f, (unsigned)offsetof(struct s, f), (unsigned)sizeof(((struct s *)0)->f))
#define OFF0(s, f) printf("{\"ev\":\"uapi\",\"kind\":\"offset\",\"name\":\"%s.%s\",\"lo\":%u,\"hi\":0}\n", #s, #f, (unsigned)offsetof(struct s, f))
#define SZ(s) printf("{\"ev\":\"uapi\",\"kind\":\"sizeof\",\"name\":\"%s\",\"lo\":%u,\"hi\":0}\n", #s, (unsigned)sizeof(struct s))

int main(void) {
    IO(VHOST_GET_FEATURES); IO(VHOST_SET_FEATURES); IO(VHOST_SET_OWNER); IO(VHOST_RESET_OWNER);
    IO(VHOST_SET_MEM_TABLE); IO(VHOST_SET_LOG_BASE); IO(VHOST_SET_LOG_FD); IO(VHOST_SET_VRING_NUM);
    IO(VHOST_SET_VRING_ADDR); IO(VHOST_SET_VRING_BASE); IO(VHOST_GET_VRING_BASE); IO(VHOST_SET_VRING_KICK);
    IO(VHOST_SET_VRING_CALL); IO(VHOST_SET_VRING_ERR); IO(VHOST_SET_BACKEND_FEATURES); IO(VHOST_GET_BACKEND_FEATURES);
    IO(VHOST_NET_SET_BACKEND); IO(VHOST_VSOCK_SET_GUEST_CID); IO(VHOST_VSOCK_SET_RUNNING);
    IO(VHOST_VDPA_GET_DEVICE_ID); IO(VHOST_VDPA_GET_STATUS); IO(VHOST_VDPA_SET_STATUS); IO(VHOST_VDPA_GET_CONFIG);
    IO(VHOST_VDPA_SET_CONFIG); IO(VHOST_VDPA_SET_VRING_ENABLE); IO(VHOST_VDPA_GET_VRING_NUM); IO(VHOST_VDPA_SET_CONFIG_CALL);
    IO(VHOST_VDPA_GET_IOVA_RANGE); IO(VHOST_VDPA_GET_CONFIG_SIZE); IO(VHOST_VDPA_GET_VQS_COUNT); IO(VHOST_VDPA_GET_GROUP_NUM);
    IO(VHOST_VDPA_GET_AS_NUM); IO(VHOST_VDPA_GET_VRING_GROUP); IO(VHOST_VDPA_SET_GROUP_ASID); IO(VHOST_VDPA_SUSPEND);
    OFF(vhost_vring_state, index); OFF(vhost_vring_state, num); SZ(vhost_vring_state);
    OFF(vhost_vring_file, index); OFF(vhost_vring_file, fd); SZ(vhost_vring_file);
    OFF(vhost_vring_addr, index); OFF(vhost_vring_addr, flags); OFF(vhost_vring_addr, desc_user_addr);
    OFF(vhost_vring_addr, used_user_addr); OFF(vhost_vring_addr, avail_user_addr); OFF(vhost_vring_addr, log_guest_addr); SZ(vhost_vring_addr);
    OFF(vhost_memory, nregions); OFF(vhost_memory, padding); OFF0(vhost_memory, regions); SZ(vhost_memory);
    OFF(vhost_memory_region, guest_phys_addr); OFF(vhost_memory_region, memory_size); OFF(vhost_memory_region, userspace_addr);
    OFF(vhost_memory_region, flags_padding); SZ(vhost_memory_region);
    OFF(vhost_iotlb_msg, iova); OFF(vhost_iotlb_msg, size); OFF(vhost_iotlb_msg, uaddr); OFF(vhost_iotlb_msg, perm); OFF(vhost_iotlb_msg, type); SZ(vhost_iotlb_msg);
    OFF(vhost_msg, type); OFF(vhost_msg, iotlb); SZ(vhost_msg);
    OFF(vhost_msg_v2, type); OFF(vhost_msg_v2, asid); OFF(vhost_msg_v2, iotlb); SZ(vhost_msg_v2);
    OFF(vhost_vdpa_config, off); OFF(vhost_vdpa_config, len); OFF0(vhost_vdpa_config, buf); SZ(vhost_vdpa_config);
    OFF(vhost_vdpa_iova_range, first); OFF(vhost_vdpa_iova_range, last); SZ(vhost_vdpa_iova_range);
    printf("{\"ev\":\"uapi\",\"kind\":\"const\",\"name\":\"VHOST_IOTLB_MSG\",\"lo\":%u,\"hi\":0}\n", VHOST_IOTLB_MSG);
    printf("{\"ev\":\"uapi\",\"kind\":\"const\",\"name\":\"VHOST_IOTLB_MSG_V2\",\"lo\":%u,\"hi\":0}\n", VHOST_IOTLB_MSG_V2);
    printf("{\"ev\":\"uapi\",\"kind\":\"const\",\"name\":\"VHOST_BACKEND_F_IOTLB_MSG_V2\",\"lo\":%u,\"hi\":0}\n", VHOST_BACKEND_F_IOTLB_MSG_V2);
    return 0;
}
