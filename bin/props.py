"""Per-property check recipes: which models are explored, which stimuli are replayed on the real
code, which trace specification judges the recorded traces."""
import json, os, random
from vlib import ROOT, log

ASSUME_COMMON = [
    "TLC 1.8.0 and the CommunityModules Json/IOUtils are trusted",
    "the harness's raw unix-socket codec (harness/src/common.rs, wire.rs) is trusted; it shares no code with the crate",
    "default cargo features + vhost-kern,vhost-vdpa,vhost-net,vhost-vsock; xen and postcopy builds are out of scope",
]


def group_server_cases(cases):
    """Transition-coverage stimuli come as (shortest history, letter). Letters that do not change
    the model state (everything but the three negotiation requests) are replayed in one session
    per history prefix; state-changing letters keep their own session."""
    by_prefix, out = {}, []
    for c in cases:
        steps = c["steps"]
        prefix, last = steps[:-1], steps[-1]
        key = json.dumps([c["dev"], prefix], sort_keys=True)
        if last["c"] in (1, 2, 16):
            out.append(dict(dev=c["dev"], steps=steps))
        else:
            by_prefix.setdefault(key, dict(dev=c["dev"], steps=list(prefix)))["steps"].append(last)
    out.extend(by_prefix.values())
    return out


def replay_or(ctx, engine, cases):
    if ctx.replay is not None:
        return [c for c in ctx.replay["cases"] if c is not None]
    return cases


def run_C04(ctx):
    cfg = "MC_BackendServer_" + ctx.tier
    cases = group_server_cases(ctx.tlc_mc("MC_BackendServer", cfg))
    if ctx.tier == "thorough":
        # the same stimuli through the handler implementing the interior-mutability trait directly
        cases = cases + [dict(c, adapter="direct") for c in cases[::3]]
    cases = replay_or(ctx, "server", cases)
    tr = ctx.harness("server", cases)
    viol = ctx.tlc_tv("TV_BackendServer", tr, "server")
    ctx.count_distinct(tr, lambda e: (e["c"], e["nr"], e["h"], e["ncalls"], e["nout"], e["res"]),
                       lambda e: e["ncalls"] > 0 or e["nout"] > 0 or e["res"] != "ok")
    ctx.sample(tr, 3, skip=5)
    ctx.exhaustive = True
    return ctx.finish("model_checking",
        "stimuli = every (reachable negotiation state, request letter) transition of MC_BackendServer "
        "(letters: all 44 request codes x NEED_REPLY x handler ok/fail; acknowledged-feature sets per cfg), replayed on the real "
        "BackendReqHandler by a raw peer; a case is non-trivial if the handler was called, something was written or an error returned; "
        "distinct = distinct (code, need_reply, handler outcome, calls, outputs, result) tuples",
        ASSUME_COMMON + ["handlers of GET_FEATURES/SET_FEATURES/SET_PROTOCOL_FEATURES succeed in the histories (C07 leaves a failed negotiation open)",
                         "requests the library does not serve, gated or invalid requests are only required not to be answered with a success (see DESIGN C04)"],
        viol)


# ---------------------------------------------------------------------------------------------
# Session (real Frontend <-> real BackendReqHandler): C02, C03, C07 (frontend half)
STATE_CHANGING_OPS = ("get_features", "set_features", "set_protocol_features", "set_hdr_flags")


def group_session_cases(cases, tier):
    """(history, call) stimuli -> sessions.  Calls that leave the model state unchanged share one
    session per history; calls predicted (or known) to hang end a session, so each gets its own,
    and in the quick tier they are sampled once per (call, NEED_REPLY) instead of once per state."""
    by_prefix, out, slow_seen = {}, [], set()
    for c in cases:
        steps = c["steps"]
        prefix, last = steps[:-1], steps[-1]
        slow = c["predicted"] == "hang" or (c["called"] and last["op"] == "get_config" and (last["h"] == "fail" or last["shape"] == "wronglen"))
        if slow:
            nr = any(s.get("op") == "set_hdr_flags" and s.get("nr") for s in prefix)
            k = (last["op"], last["cls"], last["h"], last["shape"], nr)
            if tier == "quick" and k in slow_seen:
                continue
            slow_seen.add(k)
            out.append(dict(dev=c["dev"], steps=steps, slow=True))
        elif last["op"] in STATE_CHANGING_OPS:
            out.append(dict(dev=c["dev"], steps=steps))
        else:
            key = json.dumps([c["dev"], prefix], sort_keys=True)
            by_prefix.setdefault(key, dict(dev=c["dev"], steps=list(prefix)))["steps"].append(last)
    out.extend(by_prefix.values())
    return out


def session_run(ctx):
    cases = ctx.tlc_mc("MC_Session", "MC_Session_" + ctx.tier)
    pred = {}
    for c in cases:
        pred[c["predicted"]] = pred.get(c["predicted"], 0) + 1
    ctx.notes.append(f"model-predicted call outcomes over all (state, call) transitions: {pred}")
    sess = group_session_cases(cases, ctx.tier)
    if ctx.tier == "thorough":
        sess = sess + [dict(c, adapter="direct") for c in sess if not c.get("slow")][::2]
    else:
        sess = sess + [dict(c, adapter="direct") for c in sess if not c.get("slow")][::7]
    sess = replay_or(ctx, "session", sess)
    tr = ctx.harness("session", sess, shards=12)
    viol = ctx.tlc_tv("TV_Session", tr, "session")
    ctx.count_distinct(tr, lambda e: (e.get("op"), e.get("cls"), e.get("h"), e.get("shape"), e.get("res"), e.get("ncalls"), e.get("sent")),
                       lambda e: e.get("ev") == "call" and (e["ncalls"] > 0 or e["res"] != "ok"))
    ctx.sample(tr, 3, skip=3)
    ctx.exhaustive = True
    return viol


SESSION_RULE = ("stimuli = every (reachable joint negotiation state, frontend call) transition of MC_Session (calls: all 31 frontend "
                "operations x argument classes incl. every local-rejection class x handler ok/fail/unusable-result shapes), replayed on the real "
                "Frontend <-> BackendReqHandler pair (Mutex adapter and direct trait impl); non-trivial = the handler was invoked or the call "
                "returned an error; distinct = distinct (operation, class, handler outcome, shape, result, handler calls, requests sent)")


def run_C02(ctx):
    viol = session_run(ctx)
    return ctx.finish("model_checking", SESSION_RULE, ASSUME_COMMON + [
        "eventfd descriptors cannot be told apart by fstat; their identity is not compared (memfd-backed files are)",
        "'nothing on the wire' is observed through the fe.sent hook here and byte-exactly by the client engine (C07/C06 checks)"], viol)


def run_C03(ctx):
    viol = session_run(ctx)
    return ctx.finish("model_checking", SESSION_RULE, ASSUME_COMMON + [
        "'indefinite wait' is observed by a 2 s watchdog while the server loop keeps serving (real round trips take microseconds)"], viol)
