"""Per-property check recipes: which models are explored, which stimuli are replayed on the real
code, which trace specification judges the recorded traces."""
import re, json, os, random, time
from vlib import ROOT, log, ToolError

ASSUME_COMMON = [
    "TLC 1.8.0 and the CommunityModules Json/IOUtils are trusted",
    "the harness's raw unix-socket codec (harness/src/common.rs, wire.rs) is trusted; it shares no code with the crate",
    "default cargo features + vhost-kern,vhost-vdpa,vhost-net,vhost-vsock; xen and postcopy builds are out of scope",
]


def group_server_cases(cases):
    """Transition-coverage stimuli come as (shortest history, letter). Letters that do not change
    the model state (everything but the three negotiation requests) are replayed in one session
    per history prefix; state-changing letters keep their own session."""
    by_prefix, out = {}, []
    for c in cases:
        steps = c["steps"]
        prefix, last = steps[:-1], steps[-1]
        key = json.dumps([c["dev"], prefix], sort_keys=True)
        if last["c"] in (1, 2, 16):
            out.append(dict(dev=c["dev"], steps=steps))
        else:
            by_prefix.setdefault(key, dict(dev=c["dev"], steps=list(prefix)))["steps"].append(last)
    # A negotiation call may leave the model in a state that a shorter history reaches as well (SET_FEATURES acknowledging nothing
    # looks like a fresh connection): transition coverage then never probes the requests *after* that call.  Every session that
    # ends with a negotiation call is therefore followed by one valid instance of every other request code (twice where the
    # payload is drawn at random, e.g. the enable / disable value of SET_VRING_ENABLE); the trace specification derives what
    # each must do from the state the session is in.
    probes = {}
    for c in cases:
        last = c["steps"][-1]
        if last["c"] not in (1, 2, 16) and last.get("var", "valid") == "valid" and last.get("h", "ok") == "ok" and not last.get("nr"):
            probes.setdefault(last["c"], last)
    tail = [probes[k] for k in sorted(probes)]
    tail = tail + [p for p in tail if p["c"] in (8, 10, 11, 18)] * 2
    # (at most some 3000 sessions get the tail: the thorough model has hundreds of thousands of negotiation transitions)
    for o in out[::max(1, len(out) // 3000)]:
        o["steps"] = o["steps"] + tail
    out.extend(by_prefix.values())
    return out


def replay_or(ctx, engine, cases):
    if ctx.replay is not None:
        return [c for c in ctx.replay["cases"] if c is not None]
    return cases


def run_C04(ctx):
    # for C04 the handler of a negotiation request may fail too: REPLY_ACK is in force once it was offered and the frontend
    # acknowledged it, whatever the device's handler said to SET_PROTOCOL_FEATURES (the histories of the other properties that
    # share this model keep these handlers succeeding: what a refused negotiation means for gating is left open there)
    cfg = "MC_BackendServer_negfail_" + ctx.tier
    cases = group_server_cases(ctx.tlc_mc("MC_BackendServer", cfg))
    if ctx.tier == "thorough":
        # the same stimuli through the handler implementing the interior-mutability trait directly
        cases = cases + [dict(c, adapter="direct") for c in cases[::3]]
    # messages of exactly the maximum size (4096 bytes after the header), answered and followed by another request
    for nr in (False, True):
        for h in ("ok", "fail"):
            cases.append(dict(dev=dict(vf=[30], pf=[]), steps=SRV_PREFIX + [dict(c=24, nr=nr, h=h, v=[], var="max"), dict(c=1, nr=False, h="ok", v=[], var="valid"),
                                                                         dict(c=25, nr=nr, h=h, v=[], var="max"), dict(c=1, nr=False, h="ok", v=[], var="valid")]))
    cases = replay_or(ctx, "server", cases)
    tr = ctx.harness("server", cases, crash_is_data=True)
    viol = ctx.tlc_tv("TV_BackendServer", tr, "server")
    ctx.count_distinct(tr, lambda e: (e["c"], e["nr"], e["h"], e["ncalls"], e["nout"], e["res"]),
                       lambda e: e["ncalls"] > 0 or e["nout"] > 0 or e["res"] != "ok")
    ctx.sample(tr, 3, skip=5)
    ctx.exhaustive = True
    return ctx.finish("model_checking",
        "stimuli = every (reachable negotiation state, request letter) transition of MC_BackendServer "
        "(letters: all 44 request codes x NEED_REPLY x handler ok/fail; acknowledged-feature sets per cfg), replayed on the real "
        "BackendReqHandler by a raw peer; a case is non-trivial if the handler was called, something was written or an error returned; "
        "distinct = distinct (code, need_reply, handler outcome, calls, outputs, result) tuples",
        ASSUME_COMMON + ["handlers of GET_FEATURES/SET_FEATURES/SET_PROTOCOL_FEATURES succeed in the histories (C07 leaves a failed negotiation open)",
                         "requests the library does not serve, gated or invalid requests are only required not to be answered with a success (see DESIGN C04)"],
        viol)


# ---------------------------------------------------------------------------------------------
# Session (real Frontend <-> real BackendReqHandler): C02, C03, C07 (frontend half)
STATE_CHANGING_OPS = ("get_features", "set_features", "set_protocol_features", "set_hdr_flags")


def group_session_cases(cases, tier):
    """(history, call) stimuli -> sessions.  Calls that leave the model state unchanged share one
    session per history; calls predicted (or known) to hang end a session, so each gets its own,
    and in the quick tier they are sampled once per (call, NEED_REPLY) instead of once per state."""
    by_prefix, out, slow_seen = {}, [], set()
    for c in cases:
        steps = c["steps"]
        prefix, last = steps[:-1], steps[-1]
        slow = c["predicted"] == "hang"
        if slow:
            nr = any(s.get("op") == "set_hdr_flags" and s.get("nr") for s in prefix)
            k = (last["op"], last["cls"], last["h"], last["shape"], nr)
            if tier == "quick" and k in slow_seen:
                continue
            slow_seen.add(k)
            out.append(dict(dev=c["dev"], steps=steps, slow=True))
        elif last["op"] in STATE_CHANGING_OPS:
            out.append(dict(dev=c["dev"], steps=steps))
        else:
            key = json.dumps([c["dev"], prefix], sort_keys=True)
            by_prefix.setdefault(key, dict(dev=c["dev"], steps=list(prefix)))["steps"].append(last)
    out.extend(by_prefix.values())
    # every session that is not expected to end in a hang closes with a call whose handler succeeds: an error path that
    # leaves bytes of its reply unread (or reads too many) shows up as a wrong answer to this call
    probe = next((dict(c["steps"][-1]) for c in cases if c["steps"][-1]["op"] == "get_features" and c["steps"][-1]["h"] == "ok"
                  and c["predicted"] == "ok"), None)
    if probe is not None:
        for s_ in out:
            if not s_.get("slow"):
                s_["steps"] = list(s_["steps"]) + [dict(probe)]
    return out


def session_run(ctx):
    cases = ctx.tlc_mc("MC_Session", "MC_Session_" + ctx.tier)
    pred = {}
    for c in cases:
        pred[c["predicted"]] = pred.get(c["predicted"], 0) + 1
    ctx.notes.append(f"model-predicted call outcomes over all (state, call) transitions: {pred}")
    sess = group_session_cases(cases, ctx.tier)
    if ctx.tier == "thorough":
        sess = sess + [dict(c, adapter="direct") for c in sess if not c.get("slow")][::2]
    else:
        sess = sess + [dict(c, adapter="direct") for c in sess if not c.get("slow")][::7]
    # the same calls over a socket that refuses the first send attempt(s) or accepts only part of a write, on the frontend's
    # side and on the server's side: transient faults of the transport must not change what reaches the handler / the caller
    base = [c for c in sess if not c.get("slow") and not c.get("adapter")]
    stride = 5 if ctx.tier == "quick" else 2
    for j, (script, side) in enumerate((([0], "fe"), ([1], "fe"), ([0, 0, 13], "fe"), ([0], "be"), ([5, 0, 8], "be"))):
        sess = sess + [dict(c, sendfault=script, faultside=side) for c in base[j::stride * 5]]
    # (frontend side only: the request server hands a temporary receive condition that meets the first byte of a *body* back
    # to its caller by design -- non-blocking use -- so what happens then is the caller's business, not the library's)
    for j, (errs, side) in enumerate((([11], "fe"), ([4, 11], "fe"), ([4], "fe"), ([11, 11], "fe"))):
        sess = sess + [dict(c, recvfault=errs, faultside=side) for c in base[(5 + j)::stride * 5]]
    sess = replay_or(ctx, "session", sess)
    tr = ctx.harness("session", sess, shards=12)
    viol = ctx.tlc_tv("TV_Session", tr, "session")
    ctx.count_distinct(tr, lambda e: (e.get("op"), e.get("cls"), e.get("h"), e.get("shape"), e.get("res"), e.get("ncalls"), e.get("sent")),
                       lambda e: e.get("ev") == "call" and (e["ncalls"] > 0 or e["res"] != "ok"))
    ctx.sample(tr, 3, skip=3)
    ctx.exhaustive = True
    return viol


SESSION_RULE = ("stimuli = every (reachable joint negotiation state, frontend call) transition of MC_Session (calls: all 31 frontend "
                "operations x argument classes incl. every local-rejection class x handler ok/fail/unusable-result shapes), replayed on the real "
                "Frontend <-> BackendReqHandler pair (Mutex adapter and direct trait impl); non-trivial = the handler was invoked or the call "
                "returned an error; distinct = distinct (operation, class, handler outcome, shape, result, handler calls, requests sent)")


def run_C02(ctx):
    if ctx.replay is not None and ctx.replay["engine"] == "client":
        viol = client_run(ctx, want_mutations=False)
    else:
        # the real pair, and the real Frontend against an independent peer that acknowledges by the protocol's rules (a call that
        # returns without awaiting the acknowledgement it asked for leaves that answer unread: seen by the peer stage at once)
        viol = session_run(ctx) + (client_run(ctx, want_mutations=False) if ctx.replay is None else [])
    return ctx.finish("model_checking", SESSION_RULE, ASSUME_COMMON + [
        "eventfd descriptors cannot be told apart by fstat; their identity is not compared (memfd-backed files are)",
        "'nothing on the wire' is observed through the fe.sent hook here and byte-exactly by the client engine (C07/C06 checks)"], viol)


def run_C03(ctx):
    if ctx.replay is not None and ctx.replay["engine"] == "client":
        viol = client_run(ctx, want_mutations=True)
    else:
        # (a) real pair with scripted handler outcomes; (b) real Frontend against an independent peer that
        # acknowledges / negatively acknowledges by the protocol's rules (acks awaited, nacks reported)
        viol = session_run(ctx) + (client_run(ctx, want_mutations=True) if ctx.replay is None else [])
    return ctx.finish("model_checking", SESSION_RULE, ASSUME_COMMON + [
        "'indefinite wait' is observed by a 2 s watchdog while the server loop keeps serving (real round trips take microseconds)"], viol)


# ---------------------------------------------------------------------------------------------
# Client (real Frontend <-> independent raw peer): C01 (frontend bytes), C06, C07 (frontend), C02
def group_client_cases(cases, tier):
    by_prefix, out, seen = {}, [], set()
    for c in cases:
        steps = c["steps"]
        prefix, last = steps[:-1], steps[-1]
        if last.get("op") == "set_hdr_flags":
            continue
        nr = any(s.get("op") == "set_hdr_flags" and s.get("nr") for s in prefix)
        if last["peer"] != "auto":
            k = (last["op"], last["cls"], last["peer"], nr, c["await"])
            if tier == "quick" and k in seen:
                continue
            if last["peer"] == "silent":
                k2 = (last["op"], "silent")
                if k2 in seen:
                    continue
                seen.add(k2)
            seen.add(k)
            out.append(dict(steps=steps, slow=True))
        elif last["op"] in STATE_CHANGING_OPS:
            # whatever a negotiation call did -- refused (it must leave nothing behind), or accepted (it must have exactly the
            # effect the model says, e.g. SET_FEATURES naming a bit the backend never offered acknowledges nothing) -- every
            # feature-dependent call is tried after it and judged against the model's state
            out.append(dict(steps=steps + [dict(op=o, cls=cl, v=[], rv=[], peer="auto") for o, cl in GATED_PROBES + [("get_protocol_features", "ok")]]))
        else:
            key = json.dumps(prefix, sort_keys=True)
            by_prefix.setdefault(key, dict(steps=list(prefix)))["steps"].append(last)
    out.extend(by_prefix.values())
    return out


GATED_PROBES = [("get_queue_num", "ok"), ("reset_device", "ok"), ("get_config", "ok"), ("set_config", "ok"), ("set_backend_request_fd", "ok"),
                ("get_inflight_fd", "ok"), ("set_inflight_fd", "ok"), ("get_max_mem_slots", "ok"), ("add_mem_region", "ok"),
                ("remove_mem_region", "ok"), ("get_shared_object", "ok"), ("get_shmem_config", "ok"), ("check_device_state", "ok"),
                ("set_vring_enable", "ok"), ("set_log_base", "shmfd")]


def client_run(ctx, want_mutations=True):
    cases = ctx.tlc_mc("MC_Client", "MC_Client_" + ctx.tier)
    sess = group_client_cases(cases, ctx.tier)
    if not want_mutations:
        sess = [c for c in sess if not c.get("slow")]
    sess = replay_or(ctx, "client", sess)
    tr = ctx.harness("client", sess, shards=12)
    viol = ctx.tlc_tv("TV_Client", tr, "client")
    ctx.count_distinct(tr, lambda e: (e.get("op"), e.get("cls"), e.get("peer"), e.get("res"), e.get("nwire")),
                       lambda e: e.get("ev") == "call" and (e["nwire"] > 0 or e["res"] != "ok"))
    ctx.sample(tr, 2, skip=4)
    return viol


def server_run(ctx):
    cfg = "MC_BackendServer_" + ctx.tier
    cases = group_server_cases(ctx.tlc_mc("MC_BackendServer", cfg))
    cases = replay_or(ctx, "server", cases)
    tr = ctx.harness("server", cases, shards=4, crash_is_data=True)
    viol = ctx.tlc_tv("TV_BackendServer", tr, "server")
    ctx.count_distinct(tr, lambda e: ("srv", e["c"], e["nr"], e["h"], e["ncalls"], e["nout"], e["res"]),
                       lambda e: e["ncalls"] > 0 or e["nout"] > 0 or e["res"] != "ok")
    ctx.sample(tr, 2, skip=5)
    return viol


def run_C07(ctx):
    if ctx.replay is not None:
        eng = ctx.replay["engine"]
        viol = {"server": server_run, "client": lambda c: client_run(c, False), "bereq": bereq_run}.get(eng, server_run)(ctx)
    else:
        viol = server_run(ctx) + client_run(ctx, want_mutations=False) + bereq_run(ctx, hostile=False)
    ctx.exhaustive = True
    return ctx.finish("model_checking",
        "stimuli = every (negotiation state, request) transition of MC_BackendServer replayed by a raw peer on the real BackendReqHandler "
        "(gated request without the acknowledged feature => no handler call; REPLY_ACK always offered) and every (negotiation state, call) "
        "transition of MC_Client replayed on the real Frontend against an independent raw peer (gated call => error and zero bytes on the "
        "wire); negotiation states: acknowledged-feature sets {}, all, all-minus-one, single bits (quick) / more subsets (thorough) x PF "
        "offered/acked; non-trivial = handler called, bytes written or error returned",
        ASSUME_COMMON + ["negotiation handlers succeed in these histories", "postcopy gating is compiled out of the default build and not exercised"],
        viol)


def run_C06(ctx):
    if ctx.replay is not None:
        eng = ctx.replay["engine"]
        viol = client_run(ctx, True) if eng == "client" else gpu_run(ctx) if eng == "gpu" else bereq_run(ctx, hostile=True, functional=False)
    else:
        viol = client_run(ctx, want_mutations=True) + bereq_run(ctx, hostile=True, functional=False) + gpu_run(ctx, hostile=True)
    return ctx.finish("exploration",
        "for every (frontend negotiation state, reply- or ack-awaiting call) transition of MC_Client the raw peer answers with the correct "
        "reply mutated in one class (code, REPLY flag, version, reserved bits, size, truncated body, +1/+2/-1 descriptors, invalid body, "
        "nack, random bytes, silence) and closes; TLC judges the recorded call result (never success, never panic); quick samples each "
        "(operation, mutation, NEED_REPLY) once, thorough from every state; distinct = (operation, class, peer behaviour, result, messages)",
        ASSUME_COMMON + ["a reply whose header size field differs from the body size but is <= 4096 (classes size+1, size_field=0) and a reply "
                         "carrying NEED_REPLY are recorded but not judged (DESIGN C06)"], viol)


# ---------------------------------------------------------------------------------------------
# C08: framing vs segmentation / truncation
ALLGATES = [0, 1, 3, 5, 8, 9, 12, 13, 15, 18, 19, 21]
SRV_PREFIX = [dict(c=1, nr=False, h="ok", v=[], var="valid"), dict(c=2, nr=False, h="ok", v=[30], var="valid"),
              dict(c=16, nr=False, h="ok", v=ALLGATES, var="valid")]


def channel_cases(ctx):
    import subprocess, concurrent.futures
    from vlib import VH, WORK
    lens = json.loads(subprocess.run([VH, "lens"], stdout=subprocess.PIPE, text=True, check=True).stdout)
    tla = open(os.path.join(ROOT, "spec", "mc", "MC_Channel.cfg")).read()
    allc = []
    def one(cl):
        cfgname = f"MC_Channel_{cl['c']}"
        path = os.path.join(ROOT, "spec", "mc", cfgname + ".cfg")
        return cl, path
    # one TLC run per message length/code (constants substituted into a scratch cfg under work/)
    for cl in lens:
        cfg = tla.replace("L = 20", f"L = {cl['len']}").replace("Code = 8", f"Code = {cl['c']}").replace('"quick"', f'"{ctx.tier}"')
        d = os.path.join(ctx.dir, "cfg")
        os.makedirs(d, exist_ok=True)
        p = os.path.join(d, f"MC_Channel_{cl['c']}.cfg")
        open(p, "w").write(cfg)
    def run(cl):
        return ctx.tlc_mc_path("MC_Channel", os.path.join(ctx.dir, "cfg", f"MC_Channel_{cl['c']}.cfg"), workers=1)
    with concurrent.futures.ThreadPoolExecutor(max_workers=8) as ex:
        for cs in ex.map(run, lens):
            allc.extend(cs)
    return allc


SENDER_MSGS = (
    [("fe", op, "valid", 0) for op in ("set_vring_kick", "set_vring_call", "set_vring_err", "set_mem_table", "set_config", "set_vring_addr",
                                        "set_vring_num", "set_features", "set_inflight_fd", "add_mem_region", "set_backend_request_fd", "set_log_fd")]
    + [("fe", "set_mem_table", "n32", 0), ("fe", "set_config", "max", 0)]
    + [("gpu", "update_scanout", "valid", n) for n in (0, 100, 50000)]
    + [("gpu", op, "valid", 0) for op in ("set_dmabuf_scanout", "set_dmabuf_scanout2", "set_scanout", "cursor_update", "cursor_pos")]
    + [("be", op, "valid", 0) for op in ("shared_object_add", "shared_object_remove", "shared_object_lookup", "shmem_map", "shmem_unmap")]
    + [("srv", str(c), "valid", 0) for c in (1, 11, 15, 17, 24, 31, 36, 41, 42, 44)]
    + [("srv", str(c), "nr", 0) for c in (10, 18, 25)])


def sender_run(ctx):
    """C08, sender clause: Sender.tla model-checked per message; every partial-write script replayed on the real endpoints."""
    import concurrent.futures
    msgs = list(SENDER_MSGS)
    if ctx.tier == "thorough":
        msgs.append(("gpu", "update_scanout", "valid", 150000))   # must fit the socket buffer: nobody reads while the call is in progress
    if ctx.replay is not None:
        cases = [c for c in ctx.replay["cases"] if c is not None]
    else:
        probe = [dict(ep=e, op=o, cls=c, dlen=d, script=[], eintr=False) for e, o, c, d in msgs]
        ptr = ctx.harness("sender", probe, tag="_probe")
        tmpl = open(os.path.join(ROOT, "spec", "mc", "MC_Sender.cfg")).read()
        os.makedirs(os.path.join(ctx.dir, "cfg"), exist_ok=True)
        jobs = []
        for line in open(ptr):
            e = json.loads(line)
            L, nf = e["len"], e["ref_nfds"]
            cuts, b = {1, L - 1}, 0
            for n in e["iovs"][:-1]:
                b += n
                cuts |= {b - 1, b, b + 1}
            cuts = sorted(x for x in cuts if 0 < x < L)
            name = f'{e["ep"]}/{e["op"]}/{e["cls"]}/{e.get("dlen", 0)}'
            cfg = (tmpl.replace("L = 20", f"L = {L}").replace("NF = 1", f"NF = {nf}").replace("{1, 11, 12, 13, 19}", "{" + ", ".join(map(str, cuts)) + "}")
                   .replace('"fe/set_vring_kick"', json.dumps(name)).replace('"quick"', f'"{ctx.tier}"'))
            pth = os.path.join(ctx.dir, "cfg", "MC_Sender_" + name.replace("/", "_") + ".cfg")
            open(pth, "w").write(cfg)
            jobs.append((pth, e))
        cases = []
        def run(j):
            return ctx.tlc_mc_path("MC_Sender", j[0], workers=1), j[1]
        with concurrent.futures.ThreadPoolExecutor(max_workers=8) as ex:
            for cs, e in ex.map(run, jobs):
                for c in cs:
                    cases.append(dict(ep=e["ep"], op=e["op"], cls=e["cls"], dlen=e["dlen"], script=c["script"], eintr=c["eintr"]))
    tr = ctx.harness("sender", cases, shards=12)
    viol = ctx.tlc_tv("TV_Sender", tr, "sender")
    ctx.count_distinct(tr, lambda e: (e["ep"], e["op"], e["cls"], tuple(e["script"]), e["eintr"]), lambda e: e.get("ev") == "send" and len(e["attempts"]) > 1)
    ctx.sample(tr, 2, skip=9)
    return viol


def reply_framing_run(ctx, cuts=True):
    """C08, frontend as receiver: the correct reply / acknowledgement of every awaiting call, delivered in separate segments
    (must give the same result) or cut off by end-of-stream at every offset (must give an error, not a success or a hang)."""
    cases = ctx.tlc_mc("MC_Client", "MC_Client_" + ctx.tier)
    best = {}
    for c in cases:
        last = c["steps"][-1]
        if last.get("peer") != "auto" or c["act"] != "send" or c["await"] not in ("reply", "ack") or last["op"] in STATE_CHANGING_OPS:
            continue
        k = (last["op"], last["cls"], c["await"])
        if k not in best or len(c["steps"]) < len(best[k]["steps"]):
            best[k] = c
    sess = []
    offs = list(range(0, 40 if ctx.tier == "quick" else 120)) + [-1, -2]
    for k, c in sorted(best.items()):
        pre, last = c["steps"][:-1], c["steps"][-1]
        if cuts:
            for at in offs:
                sess.append(dict(steps=pre + [dict(last, peer="cut", at=at)]))
        splits = [[a] for a in offs if a != 0] + [[1, 12], [12, 13], [11, 13], [12, -2], [4, 8], [13, -1]]
        # segmented replies leave the session usable: several per session
        for i in range(0, len(splits), 8):
            sess.append(dict(steps=pre + [dict(last, peer="seg", segs=sp) for sp in splits[i:i + 8]]))
        # byte by byte
        sess.append(dict(steps=pre + [dict(last, peer="seg", segs=list(range(1, 64)))]))
    sess = replay_or(ctx, "client", sess)
    tr = ctx.harness("client", sess, tag="_seg", shards=12)
    viol = ctx.tlc_tv("TV_Client", tr, "client_seg")
    ctx.count_distinct(tr, lambda e: (e.get("op"), e.get("peer"), e.get("at"), json.dumps(e.get("segs")), e.get("res")),
                       lambda e: e.get("ev") == "call" and e.get("peer") in ("cut", "seg"))
    return viol


def run_C08(ctx):
    if ctx.replay is not None and ctx.replay["engine"] in ("client", "client_seg"):
        viol = reply_framing_run(ctx)
        return ctx.finish("fault_enumeration", "replay of reply segmentation / truncation towards the frontend", ASSUME_COMMON, viol)
    if ctx.replay is not None and ctx.replay["engine"] == "sender":
        viol = sender_run(ctx)
        return ctx.finish("fault_enumeration", "replay of sender-side partial-write scripts", ASSUME_COMMON, viol)
    sviol = (sender_run(ctx) + reply_framing_run(ctx)) if ctx.replay is None else []
    stim = channel_cases(ctx)
    cases = []
    for st in stim:
        step = dict(c=st["c"], nr=False, h="ok", v=[], var="fixed", seg=st["seg"], cut=st["cut"])
        cases.append(dict(dev=dict(vf=[30], pf=[]), steps=SRV_PREFIX + [step]))
        if st["cut"] < 0 and st["seg"] and st["seg"][0] < 12 and len(st["seg"]) <= 2:
            # a split inside the header, and the receive attempt that follows the first piece meets a temporary condition
            # (EAGAIN: non-blocking socket / receive timeout; EINTR) before the next piece arrives: the bytes already taken
            # must not be dropped
            cases.append(dict(dev=dict(vf=[30], pf=[]), steps=SRV_PREFIX + [dict(step, recvfault=[0, 11 if len(cases) % 2 else 4])]))
        if st["cut"] >= 0 and not st["seg"] and st["c"] in (2, 9, 18):
            # the same cut, but the peer goes away abruptly (it closes with a reply still unread: the server sees a
            # connection reset, not an orderly end of stream) -- still never a clean disconnect inside a message
            cases.append(dict(dev=dict(vf=[30], pf=[]), steps=SRV_PREFIX + [dict(step, reset=True)]))
    # the same splits / cuts for the backend-initiated request server (FrontendReqHandler)
    bcases = []
    for st in stim:
        ks = {28: (6, 7, 8), 52: (9, 10)}.get(st["len"], ()) if st["c"] in (6, 9) else ()
        for k in ks:
            bcases.append(dict(mode="rawsrv", steps=[dict(t="flag", f="hra", b=True),
                                                     dict(t="req", k=k, r="zero", nr=True, seg=st["seg"], cut=st["cut"])]))
    viol = []
    if ctx.replay is None or ctx.replay["engine"] == "bereq":
        bcases = replay_or(ctx, "bereq", bcases)
        trb = ctx.harness("bereq", bcases, shards=12)
        viol += ctx.tlc_tv("TV_BackendReq", trb, "bereq")
        ctx.count_distinct(trb, lambda e: ("be", e.get("k"), tuple(e.get("seg", [])), e.get("cut")), lambda e: e.get("ev") == "breq")
    if ctx.replay is not None and ctx.replay["engine"] != "server":
        cases = []
    cases = replay_or(ctx, "server", cases) if ctx.replay is None or ctx.replay["engine"] == "server" else []
    tr = ctx.harness("server", cases, shards=12, crash_is_data=True)
    viol += ctx.tlc_tv("TV_BackendServer", tr, "server")
    ctx.count_distinct(tr, lambda e: (e["c"], tuple(e["seg"]), e["cut"]), lambda e: e.get("seg") or e.get("cut", -1) >= 0)
    ctx.sample(tr, 3, skip=3)
    viol += sviol
    return ctx.finish("fault_enumeration",
        "Receivers: Channel.tla is model-checked per message length (all segmentations / cut points of the state graph); stimuli = for every served "
        "request type (deterministic body): every 2-split, 3-splits (all for messages <= 52 bytes, else on a 4-byte grid; all in thorough), "
        "byte-by-byte delivery, and every cut offset 0..len-1 followed by EOF; each segment is really delivered separately (the peer waits "
        "until the receiver drained the previous one). Frontend as receiver: the correct reply / acknowledgement of every awaiting call "
        "(one negotiation state per (operation, class)) cut by end-of-stream at every offset 0..39 (119 thorough), the middle and the last byte "
        "(error, no success, no hang) and delivered in 2 and 3 segments at those offsets and byte by byte (same result). Senders: Sender.tla (send loop over a socket that accepts any part of a write or "
        "refuses it) is model-checked per message; for every message the four endpoint kinds send (frontend requests, request-server replies "
        "and acks, backend-initiated requests, GPU requests incl. 50 kB payloads) every script of parts given by 0..2 (3 thorough) cut points "
        "among {1, iovec boundaries -1/0/+1, len-1}, with a refused attempt (EAGAIN / EINTR) before any part or twice before the first, and "
        "byte-wise acceptance, is forced on the real endpoint by an interposed sendmsg(); the peer reads with the same granularity and TLC "
        "compares bytes and the offset/count of arriving descriptors with the model; distinct = (request code, split points, cut offset) and "
        "(endpoint, operation, script)",
        ASSUME_COMMON + ["unix stream sockets do not merge a segment the receiver has not been offered yet (the peer waits for FIONREAD==0 before writing the next segment)",
                         "partial writes are produced by an interposed sendmsg() that passes only the scripted number of bytes (with the caller's ancillary data) "
                         "to the kernel, or fails with EAGAIN/EINTR without calling it -- the behaviour of a non-blocking socket with a small send buffer, made reproducible"],
        viol)


# ---------------------------------------------------------------------------------------------
# Backend-initiated requests: C18 (+ proxy/request-server parts of C06, C07, C01, C08)
def bereq_run(ctx, hostile=False, functional=True):
    # letters after the flag prefix that sets up the history's starting configuration (any consistent setting of the four flags)
    depth = 3 if ctx.tier == "quick" else 4
    # the thorough model has millions of histories: all are model-checked, a seeded stride of them is replayed
    cases = ctx.tlc_mc("MC_BackendReq", "MC_BackendReq_" + ctx.tier, max_cases=400000)
    hc = list(ctx.hcases)
    sess = []
    if functional:
        full = [c for c in cases if len(c["steps"]) - c.get("base", 0) == depth]
        # histories whose last request is really acknowledged (feature enabled, reply-ack on both ends) carry the core of C18:
        # all of them are kept, and the value-bearing ones are repeated for every class of handler value / errno
        def acked_request(steps):
            fl = dict(ra=False, so=False, sh=False, hra=False)
            for s_ in steps[:-1]:
                if s_["t"] == "flag":
                    fl[s_["f"]] = s_["b"]
            last = steps[-1]
            return last["t"] == "req" and fl["ra"] and fl["hra"] and (fl["so"] if last["k"] in (6, 7, 8) else fl["sh"])
        core = [c for c in full if acked_request(c["steps"])]
        full = full[::(max(1, len(full) // (6000 if ctx.tier == "quick" else 100000)))]
        extra = []
        for c in core:
            last = c["steps"][-1]
            if last["r"] == "nonzero":
                for v in (1, 2, 0xff, 1 << 32, (1 << 64) - 1, 1 << 63, 0xdeadbeef00000000, 1 << 31):
                    extra.append(dict(steps=c["steps"][:-1] + [dict(last, val=limbs(v))]))
            elif last["r"] == "errno":
                for e_ in (1, 2, 4, 5, 11, 12, 22, 32, 38, 95, 104, 4095):
                    extra.append(dict(steps=c["steps"][:-1] + [dict(last, errno=e_)]))
            else:
                extra.append(c)
        full = full + extra
        for i, c in enumerate(full):
            steps = c["steps"]
            sess.append(dict(mode="pair", adapter="mutex" if i % 3 else "direct", steps=steps))
            if i % 4 == 1:
                # the same history with transient receive conditions on the proxy's socket: the first attempt(s) to read each
                # acknowledgement meet EAGAIN (a receive timeout) / EINTR (a signal) before any byte -- what the handler sees and
                # which acknowledgement answers which request must not depend on it
                sess.append(dict(mode="pair", adapter="mutex", steps=steps, recvfault=([11], [4], [11, 4, 11])[(i // 4) % 3]))
            if i % 2 == 0:
                sess.append(dict(mode="rawpeer", steps=steps))
            else:
                # raw peer -> request server: NEED_REPLY as the proxy would set it, and the opposite
                ra = False
                st2 = []
                for s_ in steps:
                    if s_["t"] == "flag" and s_["f"] == "ra":
                        ra = s_["b"]
                    st2.append(dict(s_, nr=(ra if i % 4 == 1 else not ra)) if s_["t"] == "req" else s_)
                sess.append(dict(mode="rawsrv", steps=st2))
    if hostile:
        reps = 3 if ctx.tier == "quick" else 20
        for c in hc:
            n = reps if any(s_.get("var") == "random" or s_.get("peer") == "random" for s_ in c["steps"]) else (1 if ctx.tier == "quick" else 3)
            for _ in range(n):
                sess.append(dict(c))
    sess = replay_or(ctx, "bereq", sess)
    tr = ctx.harness("bereq", sess, shards=12)
    viol = ctx.tlc_tv("TV_BackendReq", tr, "bereq")
    ctx.count_distinct(tr, lambda e: (e.get("mode"), e.get("k"), e.get("r"), e.get("var"), e.get("peer"), e.get("res"), e.get("ncalls"), e.get("nout")),
                       lambda e: e.get("ev") == "breq" and (e["ncalls"] > 0 or e["nout"] > 0 or not e["res_ok"] or e["nwire"] > 0))
    ctx.sample(tr, 3, skip=6)
    return viol


def run_C18(ctx):
    viol = bereq_run(ctx, hostile=False)
    return ctx.finish("model_checking",
        "BackendReqChannel.tla: all histories over {flag changes (reply-ack, shared-object, shmem on proxy; reply-ack on server), requests "
        "(5 kinds x handler result zero/non-zero/errno/no-errno)} to the depth in the cfg, model-checked (in-step, gating) and replayed in "
        "three bindings: real proxy <-> real FrontendReqHandler (recording handler, Mutex and direct adapters), real proxy <-> raw peer "
        "(bytes, scripted ack), raw peer -> real FrontendReqHandler (ack bytes); concrete UUIDs/offsets/lengths/flags are drawn from the "
        "64-bit boundary lattice; non-trivial = handler called, ack written, bytes on the wire or an error; distinct = (binding, kind, result, outcome)",
        ASSUME_COMMON + ["proxy awaiting acks with a server configured not to write them (ra and not hra) is an application misconfiguration and excluded"],
        viol)


# ---------------------------------------------------------------------------------------------
# GPU channel
def gpu_run(ctx, hostile=True):
    cases = ctx.tlc_mc("MC_Gpu", "MC_Gpu_" + ctx.tier, workers=1)
    hc = list(ctx.hcases)
    reps = 3 if ctx.tier == "quick" else 25
    sess = []
    for r in range(reps):
        sess.append(dict(steps=[dict(c) for c in cases]))          # one long conformant session
        sess.extend(dict(steps=[dict(c)]) for c in cases)           # and each call on a fresh connection
    if hostile:
        for c in hc:
            for r in range(reps if c["peer"] == "random" else 1 + reps // 5):
                sess.append(dict(steps=[dict(c)]))
    sess = replay_or(ctx, "gpu", sess)
    tr = ctx.harness("gpu", sess, shards=12)
    viol = ctx.tlc_tv("TV_Gpu", tr, "gpu")
    ctx.count_distinct(tr, lambda e: ("gpu", e.get("op"), e.get("peer"), e.get("dlen"), e.get("fd"), e.get("res")),
                       lambda e: e.get("ev") == "gcall")
    ctx.sample(tr, 1, skip=2)
    return viol


def run_C01(ctx):
    if ctx.replay is not None:
        eng = ctx.replay["engine"]
        viol = {"server": server_run, "client": lambda c: client_run(c, False), "bereq": bereq_run,
                "gpu": lambda c: gpu_run(c, False), "sender": sender_run, "client_seg": lambda c: reply_framing_run(c, cuts=False)}[eng](ctx)
    else:
        # (the last stage: conformant replies arriving in pieces must decode to what the peer encoded -- the segmentation
        # stimuli of C08, judged here in C01's terms)
        viol = (server_run(ctx) + client_run(ctx, want_mutations=False) + bereq_run(ctx) + gpu_run(ctx, hostile=False) + sender_run(ctx)
                + reply_framing_run(ctx, cuts=False))
    return ctx.finish("exploration",
        "WireFormat.tla (transcribed from the vhost-user / vhost-user-gpu documents) is the byte-level oracle, evaluated by TLC on recorded "
        "traces: (a) every frontend operation in every negotiation state (MC_Client transitions): bytes, flags, size, descriptor count / "
        "identity / attachment to the first byte as captured by an independent raw peer, and values decoded from the peer's conformant "
        "replies; (b) every request of MC_BackendServer's transitions encoded by the independent packer: arguments/files seen by the handler "
        "and reply/ack bytes for handler-chosen values (64-bit lattice + random); (c) backend-initiated requests and acks in three bindings; "
        "(d) all 12 GPU requests incl. payload lengths 0..70000 (300000 thorough) and both reply directions; (e) descriptors as ancillary data "
        "of the first byte under partial writes (the sender stage of C08); distinct = (engine, operation, "
        "class, outcome)",
        ASSUME_COMMON + ["payload of the SET_LOG_BASE reply and tail padding of the inflight message are not fixed by the document and not judged",
                         "the hosts supported are little-endian; 'native-endian' is checked as little-endian"],
        viol)


# ---------------------------------------------------------------------------------------------
# C20: validators
def run_C20(ctx):
    nrandom = 100000 if ctx.tier == "quick" else 2000000
    if ctx.replay is not None:
        cases = [c for c in ctx.replay["cases"] if c]
        nrandom = 0
    else:
        cases = ctx.tlc_mc("MC_Validators", "MC_Validators_" + ctx.tier, workers=1)
    tr = ctx.harness("valid", cases, extra=("--random", str(nrandom)))
    def lookup(i):
        with open(tr) as f:
            for line in f:
                if f'"i":{i},' in line:
                    e = json.loads(line)
                    return dict(t=e["t"], m=e["m"])
        return None
    ctx.case_lookup["valid"] = lookup
    viol = ctx.tlc_tv("TV_Validators", tr, "valid", chunk_events=20000, par=12)
    n = 0
    for line in open(tr):
        if '"ev":"val"' in line:
            n += 1
            if n % 997 == 1 or '"valid":true' in line and n % 13 == 0:
                e = json.loads(line)
                ctx.distinct.add((e["t"], json.dumps(e["m"], sort_keys=True)))
    ctx.evaluations = n
    ctx.sample(tr, 3, skip=10)
    ctx.exhaustive = True
    ctx.notes.append("distinct_nontrivial is a lower bound: a 1/997 systematic sample of evaluated points plus 1/13 of the accepted ones, de-duplicated")
    return ctx.finish("exploration",
        "Validators.tla holds one reference predicate per message type (from the rules of the protocol, on 16-bit limbs). TLC enumerates "
        "the full product of the per-field boundary sets of MC_Validators (0, 1, alignment+-1, limit+-1, 2^31, 2^32-1, 2^63, 2^64-4096+-1, "
        "2^64-1, every single flag bit, code windows) for the 13 types; the harness builds each struct from raw bytes and records is_valid(); "
        "TLC re-evaluates the predicate on every record (lattice and seeded random points) and compares. A range ending exactly at 2^64 is "
        "left open ('any').",
        ASSUME_COMMON + ["the lattice is exhaustive for the bounded sets in MC_Validators.tla, not for all 2^64 values; random points add coverage in between"],
        viol)


# ---------------------------------------------------------------------------------------------
# C05: hostile input to the backend request server (+ daemon part, see daemon_hostile_run)
def hostile_server_run(ctx, fdpos=False):
    cases = ctx.tlc_mc("MC_Hostile", "MC_Hostile_" + ctx.tier, workers=1)
    reps = 3 if ctx.tier == "quick" else 12
    allc = []
    if fdpos:
        allc.extend(dict(c) for c in ctx.hcases)
    for r in range(reps):
        for c in cases:
            allc.append(dict(dev=c["dev"], steps=c["steps"], adapter="direct" if r % 3 == 2 else "mutex"))
    # requests whose body is cut off by end-of-stream (after its first byte, in the middle, before its last byte): the missing
    # bytes must never reach the handler (the exhaustive cut enumeration belongs to C08)
    import subprocess
    from vlib import VH
    for cl in json.loads(subprocess.run([VH, "lens"], stdout=subprocess.PIPE, text=True, check=True).stdout):
        if cl["len"] > 13:
            for k in sorted({13, 12 + (cl["len"] - 12) // 2, cl["len"] - 1}):
                allc.append(dict(dev=dict(vf=[30], pf=[]), steps=SRV_PREFIX + [dict(c=cl["c"], nr=False, h="ok", v=[], var="fixed", seg=[], cut=k)]))
    allc = replay_or(ctx, "server", allc)
    tr = ctx.harness("server", allc, shards=12, crash_is_data=True)
    viol = ctx.tlc_tv("TV_BackendServer", tr, "server")
    ctx.count_distinct(tr, lambda e: (e["c"], e["var"], e["nfds"], e["res"], e["ncalls"]), lambda e: e["var"] != "valid")
    ctx.sample(tr, 3, skip=7)
    return viol


# ---- daemon part of C05: well-typed control messages with adversarial values against a running VhostUserDaemon
M64 = (1 << 64) - 1
U64V = {"zero": 0, "one": 1, "page-1": 0xfff, "page": 0x1000, "2^31": 1 << 31, "2^32-1": (1 << 32) - 1, "2^32": 1 << 32,
        "2^63-1": (1 << 63) - 1, "2^63": 1 << 63, "top-page": (1 << 64) - 0x1000, "max": M64}
IDXV = {"first": 0, "last": 1, "nq": 2, "127": 127, "255": 255, "max32": 0xffffffff}
NUMV = {"zero": 0, "one": 1, "three": 3, "max": 256, "max+1": 257, "65535": 65535, "65536": 65536, "max32": 0xffffffff}
U16V = {"zero": 0, "one": 1, "65535": 65535}


def from_limbs4(l4):
    return l4[0] | l4[1] << 16 | l4[2] << 32 | l4[3] << 48


def hostile_letter(a, pool, rnd):
    """One letter of DaemonHostile.tla as a raw message (code, body, descriptors)."""
    import struct
    k, f = a["k"], a["f"]
    ua0, size0, gpa0 = from_limbs4(pool[0]["ua"]), from_limbs4(pool[0]["size"]), from_limbs4(pool[0]["gpa"])
    def u64(c):
        return rnd.getrandbits(64) if c == "random" else U64V[c]
    def addr(c, align):
        return {"in": ua0 + 0x100, "unaligned": ua0 + 0x101, "last-bytes": ua0 + size0 - align, "end": ua0 + size0, "before": ua0 - 16,
                "zero": 0, "2^63": 1 << 63, "top-16": (1 << 64) - 16, "max": M64}[c] & M64
    FILE = 0x4000          # size of every file handed over with a hostile letter
    why = []
    def reg(r):
        g = {"zero": 0, "page": 0x1000, "2^63": 1 << 63, "top-2pages": (1 << 64) - 0x2000, "top-page": (1 << 64) - 0x1000}
        sz = {"zero": 0, "page": 0x1000, "beyond-file": 0x100000, "2^63": 1 << 63, "max-page": (1 << 64) - 0x1000, "mapped": size0}
        u = dict(g, mid=0x7000_0000_0000, mapped=ua0)
        g["mapped"] = gpa0
        o = {"zero": 0, "page": 0x1000, "2^63": 1 << 63, "top-page": (1 << 64) - 0x1000}
        if o[r["off"]] + sz[r["size"]] > FILE:
            why.append("window-extends-beyond-the-end-of-the-file")
        return struct.pack("<QQQQ", g[r["gpa"]], sz[r["size"]], u[r["ua"]], o[r["off"]])
    d = dict(op="raw", hk=k, has_reply=False, nfds=0, why="")
    if k in ("set_vring_num", "set_vring_base", "set_vring_enable"):
        d.update(c={"set_vring_num": 8, "set_vring_base": 10, "set_vring_enable": 18}[k], body=struct.pack("<II", IDXV[f["idx"]], NUMV[f["v"]]).hex())
    elif k == "get_vring_base":
        d.update(c=11, body=struct.pack("<II", IDXV[f["idx"]], 0).hex(), has_reply=True)
    elif k == "set_vring_addr":
        fl = {"none": 0, "log": 1, "undefined": 0x80000002}[f["flags"]]
        d.update(c=9, body=struct.pack("<IIQQQQ", IDXV[f["idx"]], fl, addr(f["desc"], 16), addr(f["used"], 4), addr(f["avail"], 2), 0).hex())
    elif k in ("set_vring_kick", "set_vring_call", "set_vring_err"):
        v = IDXV[f["idx"]] | (0x100 if f["nofd"] else 0)
        d.update(c={"set_vring_kick": 12, "set_vring_call": 13, "set_vring_err": 14}[k], body=struct.pack("<Q", v).hex(), nfds=1 if f["fd"] else 0, fdkind="eventfd")
    elif k in ("set_features", "set_protocol_features"):
        d.update(c=2 if k == "set_features" else 16, body=struct.pack("<Q", u64(f["v"])).hex())
    elif k == "set_mem_table":
        n = f["n"]
        body = struct.pack("<II", n, 0) + reg(f["r"])
        if n == 2:
            body += struct.pack("<QQQQ", 0x4000_0000, 0x1000, 0x6000_0000_0000, 0)
        d.update(c=5, body=body.hex(), nfds=n, fdsize=0x4000)
    elif k in ("add_mem_reg", "rem_mem_reg"):
        d.update(c=37 if k == "add_mem_reg" else 38, body=(struct.pack("<Q", 0) + reg(f["r"])).hex(), nfds=1 if k == "add_mem_reg" else 0, fdsize=0x4000)
    elif k == "set_log_base":
        sz_, of_ = u64(f["size"]), u64(f["off"])
        if sz_ + of_ > FILE:
            why.append("window-extends-beyond-the-end-of-the-file")
        d.update(c=6, body=struct.pack("<QQ", sz_, of_).hex(), nfds=1, fdsize=0x4000, has_reply=True)
    elif k in ("get_config", "set_config"):
        off = {"zero": 0, "in": 0x100, "end-1": 0xfff, "end": 0x1000, "max32": 0xffffffff}[f["off"]]
        win = 0x1000 - off if off < 0x1000 else 0x1000
        size = {"zero": 0, "one": 1, "window": win, "window+1": win + 1, "max32": 0xffffffff}[f["size"]]
        d.update(c=24 if k == "get_config" else 25, body=(struct.pack("<III", off, size, 0) + bytes(size if size <= 0x1001 else 8)).hex(), has_reply=(k == "get_config"))
    elif k in ("get_inflight_fd", "set_inflight_fd"):
        s3 = {"zero": 0, "page": 0x1000, "max": M64}
        d.update(c=31 if k == "get_inflight_fd" else 32, body=struct.pack("<QQHHI", s3[f["size"]], s3[f["off"]], U16V[f["nq"]], U16V[f["qs"]], 0).hex(),
                 has_reply=(k == "get_inflight_fd"), nfds=0 if k == "get_inflight_fd" else 1, fdsize=0x4000)
    elif k == "kick":
        return dict(op="kick", q=0, which="cur", hk="kick")
    elif k == "use_ring":
        return dict(op="use_ring", q=0, idx=0, len=16, oused=limbs(0x400), hk="use_ring")
    d["why"] = why[0] if why else ""
    return d


def daemon_hostile_run(ctx):
    stim = ctx.tlc_mc("MC_DaemonHostile", "MC_DaemonHostile_" + ctx.tier, workers=1)
    rnd = random.Random(ctx.seed)
    neg = dict(op="negotiate", feats=[30], pf=[0, 1, 3, 5, 9, 13, 15, 18, 21])
    cases = []
    reps = 1 if ctx.tier == "quick" else 3
    for i, c in enumerate(stim):
        for r_ in range(reps):
            pool, G = mem_pool(rnd)
            pre = {"fresh": [], "negotiated": [neg], "memory": [neg, dict(op="set_mem_table", rids=[0], badfd=False)]}
            pre["ring"] = pre["memory"] + [dict(op="set_vring_num", q=0, n=limbs(256)),
                                           dict(op="set_vring_addr", q=0, rid=0, odesc=limbs(0x100), oavail=limbs(0x300), oused=limbs(0x400), used_idx=0),
                                           dict(op="set_vring_base", q=0, n=limbs(0)), dict(op="set_vring_kick", q=0, fd="new"),
                                           dict(op="set_vring_call", q=0, fd="new"), dict(op="set_vring_enable", q=0, en=True)]
            steps = pre[c["level"]] + [hostile_letter(a, pool, rnd) for a in c["steps"]]
            if c["level"] in ("memory", "ring"):
                # whatever was accepted is then exercised by the worker
                steps += [dict(op="kick", q=0, which="cur", hk="kick"), dict(op="use_ring", q=0, idx=0, len=16, oused=limbs(0x400), hk="use_ring"),
                          dict(op="kick", q=0, which="cur", hk="kick")]
            cases.append(dict(nq=2, masks=[3], maxq=256, pool=pool, level=c["level"], vring="rwlock" if i % 2 else "mutex",
                              adapter=("arc", "mutex", "rwlock")[i % 3], steps=steps))
    cases = replay_or(ctx, "daemon", cases)
    tr = ctx.harness("daemon", cases, shards=12, crash_is_data=True)
    viol = ctx.tlc_tv("TV_DaemonHostile", tr, "daemon")
    ctx.count_distinct(tr, lambda e: (e.get("letter", {}).get("hk"), e.get("letter", {}).get("c"), e.get("status")),
                       lambda e: e.get("ev") == "step" and "hk" in e.get("letter", {}))
    ctx.sample(tr, 2, skip=11)
    return viol


def run_C05(ctx):
    if ctx.replay is not None and ctx.replay["engine"] == "daemon":
        viol = daemon_hostile_run(ctx)
    else:
        viol = hostile_server_run(ctx) + (daemon_hostile_run(ctx) if ctx.replay is None else [])
    return ctx.finish("exploration",
        "MC_Hostile enumerates, per request code (0..46, 1000) from a fresh and from a fully negotiated connection: the valid message, 10 header "
        "mutations (REPLY, version 0/2/3, reserved bit, size short/long/zero/4096/>4096), every single violated body rule, and 0..40 attached "
        "descriptors (8 classes quick) x NEED_REPLY x handler outcome; each letter is instantiated with several seeds (boundary + random 64-bit "
        "values) and written by a raw peer to the real BackendReqHandler built with overflow checks and debug assertions; TLC evaluates on "
        "the recorded handler calls the reference validity predicates (Validators.tla), the prescribed descriptor count and rejection of "
        "the listed rule violations. Daemon part: DaemonHostile.tla enumerates every well-typed control message x value classes over the "
        "64/32/16-bit boundary lattice (ring indexes, sizes, ring addresses relative to the mapped region and at the ends of the address space, "
        "region geometries incl. wrapping and beyond-file sizes, log windows, config windows, inflight geometries, kick/call/err payloads) from four "
        "set-up levels (fresh, negotiated, memory mapped, ring started), plus all ordered pairs over a reduced alphabet; each is sent to a real "
        "VhostUserDaemon, followed by a kick and a used-ring update; TLC requires an answer or an ended connection for every message and "
        "no panic in any thread; distinct = (code, variant, descriptors, result, dispatched) and (message kind, result)",
        ASSUME_COMMON + ["reads outside the received message that do not end in a panic/abort are invisible to this technique (not claimed)",
                         "header-level oddities (REPLY flag, wrong fixed size) on requests the statement's rule list does not mention are judged only for panics, "
                         "invalid handler arguments and descriptor counts"],
        viol)


def fdfate_run(ctx):
    """C09, daemon part: fate of the descriptors a running daemon receives for its ring slots (FdFate.tla)."""
    hist = ctx.tlc_mc("MC_FdFate", "MC_FdFate_cover")
    hist += ctx.tlc_mc("MC_FdFate", "MC_FdFate_hist" if ctx.tier == "quick" else "MC_FdFate_hist_thorough", max_cases=20000)
    def letter(a):
        if a["op"] == "set":
            return dict(op="fdslot", role=a["role"], q=a["q"], kind=a["kind"])
        if a["op"] == "base":
            return dict(op="get_vring_base", q=a["q"])
        return dict(op="reconnect")
    # in every other case the rings are enabled from the start (negotiation without PROTOCOL_FEATURES): a kick descriptor then
    # is polled by its worker as soon as it arrives, and replacing it goes through the registration switch
    NEG_EN = dict(op="negotiate", feats=[], pf=[0, 1, 3, 5, 9, 13, 15, 18, 21])
    cases = [dict(nq=2, masks=[1, 2] if i % 2 else [3], vring="rwlock" if i % 3 else "mutex", adapter="arc",
                  steps=[NEG if (i // 2) % 2 else NEG_EN] + [letter(a) for a in c["steps"]]) for i, c in enumerate(hist)]
    cases = replay_or(ctx, "daemon", cases)
    tr = ctx.harness("daemon", cases, "_fdfate", shards=8)
    viol = ctx.tlc_tv("TV_FdFate", tr, "daemon_fdfate")
    ctx.count_distinct(tr, lambda e: (e.get("op"), json.dumps(e.get("letter", {}), sort_keys=True), e.get("status"), tuple(e.get("out", {}).get("held", []))),
                       lambda e: e.get("ev") == "step" and e.get("op") in ("fdslot", "get_vring_base"))
    return viol


def run_C09(ctx):
    if ctx.replay is not None:
        eng = ctx.replay["engine"]
        viol = {"server": lambda c: hostile_server_run(c, True), "client": lambda c: client_run(c, True), "session": session_run,
                "bereq": lambda c: bereq_run(c, hostile=True), "gpu": gpu_run, "daemon_fdfate": fdfate_run}[eng](ctx)
    else:
        # (server_run: the functional stimuli of the request server, among them the handler outcomes that hand a descriptor of the
        #  application's own to the library for transmission -- such a descriptor, too, must be gone after the teardown)
        viol = (hostile_server_run(ctx, fdpos=True) + server_run(ctx) + session_run(ctx) + client_run(ctx, want_mutations=True)
                + bereq_run(ctx, hostile=True) + gpu_run(ctx, hostile=True) + fdfate_run(ctx))
    return ctx.finish("fault_enumeration",
        "every connection of the hostile-input spaces of C05/C06 (valid, invalid, truncated, over-stuffed messages with 0..40 descriptors on "
        "the header, on body segments, on requests/replies that take none, beyond the 32-descriptor limit) is torn down after its last "
        "message (every message and every error path is a teardown point because each stimulus ends its own connection); the set of open "
        "descriptors (fstat identity multiset from /proc/self/fd) before creating the endpoints and after dropping them is recorded and "
        "TLC requires: nothing leaked, nothing foreign closed, each delivered descriptor is one that was sent and delivered once, lent "
        "descriptors still open; the functional stimuli of the request server and whole frontend/server sessions (handler outcomes that hand a "
        "descriptor of the application's own to the library included) are accounted for in the same way; distinct = (engine, code/op, variant, descriptors, outcome)",
        ASSUME_COMMON + ["descriptors the application handler received by value are dropped by the recording handler (so they must be closed at teardown)",
                         "daemon part (FdFate.tla): descriptors of five kinds (eventfd, either end of a pipe, socket, memory file) sent for the kick/call/"
                         "error slots of the rings of a running daemon; after every letter each one is held by the daemon iff it occupies a slot "
                         "(counted through /proc/self/fd identities incl. the kernel's eventfd ids), and none is open once the daemon has been dropped"],
        viol)


# ---------------------------------------------------------------------------------------------
# C10: request/answer atomicity under concurrency
def run_C10(ctx):
    import glob
    if ctx.replay is not None and ctx.replay["engine"] in ("gpu", "client", "bereq"):
        eng = ctx.replay["engine"]
        viol = gpu_run(ctx, hostile=True) if eng == "gpu" else client_run(ctx, True) if eng == "client" else bereq_run(ctx, hostile=True, functional=False)
        return ctx.finish("model_checking", "replay of a hostile-answer stimulus (self-deadlock on an error path)", ASSUME_COMMON, viol)
    ns = (2,) if ctx.tier == "quick" else (2, 3)
    cases = []
    for cfgp in sorted(glob.glob(os.path.join(ROOT, "spec", "mc", "MC_Txn_*.cfg")) + glob.glob(os.path.join(ROOT, "spec", "mc", "MC_TxnCrash_*.cfg"))):
        name = os.path.basename(cfgp)[:-4]
        n = int(name.split("_")[2])
        kinds = name.split("_")[3:]
        if n not in ns and not (ctx.tier == "quick" and n == 3 and len(set(kinds)) == 1):
            continue
        scheds = ctx.tlc_mc("MC_Txn", name, workers=2)
        for s_ in scheds:
            k = s_["kinds"]
            for ep in ("fe", "be", "gpu"):
                if ep == "fe" and "ack" in k and "ff" in k:
                    continue   # NEED_REPLY is a property of the shared endpoint: ack and fire-and-forget calls cannot mix
                cfgk = any(x.startswith("cfg") for x in k)
                if cfgk and ep == "gpu":
                    continue   # the GPU proxy has no such setting
                if not cfgk and (ep == "be" and len(set(k)) != 1 or ep == "be" and "reply" in k):
                    continue   # the proxy's requests are all acknowledged or all fire-and-forget
                cases.append(dict(ep=ep, kinds=k, sched=s_["sched"]))
    if ctx.tier == "quick" and len(cases) > 1500:
        cases = cases[::len(cases) // 1500 + 1]
    # every seventh controlled schedule with an answer-awaiting call also runs over a socket whose first receive attempt(s) meet a
    # temporary condition (EAGAIN: receive timeout / non-blocking socket; EINTR): waiting for an answer longer must not open
    # the transaction to other callers
    extra = []
    for j, c in enumerate(cases):
        if j % 7 == 0 and any(k in ("reply", "ack") for k in c["kinds"]) and "crash" not in json.dumps(c["sched"]):
            extra.append(dict(c, recvfault=([11], [4], [11, 11, 4])[(j // 7) % 3]))
    cases = cases + extra
    # which operation stands for a kind rotates within every (endpoint, kinds) group, so that each public operation of each
    # proxy is the one running beside another caller's transaction in several schedules
    grp = {}
    for c in cases:
        k = (c["ep"], tuple(c["kinds"]))
        c["var"] = grp.get(k, 0)
        grp[k] = c["var"] + 1
        if c["ep"] == "fe" and c["var"] % 4 == 3:
            # every fourth frontend schedule negotiates the protocol features without SET_FEATURES having acknowledged bit 30
            c["negorder"] = "pf_first"
    # uncontrolled multi-thread stress (hooks only record)
    for ep, ks in (("fe", ["reply"] * 4), ("fe", ["reply", "ack", "reply", "ack", "ack", "reply"]), ("fe", ["reply", "ff", "ff", "reply"]),
                   ("be", ["ack"] * 8), ("be", ["ff"] * 4), ("gpu", ["reply", "ff", "ack", "reply", "ff", "reply", "ack", "ff"])):
        for r in range(3 if ctx.tier == "quick" else 20):
            cases.append(dict(ep=ep, kinds=ks, sched=[], free=True, var=r, n=150 if ctx.tier == "quick" else 1000))
    cases = replay_or(ctx, "txn", cases)
    tr = ctx.harness("txn", cases, shards=8)
    viol = ctx.tlc_tv("TV_Txn", tr, "txn", chunk_events=8000)
    if ctx.replay is None:
        # "all calls complete (no self-deadlock)" also on the error paths: the hostile-answer stimuli of C06 are run again; a call
        # that does not return even after its connection has been shut down is reported here
        viol += gpu_run(ctx, hostile=True) + client_run(ctx, want_mutations=True) + bereq_run(ctx, hostile=True, functional=False)
    seen = set()
    cur = None
    for line in open(tr):
        e = json.loads(line)
        if e["ev"] == "reset":
            cur = [e["ep"], tuple(e["kinds"])]
            order = []
        elif e["ev"] in ("sent", "done", "received"):
            order.append((e["ev"], e["t"]))
        elif e["ev"] == "end":
            ctx.evaluations += 1
            if len(order) < 40:
                ctx.distinct.add((cur[0], cur[1], tuple(order)))
    ctx.sample(tr, 2, skip=0)
    ctx.exhaustive = True
    return ctx.finish("model_checking",
        "TxnAtomicity.tla (threads x endpoint lock x hold points x peer) is model-checked for every mix of reply/ack/fire-and-forget calls "
        "with 2 (quick) and 3 (thorough) threads: Indivisible, OwnAnswer, no deadlock, termination under fairness. Every complete schedule "
        "of the model (sequence of controller commands over the hold points) is replayed on real clones of Frontend, Backend proxy and "
        "GpuBackend against a raw peer answering in arrival order with request-tagged answers; the recorded hold-point events are "
        "validated by TLC (a `sent` event inside another caller's request/answer window is the violation). Plus uncontrolled stress with "
        "4-8 threads whose hook-recorded event order is validated the same way. Which public operation stands for a kind rotates over "
        "all of them (Frontend: 11 reply-bearing and 19 acknowledged / fire-and-forget operations incl. the device-state, inflight, "
        "config, shared-object and memory-slot calls; all 5 proxy and all 12 GPU operations). distinct = distinct (endpoint, kinds, observed event order)",
        ASSUME_COMMON + ["a thread the model says must block is observed only through the absence of its `sent` event before the holder is released; "
                         "a too short quiet period (3 ms) can hide a late arrival but never fabricate a violation"],
        viol)


# ---------------------------------------------------------------------------------------------
# C19: kernel vhost / vDPA backends
def run_C19(ctx):
    import subprocess
    from vlib import ToolError
    exe = os.path.join(ctx.dir, "uapi_dump")
    r = subprocess.run(["gcc", "-O0", "-o", exe, os.path.join(ROOT, "uapi", "uapi_dump.c")], stdout=subprocess.PIPE, stderr=subprocess.STDOUT, text=True)
    if r.returncode != 0:
        raise ToolError("cannot compile uapi/uapi_dump.c against <linux/vhost.h>: " + r.stdout[-500:])
    uapi = subprocess.run([exe], stdout=subprocess.PIPE, text=True, check=True).stdout
    cases = ctx.tlc_mc("MC_Kern", "MC_Kern_" + ctx.tier, workers=1)
    reps = 4 if ctx.tier == "quick" else 40
    allc = [dict(c) for r_ in range(reps) for c in cases]
    allc = replay_or(ctx, "kern", allc)
    tr = ctx.harness("kern", allc, shards=8)
    # the header's numbers go through the same trace validation (TLC compares them with the catalogue)
    tr2 = tr + ".uapi"
    with open(tr2, "w") as f:
        f.write(uapi)
        f.write(open(tr).read())
    viol = ctx.tlc_tv("TV_Kern", tr2, "kern")
    spec_err = [v for v in viol if v["sig"].startswith("SPEC/")]
    if spec_err:
        raise ToolError("KernBackend.tla disagrees with this system's <linux/vhost.h>: " + ", ".join(v["sig"] for v in spec_err))
    ctx.count_distinct(tr, lambda e: (e.get("backend"), e.get("op"), e.get("cls"), e.get("kfail"), e.get("nioctls"), e.get("res_ok")),
                       lambda e: e.get("ev") == "kop")
    ctx.sample(tr, 3, skip=2)
    ctx.exhaustive = True
    return ctx.finish("exploration",
        "KernBackend.tla (ioctl direction/type/number/size and argument layouts, IOTLB v1/v2 layouts, refusal classes) is transcribed from "
        "<linux/vhost.h>; a C program compiled against the installed header prints the same table and TLC checks the two agree. TLC "
        "enumerates every operation of the kernel, net, vsock and vDPA backends x argument class x kernel outcome x acknowledged-feature "
        "state x 1..3 region layouts (+ histories changing the acknowledged features); each is run on the real backend objects on a dummy "
        "descriptor with `ioctl` interposed by the harness binary and IOTLB writes read back; TLC validates request number, argument "
        "bytes (host-address translation for kernel rings, identity for vDPA), returned values and refusal before any ioctl; values are "
        "redrawn per repetition from the 64-bit lattice",
        ASSUME_COMMON + ["<linux/vhost.h> of this sandbox is the UAPI truth", "ioctl is interposed by symbol definition in the harness binary (vmm-sys-util calls libc::ioctl)",
                         "perm/type bytes outside the defined enums are not fed to the parsers (transmute of an undefined discriminant is outside what a trace can observe)"],
        viol)


# ---------------------------------------------------------------------------------------------
# Daemon engine: C11 (ring life-cycle), C17 (routing), C13 (memory), C14 (ring config), C15 (dirty log)
NEG = dict(op="negotiate", feats=[30], pf=[0, 1, 3, 5, 9, 13, 15, 18, 21])


def vring_letter(a):
    d = dict(op=a["op"], q=a["q"])
    if a["op"] == "set_features":
        d["bits"] = [30] if a["pf"] else []
    if a["op"] in ("set_vring_kick", "set_vring_call"):
        d["fd"] = a["fd"]
    if a["op"] == "set_vring_enable":
        d["en"] = a["en"]
    if a["op"] == "kick":
        d["which"] = a["which"]
    return d


# after the last letter of every stimulus each ring is kicked once more (on the descriptor sent last): whether the ring then
# dispatches is what its state means -- two histories that end in the same model state must behave alike from there on, which
# transition coverage by itself never asks (it reaches every state by one history only)
PROBE2 = [dict(op="kick", q=0, which="cur"), dict(op="kick", q=1, which="cur")]


def run_C11(ctx):
    cover = ctx.tlc_mc("MC_Vring", "MC_Vring_cover")
    hist = ctx.tlc_mc("MC_Vring", "MC_Vring_hist_" + ctx.tier, max_cases=900000)
    depth = 5 if ctx.tier == "quick" else 6
    hist = [c for c in hist if len(c["steps"]) == depth]
    if ctx.tier == "quick":
        hist = hist[::max(1, len(hist) // 4000)]
        cover = cover[::2]
    else:
        # every depth-6 history is model-checked; a seeded sample of them is replayed (memory / time of the replay)
        hist = random.Random(ctx.seed).sample(hist, min(len(hist), 80000))
    cases = []
    for i, c in enumerate(cover):
        cases.append(dict(nq=2, masks=[3] if i % 3 else [1, 2], vring="rwlock" if i % 2 else "mutex", adapter=("arc", "mutex", "rwlock")[i % 3],
                          steps=[NEG, dict(op="set_features", bits=[])][:1] + [vring_letter(a) for a in c["steps"]] + PROBE2))
    for i, c in enumerate(hist):
        cases.append(dict(nq=1, masks=[1], vring="rwlock" if i % 2 else "mutex", steps=[NEG] + [vring_letter(a) for a in c["steps"]] + PROBE2[:1]))
    cases = replay_or(ctx, "daemon", cases)
    tr = ctx.harness("daemon", cases, shards=12)
    viol = ctx.tlc_tv("TV_Vring", tr, "daemon")
    ctx.count_distinct(tr, lambda e: (e.get("op"), json.dumps(e.get("letter"), sort_keys=True), e.get("status"), e.get("ndispatch")),
                       lambda e: e.get("ev") == "step" and e.get("op") != "negotiate")
    ctx.sample(tr, 2, skip=4)
    ctx.exhaustive = True
    return ctx.finish("model_checking",
        "VringLifecycle.tla: every (state, control letter) transition of the 2-ring model (letters: SET_FEATURES +-PF, SET_VRING_KICK "
        "new/none/same, SET_VRING_CALL, SET_VRING_ENABLE 0/1, GET_VRING_BASE, RESET_DEVICE, kick on the current / a replaced descriptor) "
        "and all 1-ring histories to depth 5 (6 thorough) are model-checked (quiescence, retained kicks) and replayed on a real "
        "VhostUserDaemon (Mutex- and RwLock-backed rings, three backend adapters, one or two workers); after each letter a barrier listener "
        "brings the workers to quiescence, so the set of dispatched rings is observed exactly and TLC compares it with the model",
        ASSUME_COMMON + ["dispatches caused by a kick on a descriptor the ring no longer holds are not judged",
                         "epoll reports descriptors that became ready before the barrier descriptor no later than the barrier (level-triggered, FIFO ready list)"],
        viol)


def limbs(v):
    return [v & 0xffff, (v >> 16) & 0xffff, (v >> 32) & 0xffff, (v >> 48) & 0xffff]


def apalache_routing(ctx):
    """The routing properties for all configurations up to larger bounds, symbolically (Apalache, RoutingAp.tla)."""
    import subprocess, shutil
    maxq, maxt = (8, 3) if ctx.tier == "quick" else (12, 4)
    d = os.path.join(ctx.dir, "apalache")
    os.makedirs(d, exist_ok=True)
    src = open(os.path.join(ROOT, "spec", "RoutingAp.tla")).read()
    src = re.sub(r"MaxQ == \d+", f"MaxQ == {maxq}", src)
    src = re.sub(r"MaxT == \d+", f"MaxT == {maxt}", src)
    open(os.path.join(d, "RoutingAp.tla"), "w").write(src)
    shutil.copy(os.path.join(ROOT, "spec", "RoutingOpsAp.tla"), d)
    t = time.time()
    try:
        r = subprocess.run(["apalache-mc", "check", "--inv=Inv", "--length=0", "--out-dir=" + os.path.join(d, "out"), "RoutingAp.tla"],
                           cwd=d, stdout=subprocess.PIPE, stderr=subprocess.STDOUT, text=True, timeout=1500)
    except subprocess.TimeoutExpired:
        raise ToolError("apalache-mc timed out on RoutingAp.tla")
    if "The outcome is: NoError" not in r.stdout:
        log(r.stdout[-2000:])
        raise ToolError("Apalache did not confirm the routing invariants of RoutingAp.tla")
    ctx.notes.append(f"Apalache 0.58 (symbolic, one query): OwnerUnique, RankIsIndexInSlice, NoExitCollision, RankInjective hold for every "
                     f"assignment of 1..{maxq} queues to {maxt} worker masks over bits 0..{maxq} ({maxq} x 2^{(maxq + 1) * maxt} configurations), "
                     f"{time.time() - t:.0f} s; TLC checks that the annotated functions equal those of Routing.tla (invariant ApAgree)")
    ctx.mc_runs.append(dict(model="RoutingAp", cfg=f"apalache MaxQ={maxq} MaxT={maxt}", distinct_states=0, states_generated=0, cases=0,
                            wall_s=round(time.time() - t, 1)))


def run_C17(ctx):
    if ctx.replay is None:
        apalache_routing(ctx)
    cfgs = ctx.tlc_mc("MC_Routing", "MC_Routing_" + ctx.tier, workers=1)
    rnd = random.Random(ctx.seed)
    # random configurations with 5-6 queues (beyond the exhaustive bound)
    for _ in range(60 if ctx.tier == "quick" else 1500):
        nq = rnd.choice((5, 6))
        cfgs.append(dict(nq=nq, masks=[rnd.randrange(1, 1 << (nq + 1)) for _ in range(rnd.randint(1, 3))]))
    cases = []
    for i, c in enumerate(cfgs):
        nq = c["nq"]
        # the rings get registered with their workers on four different paths; every configuration takes one of them in the
        # quick tier (all four in the thorough tier), and in each all rings are started and enabled before the kicks:
        #   A  no PROTOCOL_FEATURES: registered when the kick descriptor arrives
        #   B  PROTOCOL_FEATURES: kick descriptors first, then SET_VRING_ENABLE ring by ring
        #   C  as B but only every other ring is enabled, then SET_FEATURES without PROTOCOL_FEATURES enables the rest in bulk
        #   D  as B, then RESET_DEVICE (all rings disabled and unregistered), SET_FEATURES, SET_VRING_ENABLE again
        for variant in ("ABCD" if ctx.tier == "thorough" else "ABCD"[i % 4]):
            pfv = variant != "A"
            steps = [dict(op="negotiate", feats=[30] if pfv else [], pf=[3, 13])]
            for q in range(nq):
                steps.append(dict(op="set_vring_num", q=q, n=limbs(2 << q)))
                steps.append(dict(op="set_vring_kick", q=q, fd="new"))
            if variant in "BD":
                steps += [dict(op="set_vring_enable", q=q, en=True) for q in range(nq)]
            if variant == "C":
                steps += [dict(op="set_vring_enable", q=q, en=True) for q in range(0, nq, 2)]
                steps.append(dict(op="set_features", bits=[]))
            if variant == "D":
                steps.append(dict(op="reset_device"))
                steps.append(dict(op="set_features", bits=[30]))
                steps += [dict(op="set_vring_enable", q=q, en=True) for q in reversed(range(nq))]
            order = list(range(nq))
            rnd.shuffle(order)
            steps += [dict(op="kick", q=q, which="cur") for q in order]
            cases.append(dict(nq=nq, masks=c["masks"], maxq=256, vring="rwlock" if i % 2 else "mutex", adapter=("arc", "mutex", "rwlock")[i % 3], steps=steps))
    # custom listener ids across the 64-bit range
    for nq, masks in ((2, [3]), (3, [5, 2]), (1, [1]), (4, [0xf, 0])):
        ids = [0, nq - 1, nq, nq + 1, nq + 2, 255, 256, 65535]
        for k in (0, 1, nq - 1, nq, nq + 1):
            ids += [65536 + k, (1 << 32) + k, (1 << 48) + k, (1 << 63) + k]
        ids.append((1 << 64) - 1)
        for idv in ids:
            for t in range(len(masks)):
                pre = [dict(op="negotiate", feats=[], pf=[3])]
                for q in range(nq):
                    pre.append(dict(op="set_vring_num", q=q, n=limbs(2 << q)))
                    pre.append(dict(op="set_vring_kick", q=q, fd="new"))
                cases.append(dict(nq=nq, masks=masks, steps=pre + [dict(op="listener", thread=t, idl=limbs(idv))]
                                  + [dict(op="kick", q=q, which="cur") for q in range(nq)]))
    # several listeners under one id on one worker, and unregistration: every listener that is still registered is delivered
    # under its id, an unregistered one is not, the others (same id on the same worker, on another worker, another id) are unaffected
    for nq, masks in ((2, [3]), (3, [5, 2]), (3, [1, 2, 4])):
        pre = [dict(op="negotiate", feats=[], pf=[3])]
        for q in range(nq):
            pre.append(dict(op="set_vring_num", q=q, n=limbs(2 << q)))
            pre.append(dict(op="set_vring_kick", q=q, fd="new"))
        for t in range(len(masks)):
            other = (t + 1) % len(masks)
            for ida, idb in ((300, 300), (300, 301), (65535, 65535), (nq + 1, nq + 1)):
                regs = [dict(op="listener", thread=t, idl=limbs(ida), fire=False), dict(op="listener", thread=t, idl=limbs(idb), fire=False),
                        dict(op="listener", thread=other, idl=limbs(ida), fire=False)]
                for order in ([0, 1, 2], [2, 1, 0]):
                    for gone in (0, 1):
                        steps = pre + regs + [dict(op="fire", idx=i) for i in order] + [dict(op="unlisten", idx=gone)]
                        steps += [dict(op="fire", idx=i) for i in order] + [dict(op="kick", q=q, which="cur") for q in range(nq)]
                        steps += [dict(op="unlisten", idx=1 - gone), dict(op="fire", idx=0), dict(op="fire", idx=1), dict(op="fire", idx=2)]
                        cases.append(dict(nq=nq, masks=masks, vring="rwlock" if gone else "mutex", steps=steps))
    cases = replay_or(ctx, "daemon", cases)
    tr = ctx.harness("daemon", cases, shards=12)
    viol = ctx.tlc_tv("TV_Routing", tr, "daemon")
    ctx.count_distinct(tr, lambda e: (e.get("op"), e.get("q"), e.get("status"), json.dumps([(d["thread"], d["event"], d["sizes"]) for d in e.get("dispatches", [])])),
                       lambda e: e.get("ev") == "step" and e.get("op") in ("kick", "listener"))
    ctx.sample(tr, 2, skip=9)
    ctx.exhaustive = True
    return ctx.finish("model_checking",
        "Routing.tla: TLC checks owner uniqueness, rank-is-slice-index and no collision with the exit id over every assignment of 1..3 "
        "(4 thorough) queues to 1..3 worker masks over bits 0..nq (sparse, overlapping, empty masks, one bit beyond the queue count) and "
        "emits each configuration; every queue of every configuration (plus random 5-6 queue configurations) is kicked on a real daemon "
        "whose rings are told apart by configured sizes; TLC validates (thread, event id, slice) of each dispatch. Custom listener ids "
        "over the 64-bit range (reserved, nq+1, 255, 65535, 65536+k, 2^32+k, 2^48+k, 2^63+k, 2^64-1) are registered and fired.",
        ASSUME_COMMON, viol)


POOL_LO = [0, 2, 1, 8, 0, 4]
POOL_HI = [2, 4, 3, 10, 2, 6]
NPOOL = 6
MEM_NEG = dict(op="negotiate", feats=[30], pf=[3, 13, 15, 1])


def mem_pool(rnd, contig=False, top=False):
    G = rnd.choice([0x1000, 0x10_0000, 0x7f00_0000_0000, (1 << 64) - 0x40000])
    uas = [0x7000_0000_0000, 0x1000, (1 << 64) - 0x100000, 0x5555_0000_0000, 0x1234_5678_0000, 0x2222_0000_0000]
    rnd.shuffle(uas)
    if top:
        # the user range of region 3 ends exactly at 2^64 (the last byte of the address space is its last byte): the pinned code
        # refuses such a region, which the statement allows; one that is accepted must be translated like any other
        uas[3] = (1 << 64) - (POOL_HI[3] - POOL_LO[3]) * 0x1000
    if contig:
        # regions 0, 1, 5 (adjacent in guest-physical space) are adjacent in the frontend's address space as well
        uas[1] = uas[0] + 0x2000
        uas[5] = uas[1] + 0x2000
    if rnd.random() < 0.5 and not contig:
        # region 4 covers the guest range of region 0 with another file; in half of the pools it also has the same
        # user address (the same memory re-backed by a different file / offset)
        uas[4] = uas[0]
    pool = [dict(gpa=limbs(G + POOL_LO[r] * 0x1000), size=limbs((POOL_HI[r] - POOL_LO[r]) * 0x1000), ua=limbs(uas[r]),
                 off=limbs(rnd.choice([0, 0x1000, 0x3000])), top=bool(top and r == 3)) for r in range(NPOOL)]
    if uas[4] == uas[0] and pool[4]["off"] == pool[0]["off"]:
        pool[4]["off"] = limbs(0x2000)
    return pool, G


def mem_letter(a, k=0):
    # every fifth update with good descriptors hands the last region's file over opened read-only
    if a["op"] == "set_mem_table":
        return dict(op="set_mem_table", rids=a["rids"], badfd=a["bad"], rdonly=(not a["bad"]) and k % 5 == 3)
    if a["op"] == "add_mem_reg":
        return dict(op="add_mem_reg", rid=a["rid"], badfd=a["bad"], rdonly=(not a["bad"]) and k % 5 == 3)
    # the region to remove is identified by its guest range; in half of the letters the descriptor's user address is not
    # the one the region was added with (a frontend that fills in guest address and size only)
    return dict(op="rem_mem_reg", rid=a["rid"], size_delta=a["delta"], badfd=False, ua_zero=(k + a["rid"]) % 2 == 1)


def mem_probes(pool, G, xl_rid):
    ps = []
    for r in range(NPOOL):
        size = (POOL_HI[r] - POOL_LO[r]) * 0x1000
        ps.append(dict(op="probe_mem", rid=r, o=limbs(0), page=POOL_LO[r]))
        ps.append(dict(op="probe_mem", rid=r, o=limbs(size - 8), page=POOL_HI[r] - 1))
        if G + POOL_LO[r] * 0x1000 > 0:
            ps.append(dict(op="probe_addr", gpa=limbs(G + POOL_LO[r] * 0x1000 - 1), page=POOL_LO[r] - 1))
        ps.append(dict(op="probe_addr", gpa=limbs((G + POOL_HI[r] * 0x1000) % (1 << 64)), page=POOL_HI[r]))
    ps.append(dict(op="set_vring_addr", q=0, rid=xl_rid, odesc=limbs(0x10), oavail=limbs(0x102), oused=limbs(0x204)))
    return ps


def mem_reconnect_tail(pool, G, rids, contig=False):
    """After the history (whose last update may have been refused, which ends the connection): connect again to the same
    daemon and check the translation of every region in turn (a refused translation ends the connection again)."""
    tail = []
    for r in rids:
        size = (POOL_HI[r] - POOL_LO[r]) * 0x1000
        tail += [dict(op="reconnect"), MEM_NEG, mem_probes(pool, G, r)[-1]]
        # the first user address past the region is contained in no region (the pool's user ranges are far apart),
        # the last descriptor-sized slot inside it is
        if not (contig and r in (0, 1)):     # (there the next user address belongs to the neighbouring region)
            tail += [dict(op="reconnect"), MEM_NEG, dict(op="set_vring_addr", q=0, rid=r, odesc=limbs(size), oavail=limbs(0x102), oused=limbs(0x204), edge="end")]
        tail += [dict(op="reconnect"), MEM_NEG, dict(op="set_vring_addr", q=0, rid=r, odesc=limbs(size - 16), oavail=limbs(size - 2), oused=limbs(size - 4), edge="last")]
        # the three parts of a ring in different regions: each address is translated by the region that contains it
        r2, r3 = (r + 1) % NPOOL, (r + 3) % NPOOL
        tail += [dict(op="reconnect"), MEM_NEG, dict(op="set_vring_addr", q=0, rid=r, rid_u=r2, rid_a=r3, odesc=limbs(0x20), oavail=limbs(0x102), oused=limbs(0x204))]
    return tail


def run_C13(ctx):
    trans = ctx.tlc_mc("MC_Mem", "MC_Mem_" + ctx.tier)
    rnd = random.Random(ctx.seed)
    cases = []
    def wants_contig(steps, i):
        # the regions in a row (0, 1, 5) are adjacent in the frontend's address space too whenever the history touches at least
        # two of them and not region 4 (whose point is sharing region 0's range and, in half of the pools, its user address)
        touched = {r for a in steps for r in (list(a.get("rids") or []) + [a.get("rid")]) if a.get("op") != "set_mem_table" or True}
        touched = {r for a in steps for r in (list(a["rids"]) if a["op"] == "set_mem_table" else [a["rid"]])}
        return (len(touched & {0, 1, 5}) >= 2 and 4 not in touched) or (i % 4 == 0 and 4 not in touched)
    for i, c in enumerate(trans):
        contig = wants_contig(c["steps"], i)
        pool, G = mem_pool(rnd, contig, top=i % 3 == 1)
        letters = [mem_letter(a, i + j) for j, a in enumerate(c["steps"])]
        steps = [MEM_NEG]
        for j, lt in enumerate(letters):
            steps.append(lt)
            if ctx.tier == "thorough" and j < len(letters) - 1:
                steps += mem_probes(pool, G, rnd.randrange(NPOOL))[:-1]
        # the translation probe of a region outside the table ends the connection: one session per probed region
        for xl in range(NPOOL):
            st = steps + (mem_probes(pool, G, xl) if xl == i % NPOOL else mem_probes(pool, G, xl)[-1:])
            if xl == i % NPOOL:
                st = st + mem_reconnect_tail(pool, G, [(xl + 1 + k) % NPOOL for k in range(NPOOL)], contig)
            cases.append(dict(nq=1, masks=[1], pool=pool, vring="rwlock" if i % 2 else "mutex", adapter=("arc", "mutex", "rwlock")[i % 3], steps=st))
    # all histories (no state merging) over single-region letters: history-dependent slips (stale translation entries ...)
    hist = ctx.tlc_mc("MC_Mem", "MC_Mem_hist_" + ctx.tier, max_cases=900000)
    depth = 3 if ctx.tier == "quick" else 4
    hist = [c for c in hist if len(c["steps"]) == depth]
    if ctx.tier == "quick":
        hist = hist[::max(1, len(hist) // 3000)]
    else:
        hist = random.Random(ctx.seed).sample(hist, min(len(hist), 40000))
    for i, c in enumerate(hist):
        contig = wants_contig(c["steps"], i)
        pool, G = mem_pool(rnd, contig, top=i % 3 == 1)
        letters = [mem_letter(a, i + j) for j, a in enumerate(c["steps"])]
        touched = sorted({r for lt in letters for r in (lt.get("rids") or [lt.get("rid")])})
        for k, xl in enumerate(touched):
            st = [MEM_NEG] + letters + (mem_probes(pool, G, xl) if k == 0 else mem_probes(pool, G, xl)[-1:])
            if k == 0:
                st = st + mem_reconnect_tail(pool, G, range(NPOOL), contig)
            cases.append(dict(nq=1, masks=[1], pool=pool, vring="rwlock" if i % 2 else "mutex", steps=st))
    cases = replay_or(ctx, "daemon", cases)
    tr = ctx.harness("daemon", cases, shards=12, crash_is_data=True)
    viol = ctx.tlc_tv("TV_Mem", tr, "daemon")
    ctx.count_distinct(tr, lambda e: (e.get("op"), json.dumps(e.get("letter", {}).get("rids", e.get("letter", {}).get("rid"))), e.get("status"), json.dumps(e.get("out"))),
                       lambda e: e.get("ev") == "step" and e.get("op") != "negotiate")
    ctx.sample(tr, 2, skip=3)
    ctx.exhaustive = True
    return ctx.finish("model_checking",
        "MemTable.tla over a pool of 5 candidate regions (adjacent, overlapping, far, duplicate range with another file): every (table, "
        "update) transition -- SET_MEM_TABLE with lists of 1..2 (3 thorough) regions incl. unordered/overlapping/duplicate lists and a "
        "non-mmapable descriptor, ADD_MEM_REG, REM_MEM_REG of absent / size-mismatched regions -- is model-checked (no overlap ever in the "
        "table) and replayed on a real daemon with concrete geometries drawn per case (guest bases up to 2^64-0x40000, user ranges anywhere "
        "in 64-bit space, mmap offsets 0/0x1000/0x3000). After the update: bytes written through each pool file at mmap_offset+o are read "
        "through the backend's guest memory at gpa+o and back, edges +-1 are probed, the update_memory snapshot and count are compared, and "
        "a SET_VRING_ADDR with user addresses inside one pool region checks the translation through the queue's addresses.",
        ASSUME_COMMON + ["whether a legal but unsorted table is accepted is left open (only consistency with the reported outcome is judged)",
                         "the daemon ends the connection after a failed update; the memory state is then probed through the handle the backend was given and the translation table through new connections to the same daemon"],
        viol)


def ring_letter(a, cur_rid=0):
    op = a["op"]
    d = dict(op=op, q=a["q"])
    qq = a["q"] if a["q"] in (0, 1) else 0
    if op in ("set_vring_num", "set_vring_base"):
        d["n"] = limbs(a["n"])
    elif op == "set_mem_table":
        d = dict(op=op, rids=[a["n"]], badfd=False)
    elif op == "set_vring_addr":
        d.update(rid=cur_rid, odesc=limbs(0x100 + 0x100 * qq), oavail=limbs(0x300 + 0xa00 * qq), oused=limbs(0x400 + 0xc00 * qq), used_idx=a["usedIdx"])
        if a.get("n") == 2 and cur_rid != 2:
            # inside the user range of pool region 2, whose ADD_MEM_REG was refused in the case's prefix (see run_C14)
            d.update(rid=2, n=limbs(2))
        elif a.get("n") in (1, 2):
            # pool regions 0 and 4 are two pages long: the first user address past the region
            d.update(odesc=limbs(0x2000), n=limbs(1))
        else:
            d["n"] = limbs(0)
    elif op == "set_features":
        d["bits"] = a["bits"]
    elif op == "set_protocol_features":
        d["bits"] = sorted(set(a["bits"]) | {5})       # keep the backend-request channel itself negotiated
    elif op == "set_vring_call":
        d["fd"] = a["fd"]
    elif op == "use_ring":
        d.update(idx=0, len=16, oused=limbs(0x400 + 0xc00 * qq))
    return d


def c14_cases(hist, rnd, offered):
    cases = []
    for i, c in enumerate(hist):
        pool, G = mem_pool(rnd)
        pre = [dict(op="negotiate", feats=[], pf=[3, 5, 13, 15]), dict(op="set_mem_table", rids=[0], badfd=False),
               dict(op="set_vring_kick", q=0, fd="new"), dict(op="set_vring_kick", q=1, fd="new")]
        if any(a["op"] == "set_vring_addr" and a.get("n") == 2 for a in c["steps"]):
            # a refused update earlier on the same daemon: region 2 overlaps region 0 of the table, its ADD_MEM_REG is turned down
            # (which ends the connection); the frontend connects again and goes on with the table it had
            neg = pre[0]
            pre = pre[:2] + [dict(op="add_mem_reg", rid=2, badfd=False), dict(op="reconnect"), neg] + pre[2:]
        # a ring used by the backend needs a valid layout first
        if any(a["op"] == "use_ring" for a in c["steps"]):
            pre += [ring_letter(dict(op="set_vring_addr", q=q, usedIdx=0)) for q in (0, 1)]
            if i % 2 == 0:
                # in half of these histories the rings already have a call descriptor when the history begins (removing or
                # replacing it and then using the ring is then within reach of two letters)
                pre += [ring_letter(dict(op="set_vring_call", q=q, fd="new")) for q in (0, 1)]
        body, cur_rid = [], 0
        for a in c["steps"]:
            body.append(ring_letter(a, cur_rid))
            if a["op"] == "set_mem_table":
                cur_rid = a["n"]
        case = dict(nq=2, masks=[3], maxq=256, pool=pool, features=offered, vring="rwlock" if i % 2 else "mutex", adapter=("arc", "mutex", "rwlock")[i % 3],
                    steps=pre + body)
        if i % 4 == 3 or any(a["op"] == "brfd" for a in c["steps"]) and i % 2:
            # a device that does not list REPLY_ACK itself: the library offers (and negotiates) it on the device's behalf
            case["pf"] = [b for b in range(22) if b not in (3, 8, 17)]
        cases.append(case)
    return cases


def run_C14(ctx):
    rnd = random.Random(ctx.seed)
    viol = []
    tr = None
    # the same letters against two devices: one that offers VHOST_F_LOG_ALL (bit 26) among its features and one that does not
    # ("feature masks ... relative to arbitrary offered masks": what is not offered must be refused whatever else was negotiated)
    variants = [("", "MC_RingCfg_" + ctx.tier, "TV_RingCfg", [0, 26, 29, 30, 32]), ("_b", "MC_RingCfg_" + ctx.tier + "_b", "TV_RingCfgB", [0, 29, 30, 32])]
    if ctx.replay is not None:
        variants = [v for v in variants if v[2] == ctx.replay.get("tv", "TV_RingCfg")] or variants[:1]
    for tag, cfgname, tvname, offered in variants:
        hist = ctx.tlc_mc("MC_RingCfg", cfgname)
        if tag and ctx.tier == "quick":
            # the second device repeats only the histories in which feature negotiation takes part
            hist = [c for c in hist if any(a["op"] in ("set_features", "set_protocol_features") for a in c["steps"])]
        if ctx.tier == "thorough" and len(hist) > 120000:
            hist = rnd.sample(hist, 120000)
        cases = c14_cases(hist, rnd, offered)
        cases = replay_or(ctx, "daemon", cases)
        tr = ctx.harness("daemon", cases, tag, shards=12)
        viol += ctx.tlc_tv(tvname, tr, "daemon")
    ctx.count_distinct(tr, lambda e: (e.get("op"), json.dumps(e.get("letter"), sort_keys=True), e.get("status")),
                       lambda e: e.get("ev") == "step" and e.get("op") not in ("negotiate",))
    ctx.sample(tr, 2, skip=6)
    ctx.exhaustive = True
    return ctx.finish("model_checking",
        "RingConfig.tla: all histories of depth 2 (3 thorough) over the letters {SET_VRING_NUM (index 0,1,2,255 x size 0,1,2,3,128,256,257,"
        "65535), SET_VRING_BASE (0,1,32767,65535), GET_VRING_BASE, SET_MEM_TABLE (two files at the same guest range), SET_VRING_ADDR (used "
        "index in guest memory 0,1,65535), SET_FEATURES (subset / not offered / EVENT_IDX / PROTOCOL_FEATURES), SET_PROTOCOL_FEATURES "
        "(subsets of REPLY_ACK, SHARED_OBJECT, SHMEM) + SET_BACKEND_REQ_FD, SET_VRING_CALL new/none, add_used+signal by the backend} after "
        "a fixed start-up, model-checked and replayed on a real daemon; after every letter the queue accessors of every ring are sampled "
        "inside the backend's event handler (barrier listener) and compared by TLC with the model, as are backend callbacks, the proxy "
        "the backend was handed, used-ring bytes in the file backing the latest table and call eventfd counters",
        ASSUME_COMMON + ["ring addresses are checked through the single user-address mapping of pool region 0/4"], viol)


DLO = [3, 5, 9, 14, 33]
DHI = [5, 7, 12, 18, 35]


def run_C15(ctx):
    hist = ctx.tlc_mc("MC_DirtyLog", "MC_DirtyLog_" + ctx.tier)
    rnd = random.Random(ctx.seed)
    if ctx.tier == "thorough" and len(hist) > 150000:
        hist = rnd.sample(hist, 150000)
    uas = [0x7000_0000_0000, 0x10000, 0x5555_0000_0000, 0x1234_5678_0000, 0x6000_0000]
    cases = []
    for i, c in enumerate(hist):
        pool = [dict(gpa=limbs(DLO[r] * 4096), size=limbs((DHI[r] - DLO[r]) * 4096), ua=limbs(uas[r]), off=limbs(rnd.choice([0, 0x1000]))) for r in range(5)]
        steps = [dict(op="negotiate", feats=[], pf=[1, 3, 13, 15])]
        ring_ready = False
        tbl, lastlog = [], None
        for a in c["steps"]:
            op = a["op"]
            if op == "set_mem_table":
                steps.append(dict(op=op, rids=a["rids"], badfd=False))
                ring_ready = False
                tbl = list(a["rids"])
            elif op == "add_mem_reg":
                steps.append(dict(op=op, rid=a["rid"], badfd=False))
                tbl.append(a["rid"])
            elif op == "set_log_base":
                # the window that is in force sent again: the very same file (a frontend re-sending its log)
                steps.append(dict(op=op, size=limbs(a["S"]), off=limbs(a["off"]), same=(lastlog == (a["S"], a["off"]))))
                lastlog = (a["S"], a["off"])
            elif op == "write":
                size = (DHI[a["rid"]] - DLO[a["rid"]]) * 4096
                o = {"0": 0, "1": 1, "4095": 4095, "end-1": size - 1, "end-4096": size - 4096}[a["wo"]]
                n = {"0": 0, "1": 1, "2": 2, "4096": 4096, "4097": 4097, "8192": 8192, "huge": 1 << 20}[a["wl"]]
                # every third write goes through a buffer handle the backend resolved right after the last table update (an
                # in-flight request's buffer), i.e. possibly before the log was installed
                steps.append(dict(op=op, rid=a["rid"], o=limbs(o), len=limbs(n), via_held=(i + len(steps)) % 3 == 0))
            elif op == "use_ring":
                if not ring_ready:
                    steps.append(dict(op="set_vring_kick", q=0, fd="new"))
                    steps.append(dict(op="set_vring_addr", q=0, rid=0, odesc=limbs(0x100), oavail=limbs(0x300), oused=limbs(0x400), used_idx=0))
                    ring_ready = True
                steps.append(dict(op="use_ring", q=0, idx=0, len=8, oused=limbs(0x400)))
        if c["steps"] and c["steps"][-1]["op"] == "set_log_base":
            # what the log that was just installed (or refused) is worth: one write into every region of the table
            for r in tbl:
                steps.append(dict(op="write", rid=r, o=limbs(0), len=limbs(1), via_held=False))
        cases.append(dict(nq=1, masks=[1], pool=pool, vring="rwlock" if i % 2 else "mutex", steps=steps))
    # concurrent writers on bits of the same log byte
    for n in ((2, 8) if ctx.tier == "quick" else (2, 3, 4, 8, 12, 16)):
        cases.append(dict(nq=1, masks=[1], stress=dict(threads=n, iters=20000 if ctx.tier == "quick" else 400000), steps=[]))
    cases = replay_or(ctx, "daemon", cases)
    tr = ctx.harness("daemon", cases, shards=12)
    viol = ctx.tlc_tv("TV_DirtyLog", tr, "daemon")
    ctx.count_distinct(tr, lambda e: (e.get("op"), json.dumps(e.get("letter"), sort_keys=True), e.get("status"), json.dumps(e.get("out", {}).get("newbits"))),
                       lambda e: e.get("ev") == "step" and e.get("op") in ("write", "use_ring", "set_log_base"))
    ctx.sample(tr, 2, skip=5)
    return ctx.finish("model_checking",
        "DirtyLog.tla: all histories to depth 4 (5 thorough) over {SET_MEM_TABLE with 1..4 page-aligned regions sharing log bytes, "
        "ADD_MEM_REG, SET_LOG_BASE with windows of 1,2,3,5,4096 bytes at offsets 0/4096 (too small to ample), guest-memory writes at offsets "
        "0,1,4095,end-1,end-4096 with lengths 0,1,2,4096,4097,8192,2^20, used-ring update by the backend} are explored by TLC and replayed on "
        "a real daemon; after each write the shared log file and its guard bytes are read and TLC compares the set of newly set bits with "
        "the pages the write touched (bit gpa/4096, LSB first), no bit cleared, guards intact, too small a log rejected; every third write goes "
        "through a buffer handle resolved before the log was installed, the window in force is re-sent with the same file, and a history "
        "ending with SET_LOG_BASE is followed by a probe write into every region. Race clause: "
        "2..16 writer threads marking distinct pages of one log byte through the daemon's guest memory, every round checked for a lost bit "
        "(probabilistic: a non-atomic read-modify-write is caught only when two updates actually collide)",
        ASSUME_COMMON + ["the exploration level applies to the race clause: detection of a non-atomic bitmap update is probabilistic"], viol)


# ---------------------------------------------------------------------------------------------
# C12: concurrent ring life-cycle (hold-point schedules)
def run_C12(ctx):
    import glob
    kmax = 1 if ctx.tier == "quick" else 2
    cases = []
    preds = dict(p1=0, lost=0, died=0, n=0)
    for cfgp in sorted(glob.glob(os.path.join(ROOT, "spec", "mc", "MC_VringConc_*.cfg"))):
        name = os.path.basename(cfgp)[:-4]
        if name.endswith("_props"):
            continue
        k = int(name.rsplit("_", 1)[1])
        if k > kmax:
            continue
        # the model itself must satisfy "no lost kick" and "worker survives" (P1 is refuted on it: known finding)
        ctx.tlc_mc("MC_VringConc", name + "_props", workers=4)
        scheds = ctx.tlc_mc("MC_VringConc", name, workers=4)
        for i, sc in enumerate(scheds):
            preds["n"] += 1
            for f in ("p1", "lost", "died"):
                preds[f] += 1 if sc[f] else 0
            cases.append(dict(conc=True, nq=1, script=sc["script"], sched=sc["sched"], wfree=sc.get("wfree", []), vring="rwlock" if i % 2 else "mutex",
                              predicted=dict(p1=sc["p1"], lost=sc["lost"], died=sc["died"])))
    ctx.notes.append(f"model (VringConc.tla, implementation-shaped) predictions over all complete schedules: {preds}")
    # all complete schedules are model-checked; of those with two kicks (hundreds of thousands since the handler's entry and return
    # are separate steps) a seeded sample is replayed, those the model flags first
    limit = (2500, 1200) if ctx.tier == "quick" else (90000, 30000)
    if len(cases) > limit[0]:
        rnd = random.Random(ctx.seed)
        flagged = [c for c in cases if any(c["predicted"].values())]
        rest = [c for c in cases if not any(c["predicted"].values())]
        flagged = flagged if len(flagged) <= limit[1] else rnd.sample(flagged, limit[1])
        cases = flagged + rnd.sample(rest, min(len(rest), limit[0] - len(flagged)))
    cases = replay_or(ctx, "daemon", cases)
    tr = ctx.harness("daemon", cases, shards=12)
    viol = ctx.tlc_tv("TV_VringConc", tr, "daemon", chunk_events=8000)
    cur = None
    for line in open(tr):
        e = json.loads(line)
        if e["ev"] == "reset":
            cur = [tuple(e["script"]), []]
        elif e["ev"] in ("kick", "begin", "reply", "dispatch") or (e["ev"] == "hook" and e["p"] in ("w.after_wait", "w.after_read", "w.before_dispatch", "c.after_state", "c.after_ctl")):
            cur[1].append(e["ev"] + ":" + (e.get("op") or e.get("p") or ""))
        elif e["ev"] == "end":
            ctx.evaluations += 1
            ctx.distinct.add((cur[0], tuple(cur[1])))
    ctx.sample(tr, 1, skip=0)
    ctx.exhaustive = True
    return ctx.finish("model_checking",
        "VringConc.tla models one ring with the worker thread (epoll wake-up, read_kick, enabled check, dispatch), the daemon thread "
        "(state change, epoll add/del, descriptor drop, reply) and guest kicks as separately enabled steps; TLC explores all "
        "interleavings for the scenarios disable/enable, stop/start with a fresh descriptor, stop/restart with the very eventfd the ring had "
        "(kicks may arrive while it is stopped; extra hold point between installing the descriptor and marking the queue ready), "
        "reset/enable, disable, stop, enable/disable/enable with 1 (quick) "
        "or 2 (thorough) kicks and prints every complete schedule; each schedule is driven through the instrumented hold points of a "
        "real daemon (every step has a positive completion signal or is skipped), and TLC validates the recorded events against the two "
        "clauses (no handler entry after a disabling reply; no kick left unprocessed on an active ring; worker alive). distinct = distinct "
        "(script, observed event order)",
        ASSUME_COMMON + ["a dispatch that happens before the reply of the disabling message is sent counts as service of the kick (protocol-level activity)"],
        viol)


# ---------------------------------------------------------------------------------------------
# C16: shutdown / teardown
def run_C16(ctx):
    import glob
    rnd = random.Random(ctx.seed)
    cases = []
    for cfgp in sorted(glob.glob(os.path.join(ROOT, "spec", "mc", "MC_Daemon_*.cfg"))):
        name = os.path.basename(cfgp)[:-4]
        n = int(name.split("_")[2])
        if n == 3 and ctx.tier == "quick":
            continue
        sch = ctx.tlc_mc("MC_Daemon", name, workers=4, timeout=1800)
        if len(sch) > (400 if ctx.tier == "quick" else 6000):
            sch = rnd.sample(sch, 400 if ctx.tier == "quick" else 6000)
        for j, c in enumerate(sch):
            basec = dict(shutdown=True, callers=c["callers"], peer=c["peer"], peer_closes=c["peer_closes"], sched=c["sched"],
                         predicted=dict(err=c["err"], wait=c["wait"]))
            cases.append(basec)
            if c["callers"] >= 1 and (n <= 1 or j % 3 == 0):
                # the same schedule with the owner already blocked inside wait() while the shutdown requests arrive
                cases.append(dict(basec, wait_first=True))
            if c["callers"] >= 2:
                # the schedule cut right after the first completed request while another caller is still parked between its two
                # steps (flag stored, socket not yet shut down): one completed request is enough -- wait() must return now
                sch_ = c["sched"]
                k = next((i for i, x in enumerate(sch_) if x[0] == "shut"), None)
                if k is not None:
                    stored = {x[1] for x in sch_[:k] if x[0] == "store"}
                    if len(stored) >= 2:
                        cases.append(dict(basec, sched=sch_[:k + 1], cutshort=True))
            if c["peer_closes"] and c["peer"] != "full_reply" and (n <= 1 or j % 4 == 0):
                # the same schedule with a peer that only ends its own direction and keeps reading: the daemon sees the same
                # end-of-stream, and the peer must see one from the daemon when it stops serving (not for a request with a reply:
                # there the model's closed peer makes the daemon's write fail, which a half-closed peer does not)
                cases.append(dict(basec, halfclose=True))
    # peer close at every byte offset of a bodied and a body-less request, through serve()
    for bodied, ln in ((True, 20), (False, 12)):
        for cut in range(0, ln + 1):
            cases.append(dict(shutdown=True, serve=True, cut=cut, bodied=bodied))
    # the daemon object dropped while its connection is still up (no shutdown request, no wait), with eventfd- and pipe-backed
    # exit events (case id parity): its threads must go away and the peer must see end-of-stream
    for sent in ("nothing", "part", "trip"):
        for _ in range(4):
            cases.append(dict(shutdown=True, dropconn=True, sent=sent))
    cases = replay_or(ctx, "daemon", cases)
    tr = ctx.harness("daemon", cases, shards=12)
    viol = ctx.tlc_tv("TV_Daemon", tr, "daemon", chunk_events=10000)
    cur = None
    for line in open(tr):
        e = json.loads(line)
        if e["ev"] == "reset":
            cur = [e.get("callers"), e.get("peer"), e.get("peer_closes"), []]
        elif e["ev"] == "cmd":
            cur[3].append((e["c"], e["a"]))
        elif e["ev"] in ("end", "serve", "dropconn"):
            ctx.evaluations += 1
            ctx.distinct.add((cur[0], cur[1], cur[2], tuple(cur[3]), e.get("wait", e.get("res")), e.get("cut")))
    ctx.sample(tr, 1, skip=0)
    ctx.exhaustive = ctx.tier == "quick"
    return ctx.finish("model_checking",
        "DaemonLifecycle.tla (daemon thread pc x 0..3 shutdown callers with their two steps x peer having sent nothing / part of a header / a "
        "header / a complete request, staying or closing) is model-checked for every combination: after a completed shutdown request the "
        "thread exits and wait() is Ok (invariants + liveness under fairness), without shutdown a disconnect is an error, the peer sees "
        "end-of-stream. Every complete schedule (0..2 callers all; 3 callers sampled in thorough) is driven through the hold points "
        "d.before_request / d.after_request / d.before_final_shutdown / s.after_flag and a blocking handler on a real daemon; TLC replays "
        "the executed commands as model actions (conformance) and compares wait(), the peer's view, restart on a new connection, repeated "
        "shutdown and the thread count after drop; peers that close are also run as peers that only end their own direction and keep reading "
        "(they must see end-of-stream). serve() is run with the peer closing at every byte offset of a bodied and a body-less request. "
        "The backend's exit events are eventfd pairs in one half of the cases and the two ends of a pipe in the other; every drop of a "
        "daemon runs on a helper thread (a join that never returns is an observation, not a hung harness); the daemon object is also dropped "
        "while its connection is still up (peer idle, mid-header, after a round trip): threads gone, peer sees end-of-stream.",
        ASSUME_COMMON + ["wait() runs under a 10 s watchdog; 'hang' / 'threads left' are reported only once the watchdog has expired and the threads involved are seen asleep in a system call",
                         "a peer closing with an unread reply (ECONNRESET) is mapped to Ok by the library by design and is not part of these schedules"],
        viol)


# ---------------------------------------------------------------------------------------------
# Beyond the listed properties: behaviour the specification covers and binds to the code the same way
def run_X01(ctx):
    """Sticky failure state of the endpoints (EndpointFailure.tla)."""
    cases = ctx.tlc_mc("MC_EndpointFailure", "MC_EndpointFailure")
    cases = replay_or(ctx, "sticky", cases)
    tr = ctx.harness("sticky", cases, shards=4)
    viol = ctx.tlc_tv("TV_EndpointFailure", tr, "sticky")
    ctx.count_distinct(tr, lambda e: (e.get("res"), e.get("errno"), e.get("wrote", 0) > 0, e.get("consumed"), e.get("ncalls")), lambda e: e.get("ev") == "op")
    ctx.exhaustive = True
    return ctx.finish("model_checking",
        "EndpointFailure.tla: all histories of depth 4 over {set_failed(0|5|11|104), one operation} for the Backend proxy, GpuBackend, "
        "BackendReqHandler and FrontendReqHandler are model-checked (nothing reaches the wire / the handler while failed) and replayed on the "
        "real endpoints; TLC compares result, errno (request servers), bytes received by the peer, whether the pending request was consumed "
        "and whether the handler ran", ASSUME_COMMON, viol)


def run_X02(ctx):
    """Session ownership (SET_OWNER / RESET_OWNER) in the daemon's handler (Ownership.tla)."""
    hist = ctx.tlc_mc("MC_Ownership", "MC_Ownership")
    step = {"negotiate": dict(op="negotiate", feats=[30], pf=[0, 1, 3, 5, 9, 13, 15]),
            "set_owner": dict(op="raw", c=3, body="", nfds=0, has_reply=False, hk="set_owner"),
            "reset_owner": dict(op="raw", c=4, body="", nfds=0, has_reply=False, hk="reset_owner"),
            "enable": dict(op="set_vring_enable", q=0, en=True), "reconnect": dict(op="reconnect")}
    cases = [dict(nq=1, masks=[1], vring="rwlock" if i % 2 else "mutex", adapter=("arc", "mutex", "rwlock")[i % 3],
                  steps=[dict(step[a]) for a in c["steps"]]) for i, c in enumerate(hist)]
    cases = replay_or(ctx, "daemon", cases)
    tr = ctx.harness("daemon", cases, shards=8)
    viol = ctx.tlc_tv("TV_Ownership", tr, "daemon")
    ctx.count_distinct(tr, lambda e: (e.get("op"), e.get("letter", {}).get("hk"), e.get("status")), lambda e: e.get("ev") == "step")
    ctx.exhaustive = True
    return ctx.finish("model_checking",
        "Ownership.tla: all histories of depth 6 over {negotiate, SET_OWNER, RESET_OWNER, SET_VRING_ENABLE, reconnect} are model-checked "
        "(at most one owner at a time) and replayed on a real daemon; TLC compares the acknowledgement / end of connection the frontend "
        "observes for every letter with the model (claim while owned refused; release forgets the acknowledged features in the handler "
        "but not in the connection's request server; the handler state survives connections)", ASSUME_COMMON, viol)


def run_X03(ctx):
    """The daemon as a facade in front of the device backend (DeviceFacade.tla): optional device-level requests end to end."""
    cfgs = ["MC_DeviceFacade_quick", "MC_DeviceFacade_gates"] if ctx.tier == "quick" else ["MC_DeviceFacade_thorough"]
    hist = []
    for cfg in cfgs:
        hist += ctx.tlc_mc("MC_DeviceFacade", cfg, max_cases=(None if ctx.tier == "quick" else 30000))
    cases = []
    for i, c in enumerate(hist):
        steps = []
        for st in c["steps"]:
            if st["op"] == "negotiate":
                steps.append(dict(op="negotiate", feats=[30], pf=sorted(st["pf"])))
            else:
                steps.append(dict(st))
        # every history on each of the three adapters (Arc<T>, Arc<Mutex<T>>, Arc<RwLock<T>>); ring flavour and queue count vary
        for a, adapter in enumerate(("arc", "mutex", "rwlock")):
            if ctx.tier == "thorough" and (i + a) % 3:
                continue
            nq = 1 + (i + a) % 3
            cases.append(dict(nq=nq, masks=[(1 << nq) - 1], vring="rwlock" if (i + a) % 2 else "mutex", adapter=adapter, steps=steps))
    cases = replay_or(ctx, "daemon", cases)
    tr = ctx.harness("daemon", cases, shards=8)
    viol = ctx.tlc_tv("TV_DeviceFacade", tr, "daemon")
    ctx.count_distinct(tr, lambda e: (e.get("letter", {}).get("k"), e.get("letter", {}).get("h"), e.get("status"), len(e.get("dcbs", []))),
                       lambda e: e.get("ev") == "step" and e.get("op") == "dev")
    ctx.sample(tr, 2, skip=3)
    ctx.exhaustive = True
    return ctx.finish("model_checking",
        "DeviceFacade.tla: histories negotiate(set) + device letters (11 optional device-level requests x scripted callback outcome) + reconnect "
        "are model-checked (no callback through an unacknowledged gate or on a dead connection) and replayed on a real daemon through each of "
        "the three backend adapters; TLC compares, for every letter, how often the device callback ran and with which arguments/file, what the "
        "frontend observes (value reply, in-band failure, ack, nack, end of connection), the value/file carried by the reply, and that the GPU "
        "proxy handed to the device talks to the socket the frontend supplied", ASSUME_COMMON, viol)


def run_X04(ctx):
    """Life-cycle of Listener / BackendListener objects on a socket path (ListenerLife.tla)."""
    cases = ctx.tlc_mc("MC_ListenerLife", "MC_ListenerLife_cover")
    cases += ctx.tlc_mc("MC_ListenerLife", "MC_ListenerLife_hist" if ctx.tier == "quick" else "MC_ListenerLife_hist_thorough", max_cases=60000)
    cases = replay_or(ctx, "listen", cases)
    tr = ctx.harness("listen", cases, shards=8)
    viol = ctx.tlc_tv("TV_ListenerLife", tr, "listen")
    ctx.count_distinct(tr, lambda e: (e.get("op"), e.get("f"), e.get("res"), e.get("fs")), lambda e: e.get("ev") == "step")
    ctx.sample(tr, 2, skip=2)
    ctx.exhaustive = True
    return ctx.finish("model_checking",
        "ListenerLife.tla: every transition of the listener life-cycle model (two listener slots on one path: new with/without unlink, adopt a "
        "bound socket, plant a file, connect, accept / accept through BackendListener, blocking mode, drop) and all histories to the cfg depth "
        "are model-checked (each connection handed out once, owning listener reachable, no queue at a dead listener) and replayed on real "
        "Listener / BackendListener objects; TLC compares every result, what is at the path afterwards, which pending connection an accept "
        "yields (FIFO), that the request server obtained from BackendListener serves that connection, and the descriptor balance at teardown",
        ASSUME_COMMON, viol)


def run_X05(ctx):
    """Classification of socket faults and the reconnect advice (FaultClass.tla)."""
    cases = ctx.tlc_mc("MC_FaultClass", "MC_FaultClass")
    cases = replay_or(ctx, "errs", cases)
    tr = ctx.harness("errs", cases)
    viol = ctx.tlc_tv("TV_FaultClass", tr, "errs", reset_ev="class")
    ctx.count_distinct(tr, lambda e: (e.get("t"), e.get("kind"), e.get("reconnect")), lambda e: True)
    ctx.exhaustive = True
    return ctx.finish("exploration",
        "FaultClass.tla: the errno table (0..140) -> error kind, the reconnect advice of every error kind, and the kind reported by a real "
        "Frontend / BackendReqHandler for an end of stream after k bytes of the awaited message, a reset and a peer that was gone before the "
        "request; TLC compares kind, carried errno and advice", ASSUME_COMMON, viol)
