#!/usr/bin/env python3
"""Regenerate MANIFEST.json from the table below (claimed checks) + properties.jsonl."""
import json, os
ROOT = os.path.dirname(os.path.dirname(os.path.abspath(__file__)))
TRUST = ("TLC 1.8.0 + CommunityModules; the harness's independent raw-socket codec and recording handlers; bounds as in the "
         "spec/mc/*.cfg named in the evidence; default cargo features plus vhost-kern/vdpa/net/vsock (xen, postcopy excluded)")
CLAIMS = {
 "C16": ("model_checking", "2/C16",
   "DaemonLifecycle.tla (daemon thread x 0..3 shutdown callers x peer state) is model-checked: after a completed shutdown request the "
   "thread exits and wait() is Ok (safety + liveness under fairness), disconnect without shutdown is an error, the peer sees EOF. Every "
   "complete schedule is driven through the instrumented hold points and a blocking handler of a real daemon; TLC replays the executed "
   "commands as model actions and compares wait(), peer EOF, restart, repeated shutdown, thread count; serve() is cut at every byte offset. "
   "Also: the daemon thread blocked in the write of a reply (flooding peer), wait() entered before the shutdown requests, wait() while "
   "other callers are parked between the two steps of their request, eventfd- and pipe-backed exit events, every drop on a guarded helper "
   "thread, and the daemon object dropped while its connection is still up.",
   "TLA+ model checking incl. liveness (TLC) + schedule replay over hold points + TLC trace validation"),
 "C12": ("model_checking", "2/C12",
   "VringConc.tla (worker loop x daemon thread micro-steps x guest kicks over level-triggered epoll/eventfd) is model-checked for all "
   "interleavings of eight scenarios (incl. stop/restart with the same eventfd, two kicks without control messages; the handler's entry and "
   "return are separate steps): 'no lost kick' and 'worker survives' hold on the repaired model (TLC refuted 'no lost kick' on the pinned "
   "design: fix 508b844), 'no dispatch after the reply' is refuted (check-then-act window, recorded as known findings). Every complete "
   "schedule is driven through the instrumented hold points of a real daemon (a worker woken when the model says it cannot be runs on) and "
   "the recorded events are validated by TLC against the two clauses of the property.",
   "TLA+ model checking of all interleavings (TLC) + schedule replay over hold points + TLC trace validation"),
 "C11": ("model_checking", "2/C11",
   "VringLifecycle.tla (ring started/enabled/kick/pending per the protocol) is model-checked (every (state, letter) transition of the "
   "2-ring model, all 1-ring histories to depth 5/6); each is replayed on a real VhostUserDaemon over a real socket; a barrier listener "
   "brings the workers to quiescence after every letter so the exact set of dispatched rings is observed, and TLC validates it against "
   "the model.",
   "TLA+ model checking (TLC) + model-based test generation + TLC trace validation"),
 "C13": ("model_checking", "2/C13",
   "MemTable.tla over a pool of adjacent/overlapping/far/duplicate regions: every (table, update) transition and all depth-3/4 histories "
   "are replayed on a real daemon with concrete 64-bit geometries (incl. a user range ending at 2^64 and read-only descriptors, whose "
   "acceptance is left open); bytes are cross-probed through the backing files and the backend's "
   "guest memory, update_memory snapshots/counts and SET_VRING_ADDR translations are validated by TLC.",
   "TLA+ model checking (TLC) + model-based test generation + TLC trace validation"),
 "C14": ("model_checking", "2/C14",
   "RingConfig.tla post-conditions over all depth-2/3 letter histories (sizes, bases, used indexes, feature masks, out-of-range ring "
   "indexes, protocol-feature subsets + backend-request channel, call descriptors, backend ring use on a switched memory table, ring "
   "addresses after a refused ADD_MEM_REG) against two devices that offer different feature masks; the "
   "backend-visible queue state is sampled inside the event handler after every letter and validated by TLC.",
   "TLA+ model checking (TLC) + model-based test generation + TLC trace validation"),
 "C15": ("model_checking", "2/C15",
   "DirtyLog.tla page arithmetic over histories of table changes, SET_LOG_BASE (too small to ample, offsets) and writes crossing page and "
   "region boundaries, also through buffer handles resolved before the log was installed; the shared log file and guard bytes are read after every write and the set of newly set bits is validated by TLC. "
   "The concurrent-writer clause is an exploration-level stress whose rounds are each checked for a lost bit.",
   "TLA+ model checking (TLC) + model-based test generation + TLC trace validation; stress for the race clause"),
 "C17": ("model_checking", "2/C17",
   "Routing.tla: TLC checks the routing functions over every assignment of 1..3/4 queues to 1..3 masks (owner uniqueness, rank = slice "
   "index, no collision with the exit id) and every configuration is instantiated as a real daemon whose every queue is kicked; TLC "
   "validates (thread, event id, ring slice) of each dispatch and the fate of custom listener ids over the 64-bit range (also several "
   "listeners under one id, unregistration). Apalache checks the same routing invariants symbolically for all configurations up to 8 queues x "
   "3 masks (12 x 4 thorough); rings are registered with their workers on four different paths.",
   "TLA+ model checking (TLC) over all small configurations + symbolic check of the routing invariants (Apalache) + replay + TLC trace validation"),
 "C19": ("exploration", "2/C19",
   "KernBackend.tla carries the UAPI (ioctl numbers, argument layouts, IOTLB v1/v2 selection by acknowledged features, refusal classes) "
   "and is cross-checked by TLC against a C program compiled with the installed <linux/vhost.h>; TLC enumerates operations x classes x "
   "states, the harness runs them on the real backends with ioctl interposed, TLC validates every recorded (request, argument bytes, "
   "returned value, IOTLB message).",
   "TLA+ catalogue of the UAPI cross-checked with the C header + TLC trace validation of interposed ioctls"),
 "C09": ("fault_enumeration", "2/C09",
   "Every connection of the TLC-enumerated hostile-input spaces (request server, frontend reply readers, backend-request channel, GPU "
   "proxy; descriptors on headers, bodies, beyond the limit, on messages that take none) ends in a teardown at which the process's open "
   "descriptor identities are compared with the snapshot taken before; TLC judges leak / foreign close / double delivery per trace. "
   "Daemon part: FdFate.tla (kick/call/error slots of the rings; descriptors of five kinds occupy, are replaced, dropped, refused, survive the "
   "connection) is model-checked and every transition replayed on a real daemon; after every letter each descriptor sent so far must be held "
   "by the daemon iff it occupies a slot, none after the daemon is dropped. The functional stimuli of the request server and whole "
   "frontend/server sessions are accounted for in the same way (descriptors the handler hands over for transmission included).",
   "TLC-enumerated fault space replayed on the code + TLC trace validation of descriptor accounting"),
 "C10": ("model_checking", "2/C10",
   "TxnAtomicity.tla is model-checked (all interleavings of 2-3 callers over lock, hold points and peer; safety, deadlock-freedom, "
   "termination under fairness); every schedule TLC finds is driven through the instrumented hold points of the real endpoints and the "
   "recorded event order is validated by TLC against the specification; uncontrolled stress traces are validated the same way. Every public "
   "operation of the three proxies (30 Frontend, 5 Backend, 12 GpuBackend) takes its turn; a caller dying inside its transaction (Crash action) and temporary receive conditions while "
   "waiting for an answer are part of the schedules.",
   "TLA+ model checking of all interleavings (TLC) + schedule replay over hold points + TLC trace validation"),
 "C05": ("exploration", "2/C05",
   "Grammar-aware hostile inputs are enumerated by TLC (MC_Hostile: per request code, header mutations, size classes, every single violated "
   "body rule, 0..40 descriptors, fresh/negotiated connection) and written by a raw peer to the real BackendReqHandler (overflow checks "
   "on); TLC evaluates the reference validity predicates of Validators.tla on every recorded handler call, the prescribed descriptor "
   "count, rejection of rule violations, and flags panics/hangs. Daemon part: DaemonHostile.tla enumerates well-typed control messages x adversarial "
   "value classes x set-up levels against a real VhostUserDaemon; panics, killed processes and unanswered requests are judged by TLC.",
   "TLC-enumerated input grammar + TLC trace validation against Validators.tla / BackendServer.tla"),
 "C20": ("exploration", "2/C20",
   "Validators.tla (reference predicates on 16-bit limbs) is evaluated by TLC on the full product of per-field boundary sets (188k points "
   "quick) and on seeded random points; the crate's is_valid() verdict for each point, built from raw bytes, must agree.",
   "TLA+ reference predicates evaluated by TLC over an exhaustive boundary lattice (differential testing against the implementation)"),
 "C01": ("exploration", "2/C01",
   "The byte-level oracle is WireFormat.tla (written from the protocol documents, not the Rust structs). Traces recorded by independent raw "
   "peers on all four channels (frontend requests, backend replies/acks, backend-initiated requests and acks, GPU requests/replies) are "
   "evaluated by TLC against it: header, payload bytes, descriptors (also under partial writes), and decode in the opposite direction.",
   "TLA+ transcription of the wire format evaluated by TLC on recorded byte traces (model-based differential testing)"),
 "C18": ("model_checking", "2/C18",
   "BackendReqChannel.tla is model-checked over all flag/request histories to the cfg depth, starting from every consistent flag setting "
   "and including flag calls that change nothing; every history is replayed through the real "
   "proxy and the real FrontendReqHandler (pair, proxy-vs-raw-peer, raw-peer-vs-server) and TLC validates handler invocation, arguments, "
   "file identity, proxy result and the acknowledgement value on the wire.",
   "TLA+ model checking (TLC) + model-based test generation + TLC trace validation"),
 "C02": ("model_checking", "2/C02",
   "TLC explores every (joint negotiation state, frontend call) transition of Session.tla (FrontendEndpoint || BackendServer); every "
   "transition is replayed on the real Frontend<->BackendReqHandler pair and the recorded trace is validated by TLC against the same "
   "specification (exactly one handler invocation with equal arguments/files; rejected calls put nothing on the wire); the real Frontend "
   "is also run against an independent peer that acknowledges by the protocol's rules (a call must not return before its acknowledgement).",
   "TLA+ model checking (TLC) + model-based test generation + TLC trace validation"),
 "C03": ("model_checking", "2/C03",
   "Same Session model; the scripted handler outcome (success values, failure, unusable shapes) is a model choice; TLC predicts ok/err/hang "
   "per transition and the trace specification judges the real pair's recorded results (values equal, failures are errors, no hang).",
   "TLA+ model checking (TLC) + model-based test generation + TLC trace validation"),
 "C04": ("model_checking", "2/C04",
   "BackendServer.tla is the reference protocol model; TLC enumerates every reachable negotiation state x every request letter "
   "(44 codes x NEED_REPLY x handler outcome), checks the in-step invariant on the model, and validates the byte stream the real "
   "BackendReqHandler wrote for each of those transitions against the model.",
   "TLA+ model checking (TLC) + model-based test generation + TLC trace validation"),
 "C06": ("exploration", "2/C06",
   "MC_Client (FrontendEndpoint.tla) enumerates every (negotiation state, reply/ack-awaiting call, reply mutation class) transition; the raw "
   "peer sends the mutated reply to the real Frontend and TLC judges the recorded result against the model (error, never success/panic).",
   "TLC-generated mutation stimuli + TLC trace validation against FrontendEndpoint.tla"),
 "C07": ("model_checking", "2/C07",
   "Gating invariants are model-checked on BackendServer.tla and FrontendEndpoint.tla over all reachable negotiation states; every "
   "(state, gated request/call) transition is replayed on the real BackendReqHandler (raw peer) and the real Frontend (raw peer counting "
   "bytes) and the traces are validated by TLC (no handler call / zero bytes on the wire before the feature was acknowledged).",
   "TLA+ model checking (TLC) + model-based test generation + TLC trace validation"),
 "C08": ("fault_enumeration", "2/C08",
   "Channel.tla (segments, EOF at any offset) is model-checked per message length; all 2-splits, 3-splits, byte-wise delivery and every "
   "cut offset of every served request are delivered as real separate segments to the real BackendReqHandler; TLC validates that the "
   "result equals the unsegmented one and that truncation is an error without dispatch. Sender clause: Sender.tla (send loop over a socket "
   "accepting any part of a write) is model-checked per message and every partial-write / refused-attempt script is forced on the real "
   "endpoints through an interposed sendmsg(); TLC validates bytes and the offset at which descriptors arrive.",
   "TLA+ model checking of the channel model + exhaustive split/cut enumeration replayed on the code + TLC trace validation"),
}
props = [json.loads(l) for l in open(os.path.join(ROOT, "properties.jsonl"))]
hooks = json.load(open(os.path.join(ROOT, "MANIFEST.json")))["hooks"]
na_reason = {}
try:
    na_reason = json.load(open(os.path.join(ROOT, "bin", "not_applicable.json")))
except Exception:
    pass
checks, na = [], []
for p in props:
    i = p["id"]
    if i in CLAIMS:
        lvl, ref, text, tech = CLAIMS[i]
        checks.append(dict(property_id=i, quick_cmd=f"./bin/check {i} quick", thorough_cmd=f"./bin/check {i} thorough",
                           evidence_file=f"evidence/{i}.json", replay_cmd_template=f"./bin/check {i} --replay {{path}}",
                           engine="tlc+vh", level_claimed=dict(category=lvl, text=text, design_ref="DESIGN.md section " + ref),
                           level_note=TRUST, technique=tech))
    else:
        na.append(dict(property_id=i, reason=na_reason.get(i, "check not built yet (work in progress; see DESIGN.md section 6)")))
m = dict(version=1, setup_cmd="./bin/setup", hooks=hooks,
         engines=[dict(name="tlc+vh", path="bin/check", serves_properties=sorted(CLAIMS),
                       kind_free_text="TLA+ specifications (spec/*.tla) model-checked by TLC; TLC-generated stimuli replayed on the real crates by the Rust harness (harness/); recorded traces validated by TLC (spec/tv/*.tla)")],
         checks=checks, notes="see DESIGN.md; known defects are listed in known_findings.json", not_applicable=na)
json.dump(m, open(os.path.join(ROOT, "MANIFEST.json"), "w"), indent=1)
print("claimed:", sorted(CLAIMS), "not_applicable:", [x["property_id"] for x in na])
