"""Driver library for /verif/bin/check: runs TLC (model checking / stimulus generation / trace
validation), the Rust harness, and writes evidence.  No verdict is decided here: violations are
exactly the signatures the TLA+ trace specifications report."""
import json, os, subprocess, sys, time, hashlib, shutil, re, concurrent.futures

ROOT = os.path.dirname(os.path.dirname(os.path.abspath(__file__)))
WORK = os.path.join(ROOT, "work")
HARNESS = os.path.join(ROOT, "harness")
VH = os.path.join(HARNESS, "target", "debug", "vh")


class ToolError(Exception):
    pass


def _die_with_parent():
    """children (TLC, harness shards) must not outlive a killed driver"""
    try:
        import ctypes, signal
        ctypes.CDLL("libc.so.6", use_errno=True).prctl(1, signal.SIGKILL)
    except Exception:
        pass


def log(*a):
    print(*a, file=sys.stderr, flush=True)


class Ctx:
    def __init__(self, prop, tier, seed):
        self.prop, self.tier, self.seed = prop, tier, seed
        self.t0 = time.time()
        self.dir = os.path.join(WORK, prop)
        shutil.rmtree(self.dir, ignore_errors=True)
        os.makedirs(self.dir, exist_ok=True)
        self.states = 0
        self.transitions = 0
        self.mc_runs = []
        self.traces = 0
        self.events = 0
        self.judged = 0
        self.viol = []          # list of dict(sig, id, engine, tv)
        self.samples = []
        self.notes = []
        self.distinct = set()
        self.evaluations = 0
        self.cases_by_engine = {}
        self.case_lookup = {}
        self.exhaustive = False

    # ------------------------------------------------------------------ build
    def build(self):
        env = dict(os.environ, CARGO_NET_OFFLINE="true")
        # bin/seedtest temporarily applies a seeded change to /repo under an exclusive lock; an unrelated check
        # started meanwhile waits here so that it is built from the tree it is meant to judge
        lock = None
        if not os.environ.get("VERIF_NOLOCK"):
            try:
                import fcntl
                os.makedirs("/verif/work", exist_ok=True)
                lock = open("/verif/work/.repo.lock", "w")
                fcntl.flock(lock, fcntl.LOCK_SH)
            except OSError:
                lock = None
        r = subprocess.run(["cargo", "build"], cwd=HARNESS, env=env, stdout=subprocess.PIPE,
                           stderr=subprocess.STDOUT, text=True)
        # a check run from /verif itself shares the harness binary with bin/seedtest (which rebuilds it from the seeded
        # tree): it keeps the shared lock until the process ends; a scratch copy has its own binary and releases it now
        if lock is not None:
            if ROOT == "/verif":
                self._repo_lock = lock
            else:
                lock.close()
        if r.returncode != 0:
            log(r.stdout[-4000:])
            raise ToolError("harness build failed (does /repo still compile with feature verif-hooks?)")

    # ------------------------------------------------------------------ TLC model checking
    def tlc_mc(self, name, cfg=None, workers=None, timeout=3600, extra=(), max_cases=None):
        """Run spec/mc/<name>.tla with <cfg>; returns list of CASE objects printed by the model
        (every k-th one if there are more than max_cases: the model is still explored completely)."""
        return self.tlc_mc_path(name, os.path.join(ROOT, "spec", "mc", (cfg or name) + ".cfg"), workers, timeout, extra, max_cases=max_cases)

    def tlc_mc_path(self, name, cfg, workers=None, timeout=3600, extra=(), quiet=False, max_cases=None):
        tla = os.path.join(ROOT, "spec", "mc", name + ".tla")
        workers = workers or (4 if self.tier == "quick" else 8)
        out = os.path.join(self.dir, f"mc_{os.path.basename(cfg)}.out")
        t = time.time()
        with open(out, "w") as f:
            r = subprocess.run([os.path.join(ROOT, "bin", "tlcrun"), str(workers), cfg, tla, "-coverage", "1", *extra],
                               stdout=f, stderr=subprocess.STDOUT, timeout=timeout, preexec_fn=_die_with_parent)
        cases, states, gen, ok = [], 0, 0, False
        self.hcases = []
        err = []
        stride, ncase = 1, 0
        if max_cases:
            total = sum(1 for line in open(out, errors="replace") if line.startswith('<<"CASE", '))
            stride = max(1, -(-total // max_cases))
        for line in open(out, errors="replace"):
            if line.startswith('<<"CASE", '):
                ncase += 1
                if (ncase - 1) % stride:
                    continue
                inner = line.strip()[len('<<"CASE", '):-2]
                cases.append(json.loads(json.loads(inner)))
            elif line.startswith('<<"HCASE", '):
                inner = line.strip()[len('<<"HCASE", '):-2]
                self.hcases.append(json.loads(json.loads(inner)))
            elif "Model checking completed. No error has been found." in line:
                ok = True
            elif m := re.match(r"(\d+) states generated, (\d+) distinct states found", line):
                gen, states = int(m.group(1)), int(m.group(2))
            elif line.startswith("Error:") or "is violated" in line:
                err.append(line.strip())
        if not ok:
            log(open(out, errors="replace").read()[-3000:])
            raise ToolError(f"TLC did not complete on {name}/{os.path.basename(cfg)}: {err[:3]}")
        self.states += states
        self.transitions += gen
        self.mc_runs.append(dict(model=name, cfg=os.path.basename(cfg), distinct_states=states,
                                 states_generated=gen, cases=len(cases), wall_s=round(time.time() - t, 1)))
        log(f"[mc] {name}/{os.path.basename(cfg)}: {states} distinct states, {gen} transitions, {len(cases)} stimuli")
        return cases

    # ------------------------------------------------------------------ harness
    def harness(self, engine, cases, tag="", extra=(), timeout=3600, shards=1, crash_is_data=True):
        """crash_is_data: the process under test being killed by a signal (SIGBUS, SIGSEGV, abort) is recorded as a
        `crash` event of the case that was running (the trace is written through event by event) and the shard goes on."""
        for i, c in enumerate(cases):
            c.setdefault("id", i)
        cf = os.path.join(self.dir, f"{engine}{tag}.cases.ndjson")
        tf = os.path.join(self.dir, f"{engine}{tag}.trace.ndjson")
        with open(cf, "w") as f:
            for c in cases:
                f.write(json.dumps(c, separators=(",", ":")) + "\n")
        t = time.time()
        shards = max(1, min(shards, len(cases)))
        # the daemon engine starts one daemon per case and the library never closes the exit-event consumer it registers
        # with a worker's epoll set (one descriptor per worker and daemon instance stays open for the life of the process):
        # a process is given a bounded number of cases
        per_proc = 2500 if engine == "daemon" else 10 ** 9
        nparts = max(shards, -(-len(cases) // per_proc))
        parts = []
        for k in range(nparts):
            pcf, ptf = f"{cf}.{k}", f"{tf}.{k}"
            with open(pcf, "w") as f:
                for c in cases[k::nparts]:
                    f.write(json.dumps(c, separators=(",", ":")) + "\n")
            parts.append((pcf, ptf))
        henv = dict(os.environ, VH_FLUSH="1") if crash_is_data else dict(os.environ)
        # one budget of hang verdicts for all processes of this run (see eng_bereq.rs): the marker file says "enough"
        budget = os.path.join(self.dir, f"{engine}{tag}.hangbudget")
        if os.path.exists(budget):
            os.remove(budget)
        henv = dict(henv, VH_BUDGET_FILE=budget)
        def spawn(pcf, ptf):
            return subprocess.Popen([VH, engine, "--cases", pcf, "--out", ptf, "--seed", str(self.seed), "--tier", self.tier, *extra],
                                    stdout=subprocess.PIPE, stderr=subprocess.PIPE, text=True, preexec_fn=_die_with_parent, env=henv)
        def run_part(part):
            pcf, ptf = part
            p = spawn(pcf, ptf)
            ncrash = 0
            while True:
                t_start = time.time()
                while True:
                    try:
                        so, se = p.communicate(timeout=10)
                        break
                    except subprocess.TimeoutExpired:
                        # a trace that grows without bound (an event recorded in an endless loop) must not fill the disk
                        if os.path.exists(ptf) and os.path.getsize(ptf) > 3 * 1024 ** 3:
                            p.kill()
                            raise ToolError(f"harness engine {engine}: the trace grows without bound ({ptf})")
                        if time.time() - t_start > timeout:
                            p.kill()
                            raise ToolError(f"harness engine {engine} timed out")
                if p.returncode == 77:
                    # the process under test was left with a thread blocked for good (recorded in the trace as data) and ended
                    # itself after that case: the remaining cases run in a fresh process
                    ncrash += 1
                    lines = open(ptf).read().splitlines()
                    ids = [json.loads(x)["id"] for x in lines if '"ev":"reset"' in x]
                    shard_cases = [json.loads(x) for x in open(pcf) if x.strip()]
                    done = next((i for i, c in enumerate(shard_cases) if ids and c["id"] == ids[-1]), len(shard_cases) - 1) + 1
                    with open(ptf + ".acc", "a") as acc:
                        acc.write("\n".join(lines) + "\n")
                    rest = shard_cases[done:]
                    if not rest or ncrash >= 12:
                        # (a dozen deadlocks in one shard are evidence enough; each costs seconds to establish)
                        open(ptf, "w").close()
                        break
                    with open(pcf, "w") as f:
                        for c in rest:
                            f.write(json.dumps(c, separators=(",", ":")) + "\n")
                    p = spawn(pcf, ptf)
                    continue
                if p.returncode in (-1, -2, -9, -15):
                    # HUP / INT / KILL / TERM come from outside (an operator, the out-of-memory killer), never from the code
                    # under test: not an observation about it
                    raise ToolError(f"harness engine {engine} was killed from outside (signal {-p.returncode})")
                if p.returncode < 0 and crash_is_data and ncrash < 200:
                    # killed by a signal: attribute it to the case whose `reset` was written last, continue after it
                    ncrash += 1
                    lines = open(ptf).read().splitlines()
                    while lines and not lines[-1].endswith("}"):
                        lines.pop()            # a line cut off by the kill
                    ids = [json.loads(x)["id"] for x in lines if '"ev":"reset"' in x]
                    shard_cases = [json.loads(x) for x in open(pcf) if x.strip()]
                    done = 0
                    if ids:
                        done = next((i for i, c in enumerate(shard_cases) if c["id"] == ids[-1]), len(shard_cases) - 1) + 1
                    lines.append(json.dumps(dict(ev="crash", signal=-p.returncode, id=(ids[-1] if ids else -1)), separators=(",", ":")))
                    with open(ptf + ".acc", "a") as acc:
                        acc.write("\n".join(lines) + "\n")
                    rest = shard_cases[done:]
                    if not rest or not ids:
                        open(ptf, "w").close()
                        break
                    with open(pcf, "w") as f:
                        for c in rest:
                            f.write(json.dumps(c, separators=(",", ":")) + "\n")
                    p = spawn(pcf, ptf)
                    continue
                if p.returncode != 0:
                    log(se[-3000:])
                    raise ToolError(f"harness engine {engine} exited {p.returncode}")
                break
            if os.path.exists(ptf + ".acc"):
                with open(ptf + ".acc", "a") as acc:
                    acc.write(open(ptf).read())
                os.replace(ptf + ".acc", ptf)
            return se.strip().splitlines()[-1] if se.strip() else ""
        with concurrent.futures.ThreadPoolExecutor(max_workers=shards) as ex:
            lasts = list(ex.map(run_part, parts))
        last = lasts[-1] if lasts else ""
        with open(tf, "w") as out:
            for pcf, ptf in parts:
                with open(ptf) as f:
                    shutil.copyfileobj(f, out)
                os.remove(ptf)
                os.remove(pcf)
        log(f"[vh] {engine}{tag}: {len(cases)} cases in {time.time()-t:.1f}s ({nparts} process(es), {shards} at a time): {last}")
        self.cases_by_engine[engine + tag] = (cf, cases)
        return tf

    # ------------------------------------------------------------------ TLC trace validation
    def _tv_one(self, tvname, chunk):
        tla = os.path.join(ROOT, "spec", "tv", tvname + ".tla")
        cfg = os.path.join(ROOT, "spec", "tv", tvname + ".cfg")
        env = dict(os.environ, TRACE=chunk, TLC_XMX="-Xmx3g",
                   TLC_JAVA_OPTS="-Dtlc2.tool.queue.IStateQueue=StateDeque")
        out = chunk + ".tvout"
        with open(out, "w") as f:
            subprocess.run([os.path.join(ROOT, "bin", "tlcrun"), "1", cfg, tla], stdout=f,
                           stderr=subprocess.STDOUT, env=env, timeout=2400, preexec_fn=_die_with_parent)
        res, vio = None, None
        nrep = 0
        for line in open(out, errors="replace"):
            if line.startswith('<<"TVVIOL", '):
                nrep += 1
            if line.startswith('<<"TVRESULT", '):
                res = json.loads(json.loads(line.strip()[len('<<"TVRESULT", '):-2]))
            elif line.startswith('<<"TVVIOL", '):
                vio = json.loads(json.loads(line.strip()[len('<<"TVVIOL", '):-2]))
        if nrep > 50:
            raise ToolError(f"trace specification {tvname} branches on {chunk} ({nrep} final states): it must be a deterministic monitor")
        if res is None or vio is None or res["events"] != res["consumed"]:
            log(open(out, errors="replace").read()[-3000:])
            raise ToolError(f"trace validation {tvname} did not consume the trace {chunk}: {res}")
        return res, vio

    def tlc_tv(self, tvname, trace, engine, chunk_events=15000, par=10, reset_ev="reset"):
        """Validate a recorded trace; returns list of violations (dict sig,id)."""
        chunks, cur, n = [], [], 0
        nres = 0
        with open(trace) as f:
            for line in f:
                is_reset = f'"ev":"{reset_ev}"' in line
                if is_reset:
                    nres += 1
                if is_reset and len(cur) >= chunk_events:
                    chunks.append(cur)
                    cur = []
                cur.append(line)
                n += 1
        if cur:
            chunks.append(cur)
        paths = []
        for i, c in enumerate(chunks):
            p = f"{trace}.{i}"
            with open(p, "w") as f:
                f.writelines(c)
            paths.append(p)
        t = time.time()
        with concurrent.futures.ThreadPoolExecutor(max_workers=par) as ex:
            results = list(ex.map(lambda p: self._tv_one(tvname, p), paths))
        viol = []
        judged = 0
        for res, vio in results:
            judged += vio.get("judged", 0)
            for v in vio["viol"]:
                viol.append(dict(sig=v["sig"], id=v["id"], engine=engine, tv=tvname))
        self.traces += nres
        self.events += n
        self.judged += judged
        log(f"[tv] {tvname}: {n} events / {nres} traces validated in {time.time()-t:.1f}s, {judged} judged, {len(viol)} deviation signatures")
        for v in viol:
            log(f"      deviation: {v['sig']} (case {v['id']})")
        for p in paths:
            try:
                os.remove(p)
            except OSError:
                pass
        return viol

    # ------------------------------------------------------------------ verdict + evidence
    def finish(self, level, rule, assumptions, viol, extra_cov=None):
        prop = self.prop
        # a process killed by a signal is reported by the trace specifications under the property that was being checked
        for v in viol:
            if v["sig"].startswith("ANY/"):
                v["sig"] = prop + v["sig"][3:]
        mine = [v for v in viol if v["sig"].startswith(prop + "/")]
        known = json.load(open(os.path.join(ROOT, "known_findings.json")))
        open_sigs = {k["signature"]: k for k in known["findings"] if k["property"] == prop and k["status"] == "open"}
        seen, new = {}, []
        for v in mine:
            if v["sig"] in open_sigs:
                seen.setdefault(v["sig"], v)
            else:
                new.append(v)
        for sig, v in sorted(seen.items()):
            print(f"KNOWN-FINDING: property={prop} {sig} -- {open_sigs[sig]['what']}")
        rc = 0
        newsigs = {}
        for v in new:
            newsigs.setdefault(v["sig"], v)
        os.makedirs(os.path.join(ROOT, "evidence", "replay"), exist_ok=True)
        for sig, v in sorted(newsigs.items()):
            rp = os.path.join(ROOT, "evidence", "replay", f"{prop}-{hashlib.sha1(sig.encode()).hexdigest()[:10]}.json")
            case = None
            cf = self.cases_by_engine.get(v["engine"])
            if v["engine"] in self.case_lookup:
                case = self.case_lookup[v["engine"]](v["id"])
            elif cf:
                for c in cf[1]:
                    if c.get("id") == v["id"]:
                        case = c
                        break
            json.dump(dict(property=prop, signature=sig, engine=v["engine"], tv=v["tv"], seed=self.seed, tier=self.tier,
                           cases=[case] if case is not None else []), open(rp, "w"), indent=1)
            print(f"VIOLATION property={prop} replay={rp}")
            print(f"  signature: {sig}")
            rc = 1
        cov = dict(states=self.states, transitions=self.transitions,
                   traces_validated_against_impl=self.traces,
                   evaluations=max(self.evaluations, self.judged),
                   distinct_nontrivial=len(self.distinct),
                   rule=rule, samples=self.samples[:6], exhaustive=self.exhaustive,
                   trace_events=self.events, model_runs=self.mc_runs,
                   known_findings_reproduced=sorted(seen.keys()),
                   new_violation_signatures=sorted(newsigs.keys()), notes=self.notes)
        if extra_cov:
            cov.update(extra_cov)
        ev = dict(property_id=prop, tier=self.tier, seed=self.seed, level=level, coverage=cov,
                  assumptions=assumptions, wall_s=round(time.time() - self.t0, 1), violations=len(newsigs))
        # checks of behaviour beyond the listed properties (ids X..) keep their evidence apart
        edir = os.path.join(ROOT, "evidence", "extra") if prop.startswith("X") else os.path.join(ROOT, "evidence")
        os.makedirs(edir, exist_ok=True)
        json.dump(ev, open(os.path.join(edir, prop + ".json"), "w"), indent=1)
        log(f"[{prop}] {self.tier}: {len(newsigs)} new violation signature(s), {len(seen)} known finding(s), {ev['wall_s']}s")
        return rc

    def count_distinct(self, trace, keyf, nontrivial):
        """Count distinct abstract cases in a trace (evidence only, not a verdict)."""
        with open(trace) as f:
            for line in f:
                e = json.loads(line)
                if e.get("ev") in ("reset", "teardown", "flags", "flag", "crash", "begin"):
                    continue
                self.evaluations += 1
                if nontrivial(e):
                    self.distinct.add(keyf(e))

    def sample(self, trace, n=2, skip=0):
        with open(trace) as f:
            lines = f.readlines()
        step = max(1, len(lines) // (n + 1))
        for i in range(n):
            j = min(len(lines) - 1, skip + i * step)
            try:
                s = json.loads(lines[j])
                txt = json.dumps(s)
                if len(txt) > 1500:
                    s = dict(truncated=txt[:1500])
                self.samples.append(s)
            except Exception:
                pass
