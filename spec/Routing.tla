------------------------------- MODULE Routing -------------------------------
(***************************************************************************)
(* Kick routing of the daemon (C17): queues-per-thread masks -> owner      *)
(* thread, event id (rank of the queue inside the owner's mask) and ring   *)
(* slice; reserved ids; custom listener ids.                               *)
(* Masks are given as sets of bit numbers.                                 *)
(***************************************************************************)
EXTENDS Integers, Sequences, FiniteSets

\* first thread (1-based position in masks) whose mask contains q; 0 if none
Owner(masks, q) == IF \E t \in 1..Len(masks) : q \in masks[t]
                   THEN CHOOSE t \in 1..Len(masks) : q \in masks[t] /\ \A u \in 1..(t - 1) : q \notin masks[u]
                   ELSE 0
\* event id = number of lower-numbered queues (below nq) in the owner's mask
Rank(mask, q) == Cardinality({p \in mask : p < q})
\* queues a thread is given, in ascending order, restricted to existing queues
SliceOf(mask, nq) == {q \in mask : q < nq}
\* the queue behind event id e of a thread with that mask; -1 if none
QueueOf(mask, nq, e) == IF \E q \in SliceOf(mask, nq) : Rank(mask, q) = e
                        THEN CHOOSE q \in SliceOf(mask, nq) : Rank(mask, q) = e ELSE -1
ExitId(nq) == nq
ListenerIdAccepted(nq, id) == id > nq      \* id as a natural number (small ids) -- large ids are always > nq
=============================================================================
