--------------------------- MODULE EndpointFailure ---------------------------
(***************************************************************************)
(* The sticky failure state of the endpoints (beyond the listed            *)
(* properties: it is what set_failed() documents).                         *)
(*                                                                         *)
(*   proxy  Backend          set_failed(e): every later request fails with *)
(*   gpu    GpuBackend         SocketBroken(errno e); nothing is written   *)
(*   srv    BackendReqHandler   set_failed(e): handle_request() fails with *)
(*   fsrv   FrontendReqHandler    that error at once; the pending request  *)
(*                                is neither read nor dispatched.          *)
(*                                fsrv only: set_failed(0) clears it.      *)
(* The Frontend has the state but no way to enter it.                      *)
(***************************************************************************)
EXTENDS Naturals, Sequences

Endpoints == {"proxy", "gpu", "srv", "fsrv"}
Errnos == {0, 5, 11, 104}
Healthy == 1000                      \* "no error recorded" (errno values are small)

\* state after set_failed(e) on endpoint ep
AfterSetFailed(ep, e) == IF ep = "fsrv" /\ e = 0 THEN Healthy ELSE e

\* What one operation does in state f (the recorded errno or Healthy):
\*   proxy/gpu  a request:        wire = the request is written;  err = errno reported (Healthy: none)
\*   srv/fsrv   handle_request(): consumed/dispatched = the pending request is read / handed to the handler
OpExpect(ep, f) ==
    IF f = Healthy THEN [ok |-> TRUE, errno |-> Healthy, wire |-> TRUE, dispatched |-> TRUE]
    ELSE [ok |-> FALSE, errno |-> f, wire |-> FALSE, dispatched |-> FALSE]
=============================================================================
