----------------------------- MODULE VringConc -----------------------------
(***************************************************************************)
(* One ring of a vhost-user daemon under concurrency (C12): the worker     *)
(* thread (epoll loop), the daemon thread processing control messages as   *)
(* their real step sequences, and a guest raising kicks, interleaved at    *)
(* the instrumented hold points.                                           *)
(*                                                                         *)
(* Worker:  wait (in epoll_wait) -> woken (w.after_wait) -> read           *)
(*          (w.after_read: kick consumed, `enabled` sampled) ->            *)
(*          predispatch (w.before_dispatch) -> indispatch (inside the      *)
(*          backend's handle_event: w.in_dispatch) -> wait                 *)
(* Control: idle -> [message] -> (setkick (c.after_setkick: a starting        *)
(*          message has installed its descriptor) ->) state (c.after_state: *)
(*          flag changed) ->                                                *)
(*          ctl (c.after_ctl: epoll add/del done) -> [drop kick] -> reply  *)
(*          (d.after_request) -> idle                                      *)
(* Level-triggered epoll over an eventfd counter: the worker is woken when *)
(* the ring's kick descriptor is registered and its counter is non-zero.   *)
(***************************************************************************)
EXTENDS Integers, Sequences, FiniteSets, TLC

CONSTANTS Script,       \* sequence of control messages the frontend sends, in order
          MaxKicks      \* how many kicks the guest may raise

\* "start": SET_VRING_KICK with a fresh descriptor; "restart": SET_VRING_KICK with the very eventfd the ring had before it
\* was stopped (what QEMU does) -- the guest's kicks then land on the same counter whether or not the ring has it installed
Ops == {"disable", "enable", "stop", "start", "restart", "reset", "features"}
SameFd == \E i \in 1..Len(Script) : Script[i] = "restart"

VARIABLES ready, enabled, haskick, reg, counter,    \* ring / epoll / eventfd
          wpc, wEnabled,                             \* worker
          cpc, cop, next,                            \* control thread, index of next scripted message
          kicks,                                     \* kicks raised so far
          quiet, owed, p1, p2, died, spins,          \* monitors; spins bounds the worker's busy loop
          sched,                                     \* schedule (history of controller commands)
          wfree                                      \* per command: the worker is asleep and cannot be woken in the state it leaves

vars == <<ready, enabled, haskick, reg, counter, wpc, wEnabled, cpc, cop, next, kicks, quiet, owed, p1, p2, died, spins, sched, wfree>>

Init == /\ ready = TRUE /\ enabled = TRUE /\ haskick = TRUE /\ reg = TRUE /\ counter = 0
        /\ wpc = "wait" /\ wEnabled = FALSE
        /\ cpc = "idle" /\ cop = "" /\ next = 1
        /\ kicks = 0 /\ quiet = FALSE /\ owed = FALSE /\ p1 = FALSE /\ p2 = FALSE /\ died = FALSE /\ spins = 0
        /\ sched = <<>> /\ wfree = <<>>

Cmd(c) == sched' = Append(sched, c)
Active == ready /\ enabled

\* ---- guest -------------------------------------------------------------------------------
Kick == /\ kicks < MaxKicks /\ (haskick \/ SameFd)
        /\ kicks' = kicks + 1 /\ counter' = counter + 1 /\ owed' = TRUE
        /\ Cmd("k")
        /\ UNCHANGED <<ready, enabled, haskick, reg, wpc, wEnabled, cpc, cop, next, quiet, p1, p2, died, spins>>

\* ---- worker ------------------------------------------------------------------------------
\* epoll_wait returns (no controller command: it happens by itself once the condition holds)
\* While the ring is disabled (or stopped) but its descriptor still registered the worker spins (wake, skip, wait
\* again) until the daemon thread removes the registration: the model lets it spin once.
Wake == /\ wpc = "wait" /\ reg /\ counter > 0 /\ ((enabled /\ ready) \/ spins < 1)
        /\ wpc' = "woken"
        /\ spins' = IF enabled /\ ready THEN spins ELSE spins + 1
        /\ UNCHANGED <<ready, enabled, haskick, reg, counter, wEnabled, cpc, cop, next, kicks, quiet, owed, p1, p2, died, sched>>

\* read_kick: a disabled ring is not processed and its notification stays pending; otherwise the
\* counter of the current kick descriptor (if any) is consumed.  Reading an empty non-blocking
\* eventfd (stale wake-up) is a spurious wake-up: nothing to process.
\* (Before the repair of 96d0b5d the kick was consumed also when disabled -- a lost kick -- and the
\*  empty read terminated the worker; TLC showed both on this model, the replay on the code too.)
\* (A ring that is not started does not have its notification consumed either -- repair of the defect this model showed with
\*  the stop/restart scenario and two kicks: a worker woken before GET_VRING_BASE read the counter of the re-installed descriptor
\*  between set_kick and set_queue_ready, found the queue not ready and dropped what it had consumed.)
WRead == /\ wpc = "woken"
         /\ IF ~enabled \/ ~ready
            THEN wEnabled' = FALSE /\ UNCHANGED counter
            ELSE IF haskick /\ counter = 0
                 THEN wEnabled' = FALSE /\ UNCHANGED counter
                 ELSE /\ counter' = IF haskick THEN 0 ELSE counter
                      /\ wEnabled' = TRUE
         /\ wpc' = "read" /\ UNCHANGED <<died, spins>>
         /\ Cmd("w")
         /\ UNCHANGED <<ready, enabled, haskick, reg, cpc, cop, next, kicks, quiet, owed, p1, p2>>

WCheck == /\ wpc = "read"
          \* not processed if seen disabled, or stopped in the meantime (queue no longer ready)
          /\ wpc' = IF wEnabled /\ ready THEN "predispatch" ELSE "wait"
          /\ Cmd("w")
          /\ UNCHANGED <<ready, enabled, haskick, reg, counter, wEnabled, cpc, cop, next, kicks, quiet, owed, p1, p2, died, spins>>

\* the backend's handler is entered (the dispatch is recorded here); it returns in a separate step, so that kicks and control
\* messages can fall into the time the handler runs
WDispatch == /\ wpc = "predispatch"
             /\ wpc' = "indispatch"
             /\ p1' = (p1 \/ quiet)                      \* P1: handler entered after a disabling reply
             /\ owed' = IF ~quiet THEN FALSE ELSE owed   \* a dispatch before any disabling reply serves the kicks raised so far
             /\ Cmd("w")
             /\ UNCHANGED <<ready, enabled, haskick, reg, counter, wEnabled, cpc, cop, next, kicks, quiet, p2, died, spins>>

WLeave == /\ wpc = "indispatch"
          /\ wpc' = "wait"
          /\ Cmd("w")
          /\ UNCHANGED <<ready, enabled, haskick, reg, counter, wEnabled, cpc, cop, next, kicks, quiet, owed, p1, p2, died, spins>>

\* ---- control thread ------------------------------------------------------------------------
\* the frontend sends the next scripted message; the daemon thread runs up to the first hold point
Send == /\ cpc = "idle" /\ next <= Len(Script)
        /\ LET op == Script[next] IN
           /\ cop' = op /\ next' = next + 1
           /\ quiet' = IF op \in {"enable", "start", "restart"} THEN FALSE ELSE quiet
           /\ CASE op = "disable" -> enabled' = FALSE /\ UNCHANGED <<ready, haskick>>
                [] op = "enable" -> enabled' = TRUE /\ UNCHANGED <<ready, haskick>>
                [] op = "reset" -> enabled' = FALSE /\ UNCHANGED <<ready, haskick>>
                [] op = "features" -> UNCHANGED <<ready, enabled, haskick>>   \* SET_FEATURES with PROTOCOL_FEATURES: ring states untouched
                [] op = "stop" -> ready' = FALSE /\ UNCHANGED <<enabled, haskick>>
                \* a starting message first installs the descriptor (set_kick), then marks the queue ready (CReady)
                [] op \in {"start", "restart"} -> haskick' = TRUE /\ UNCHANGED <<ready, enabled>>
           /\ cpc' = IF op = "features" THEN "idle"                   \* no per-ring step: replied at once
                     ELSE IF op \in {"start", "restart"} THEN "setkick" ELSE "state"
           /\ Cmd("m:" \o op)
        /\ UNCHANGED <<reg, counter, wpc, wEnabled, kicks, owed, p1, p2, died, spins>>

\* initialize_vring: the queue becomes ready (between c.after_setkick and c.after_state)
CReady == /\ cpc = "setkick"
          /\ ready' = TRUE /\ cpc' = "state"
          /\ Cmd("c")
          /\ UNCHANGED <<enabled, haskick, reg, counter, wpc, wEnabled, cop, next, kicks, quiet, owed, p1, p2, died, spins>>

\* update_vring_registration: epoll add / delete according to the ring state
CCtl == /\ cpc = "state"
        /\ reg' = (haskick /\ ready /\ enabled)
        /\ cpc' = IF cop = "stop" THEN "ctl_stop" ELSE "ctl"
        /\ Cmd("c")
        /\ UNCHANGED <<ready, enabled, haskick, counter, wpc, wEnabled, cop, next, kicks, quiet, owed, p1, p2, died, spins>>

\* GET_VRING_BASE drops the kick descriptor (a kick pending on it is no longer owed a dispatch)
CDropKick == /\ cpc = "ctl_stop"
             \* (the counter belongs to the descriptor: a fresh one starts at zero, the frontend's own eventfd keeps its count)
             /\ haskick' = FALSE /\ owed' = FALSE /\ counter' = IF SameFd THEN counter ELSE 0
             /\ cpc' = "ctl"
             /\ Cmd("c")
             /\ UNCHANGED <<ready, enabled, reg, wpc, wEnabled, cop, next, kicks, quiet, p1, p2, died, spins>>

CReply == /\ cpc = "ctl"
          /\ quiet' = IF cop \in {"disable", "stop", "reset"} THEN TRUE ELSE quiet
          /\ cpc' = "idle"
          /\ Cmd("c")
          /\ UNCHANGED <<ready, enabled, haskick, reg, counter, wpc, wEnabled, cop, next, kicks, owed, p1, p2, died, spins>>

\* After a command the model's worker may be asleep with nothing that could wake it.  A real worker that shows up at a hold point
\* in such a state was woken by something the design does not account for (e.g. an epoll registration that outlived its
\* descriptor): the replay then lets it run on instead of parking it until the schedule's next worker command, so that what it
\* does with the wake-up (consume a kick without processing it ...) becomes part of the recorded behaviour.
WIdle == wpc = "wait" /\ ~(reg /\ counter > 0 /\ ((enabled /\ ready) \/ spins < 1))
Steps == Kick \/ Wake \/ WRead \/ WCheck \/ WDispatch \/ WLeave \/ Send \/ CReady \/ CCtl \/ CDropKick \/ CReply
Next == Steps /\ wfree' = IF sched' # sched THEN Append(wfree, WIdle') ELSE wfree
Spec == Init /\ [][Next]_vars

\* quiescence: script finished, nothing can move any more
Done == /\ next > Len(Script) /\ cpc = "idle" /\ wpc \in {"wait", "dead"} /\ ~(wpc = "wait" /\ reg /\ counter > 0 /\ enabled) /\ kicks = MaxKicks
\* P2 at quiescence: an active ring has no kick that was raised but never served
LostKick == Done /\ Active /\ haskick /\ owed /\ ~p1      \* (a kick served late, after the reply, is the P1 violation, not a lost kick)
=============================================================================
