------------------------------ MODULE RoutingAp ------------------------------
(***************************************************************************)
(* The model-level properties of Routing.tla (C17) for ALL configurations  *)
(* of up to MaxQ queues and MaxT worker masks over bits 0..MaxQ, checked   *)
(* symbolically by Apalache in one query (TLC enumerates them only up to   *)
(* 4 queues x 3 masks): no unfolding over time is needed, the properties   *)
(* are about the initial (arbitrary) configuration.                        *)
(*   apalache-mc check --inv=Inv --length=0 RoutingAp.tla                  *)
(* (bin/check C17 substitutes MaxQ / MaxT per tier: 8 x 3 quick, 12 x 4    *)
(* thorough.)                                                              *)
(***************************************************************************)
EXTENDS RoutingOpsAp

MaxQ == 12
MaxT == 4

VARIABLES
    \* @type: Int;
    nq,
    \* @type: Int -> Set(Int);
    masks

Init == /\ nq \in 1..MaxQ
        /\ masks \in [1..MaxT -> SUBSET (0..MaxQ)]
Next == UNCHANGED <<nq, masks>>

OwnerUnique == \A q \in 0..MaxQ : q < nq =>
                 LET o == ApOwner(masks, MaxT, q) IN
                 (o # 0 => (q \in masks[o] /\ \A u \in 1..MaxT : u < o => q \notin masks[u]))
RankIsIndexInSlice == \A t \in 1..MaxT : \A q \in ApSliceOf(masks[t], nq) :
                        /\ ApRank(masks[t], q) < Cardinality(ApSliceOf(masks[t], nq))
                        /\ ApQueueOf(masks[t], nq, ApRank(masks[t], q)) = q
NoExitCollision == \A t \in 1..MaxT : \A q \in ApSliceOf(masks[t], nq) : ApRank(masks[t], q) < nq
\* two different queues of one thread never share an event id
RankInjective == \A t \in 1..MaxT : \A q1, q2 \in ApSliceOf(masks[t], nq) : q1 # q2 => ApRank(masks[t], q1) # ApRank(masks[t], q2)
Inv == OwnerUnique /\ RankIsIndexInSlice /\ NoExitCollision /\ RankInjective
=============================================================================
