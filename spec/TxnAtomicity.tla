---------------------------- MODULE TxnAtomicity ----------------------------
(***************************************************************************)
(* Clones of one endpoint (Frontend, Backend proxy, GpuBackend) used from  *)
(* several threads.  Each call is: take the endpoint lock, write the       *)
(* request, (for reply- or ack-bearing calls) read the answer, release.    *)
(* The peer serves requests in the order they appear on the socket and     *)
(* tags every answer with the identity of the request it answers.          *)
(* Property C10: request/answer pairs are indivisible on the socket, every *)
(* caller gets its own answer, all calls complete.                         *)
(*                                                                         *)
(* The steps of a thread are exactly the instrumented hold points:         *)
(*   Start -> (lock) -> Sent [hold "*.sent"] -> BeforeRecv [hold           *)
(*   "*.before_recv"] -> Done                                              *)
(***************************************************************************)
EXTENDS Integers, Sequences, FiniteSets, TLC

CONSTANTS MayCrash,     \* may a caller die (panic) while it is stopped at one of its hold points?  A caller that dies between
                        \* writing its request and reading the answer leaves that transaction open for good: the endpoint
                        \* lock is never released (in the code: the poisoned mutex keeps every other clone out)
          Threads,      \* e.g. 1..2
          Kind          \* function Threads -> {"reply", "ack", "ff", "cfg0", "cfg1"}
                        \* cfg0 / cfg1: a thread that switches the endpoint's reply-ack setting off / on (it takes the
                        \* endpoint lock like a call, writes nothing).  When such a thread exists, whether an "ack"/"ff"
                        \* call awaits an acknowledgement is decided by the setting at the moment its request is written.

VARIABLES pc,           \* thread -> "idle" | "waitlock" | "sent" | "recv" | "done"
          lock,         \* 0 or the holder
          toPeer,       \* requests on the socket not yet read by the peer (sequence of threads)
          toCaller,     \* answers on the socket not yet read (sequence of thread tags)
          got,          \* thread -> tag of the answer it consumed (0 = none)
          sched,        \* history of controller commands (the schedule), hidden from the state
          ra,           \* the endpoint's reply-ack setting
          eff           \* thread -> its request awaits an answer (fixed when the request is written)

vars == <<pc, lock, toPeer, toCaller, got, sched, ra, eff>>
IsCfg(t) == Kind[t] \in {"cfg0", "cfg1"}
Dyn == \E t \in Threads : IsCfg(t)
Awaits(t) == eff[t]

Init == /\ pc = [t \in Threads |-> "idle"] /\ lock = 0 /\ toPeer = <<>> /\ toCaller = <<>>
        /\ got = [t \in Threads |-> 0] /\ sched = <<>>
        /\ ra = (\E t \in Threads : Kind[t] = "ack")
        /\ eff = [t \in Threads |-> Kind[t] \in {"reply", "ack"}]

\* the controller starts thread t: it runs up to the lock
Start(t) == /\ pc[t] = "idle"
            /\ pc' = [pc EXCEPT ![t] = "waitlock"]
            /\ sched' = Append(sched, <<"start", t>>)
            /\ UNCHANGED <<lock, toPeer, toCaller, got, ra, eff>>

\* t takes the lock and writes its request, stopping at hold point "*.sent"
Send(t) == /\ pc[t] = "waitlock" /\ lock = 0 /\ ~IsCfg(t)
           /\ lock' = t
           /\ toPeer' = Append(toPeer, t)
           /\ pc' = [pc EXCEPT ![t] = "sent"]
           /\ eff' = [eff EXCEPT ![t] = IF Dyn /\ Kind[t] \in {"ack", "ff"} THEN ra ELSE eff[t]]
           /\ UNCHANGED <<toCaller, got, sched, ra>>

\* a setting change: needs the endpoint lock, hence cannot fall between a request and the consumption of its answer
Cfg(t) == /\ pc[t] = "waitlock" /\ lock = 0 /\ IsCfg(t)
          /\ ra' = (Kind[t] = "cfg1")
          /\ pc' = [pc EXCEPT ![t] = "done"]
          /\ UNCHANGED <<lock, toPeer, toCaller, got, sched, eff>>

\* the controller releases t from "*.sent"; a fire-and-forget call returns (and unlocks),
\* the others stop at "*.before_recv"
ReleaseSent(t) == /\ pc[t] = "sent"
                  /\ IF Awaits(t) THEN pc' = [pc EXCEPT ![t] = "recv"] /\ UNCHANGED lock
                                  ELSE pc' = [pc EXCEPT ![t] = "done"] /\ lock' = 0
                  /\ sched' = Append(sched, <<"release", t>>)
                  /\ UNCHANGED <<toPeer, toCaller, got, ra, eff>>

\* the peer reads the next request and answers it if it is reply/ack-bearing
Peer == /\ toPeer # <<>>
        /\ toPeer' = Tail(toPeer)
        /\ toCaller' = IF Awaits(Head(toPeer)) THEN Append(toCaller, Head(toPeer)) ELSE toCaller
        /\ UNCHANGED <<pc, lock, got, sched, ra, eff>>

\* the controller releases t from "*.before_recv": it reads one answer and returns
ReleaseRecv(t) == /\ pc[t] = "recv" /\ toCaller # <<>>
                  /\ got' = [got EXCEPT ![t] = Head(toCaller)]
                  /\ toCaller' = Tail(toCaller)
                  /\ pc' = [pc EXCEPT ![t] = "done"]
                  /\ lock' = 0
                  /\ sched' = Append(sched, <<"release", t>>)
                  /\ UNCHANGED <<toPeer, ra, eff>>

\* the caller dies at its hold point (at most one per behaviour); it keeps the lock it holds
Crash(t) == /\ MayCrash /\ pc[t] \in {"sent", "recv"} /\ \A u \in Threads : pc[u] # "dead"
            /\ pc' = [pc EXCEPT ![t] = "dead"]
            /\ sched' = Append(sched, <<"crash", t>>)
            /\ UNCHANGED <<lock, toPeer, toCaller, got, ra, eff>>

Next == \E t \in Threads : Start(t) \/ Send(t) \/ Cfg(t) \/ ReleaseSent(t) \/ ReleaseRecv(t) \/ Crash(t)
        \/ Peer
Spec == Init /\ [][Next]_vars /\ WF_vars(Next)

AllDone == \A t \in Threads : pc[t] = "done"
\* everything that can still happen has happened: every caller returned, died, or waits for the lock a dead caller holds
Settled == \A t \in Threads : \/ pc[t] \in {"done", "dead"}
                               \/ (pc[t] = "waitlock" /\ lock # 0 /\ pc[lock] = "dead")

\* --- C10 ---------------------------------------------------------------------------------
\* no second request is written between a request and the consumption of its answer
Indivisible == \A t \in Threads : (pc[t] \in {"sent", "recv", "dead"} /\ Awaits(t)) =>
                    \A u \in Threads \ {t} : pc[u] \notin {"sent", "recv"}
OwnAnswer == \A t \in Threads : got[t] \in {0, t}
\* every answer that was asked for is consumed by the call that asked for it, and by nobody else
ConsumesItsAnswer == \A t \in Threads : (pc[t] = "done" /\ ~IsCfg(t)) => (eff[t] <=> got[t] = t)
\* no self-deadlock: the only states without successor are those where every call completed
NoDeadlock == (\A t \in Threads : ~ENABLED Start(t) /\ ~ENABLED Send(t) /\ ~ENABLED Cfg(t) /\ ~ENABLED ReleaseSent(t) /\ ~ENABLED ReleaseRecv(t)) /\ ~ENABLED Peer
                 => Settled
Termination == <>Settled
=============================================================================
