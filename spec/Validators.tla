----------------------------- MODULE Validators -----------------------------
(***************************************************************************)
(* Reference validity predicates of the vhost-user message types, written  *)
(* from the protocol rules (statement of C20), independent of the Rust     *)
(* validators.  A message is a record of limb-encoded fields.              *)
(* Verdict: "yes" | "no" | "any" ("any" = the rules leave it open: a range *)
(* that ends exactly at 2^64).                                             *)
(***************************************************************************)
EXTENDS Limbs, FiniteSets

Yes == "yes"
No == "no"
Both(a, b) == IF a = No \/ b = No THEN No ELSE IF a = "any" \/ b = "any" THEN "any" ELSE Yes
Bool(p) == IF p THEN Yes ELSE No

\* a range [start, start+len) within the 64-bit space
RangeOK(start, len) == IF SumIsExactlyTop(start, len) THEN "any" ELSE Bool(~AddOverflows(start, len))

U32Max4096(x) == x[2] = 0 /\ x[1] <= 4096       \* x (two limbs) <= 4096

HdrFe(m) ==   \* m.code, m.flags, m.size : 2 limbs each
    Bool(/\ m.code[2] = 0 /\ m.code[1] \in 1..44
         /\ U32Max4096(m.size)
         /\ m.flags[1] % 4 = 1
         /\ OnlyBits(m.flags, {0, 1, 2, 3}))
HdrBe(m) ==
    Bool(/\ m.code[2] = 0 /\ m.code[1] \in 1..10
         /\ U32Max4096(m.size)
         /\ m.flags[1] % 4 = 1
         /\ OnlyBits(m.flags, {0, 1, 2, 3}))
HdrGpu(m) == Bool(m.code[2] = 0 /\ m.code[1] \in 1..12 /\ OnlyBits(m.flags, {2}))

Memory(m) == Bool(LIsZero(m.padding) /\ m.n[2] = 0 /\ m.n[1] \in 1..32)

Region(m) == IF LIsZero(m.size) THEN No
             ELSE Both(RangeOK(m.gpa, m.size), Both(RangeOK(m.ua, m.size), RangeOK(m.off, m.size)))

VringAddr(m) == Bool(/\ OnlyBits(m.flags, {0})
                     /\ Low(m.desc, 16) = 0 /\ Low(m.avail, 2) = 0 /\ Low(m.used, 4) = 0)

Config(m) ==  \* offset, size, flags: 2 limbs each
    Bool(/\ ~LIsZero(m.size)
         /\ ~AddOverflows(m.offset, m.size)
         /\ U32Max4096(Sum(m.offset, m.size))
         /\ OnlyBits(m.flags, {0, 1}))

Inflight(m) == Bool(m.nq # 0 /\ m.qs # 0)

Log(m) == IF LIsZero(m.size) THEN No ELSE RangeOK(m.off, m.size)

DevState(m) == Bool(m.dir[2] = 0 /\ m.dir[1] \in {0, 1} /\ LIsZero(m.phase))

Uuid(m) == Bool(~LIsZero(m.u) /\ ~LAllOnes(m.u))       \* 8 limbs

MMap(m) == IF LIsZero(m.len) THEN No
           ELSE Both(Bool(OnlyBits(m.flags, {0})), Both(RangeOK(m.fdoff, m.len), RangeOK(m.shmoff, m.len)))

\* bodies the protocol puts no rule on: every bit pattern is a valid encoding (a validator that starts refusing some of them
\* -- say, ring indexes above 16 bits in a GET_VRING_BASE reply -- makes conformant messages undeliverable)
FreeTypes == {"u64", "vring_state", "gpu_edid_req", "gpu_cursor_pos", "gpu_scanout", "gpu_update"}

Verdict(t, m) ==
    CASE t \in FreeTypes -> Yes
      [] t = "hdr_fe" -> HdrFe(m) [] t = "hdr_be" -> HdrBe(m) [] t = "hdr_gpu" -> HdrGpu(m)
      [] t = "memory" -> Memory(m) [] t \in {"region", "single_region"} -> Region(m)
      [] t = "vring_addr" -> VringAddr(m) [] t = "config" -> Config(m) [] t = "inflight" -> Inflight(m)
      [] t = "log" -> Log(m) [] t = "dev_state" -> DevState(m) [] t = "uuid" -> Uuid(m) [] t = "mmap" -> MMap(m)
=============================================================================
