----------------------------- MODULE FaultClass -----------------------------
(***************************************************************************)
(* How the vhost-user endpoints classify faults of the underlying socket   *)
(* and what they advise the connection manager to do                       *)
(* (vhost_user/mod.rs: `From<errno::Error> for Error`, `should_reconnect`; *)
(* connection.rs: end of stream at a message boundary vs inside a message; *)
(* the sticky failure state of X01 uses the same kinds).  Beyond the       *)
(* listed properties.  Kinds are the names of the error variants.          *)
(***************************************************************************)
EXTENDS Naturals

\* Linux errno values (asm-generic/errno-base.h, errno.h)
EINTR == 4   EAGAIN == 11  ENOMEM == 12  EACCES == 13  EPIPE == 32  ECONNRESET == 104  ENOBUFS == 105

\* "temporary: retry the operation" / "the connection is gone" / "cannot reach the peer" / "anything else"
ErrnoKind(e) ==
    IF e \in {EAGAIN, EINTR, ENOBUFS, ENOMEM} THEN "SocketRetry"
    ELSE IF e \in {ECONNRESET, EPIPE} THEN "SocketBroken"
    ELSE IF e = EACCES THEN "SocketConnect"
    ELSE "SocketError"

Kinds == {"InvalidParam", "InvalidOperation", "InactiveFeature", "InactiveOperation", "InvalidMessage", "PartialMessage",
          "Disconnected", "OversizedMsg", "IncorrectFds", "SocketConnect", "SocketError", "SocketBroken", "SocketRetry",
          "BackendInternalError", "FrontendInternalError", "FeatureMismatch", "ReqHandlerError", "MemFdCreateError",
          "FileTruncateError", "MemFdSealError"}

\* rebuild the connection? -- only when the channel itself is damaged or the peer is in an unknown state
ShouldReconnect(k) == k \in {"PartialMessage", "SocketBroken", "BackendInternalError", "FrontendInternalError"}

\* Faults of the stream as an endpoint meets them while it waits for a message of `len` bytes
\* (a reply for the frontend, a request for the request server):
\*   "closed_before"  the peer was gone before the endpoint wrote its request (frontend only)
\*   "eof"   orderly end of stream after `got` bytes of the awaited message
\*   "reset" the peer closed while data the endpoint had sent was still unread (the kernel reports a reset)
\* As the code has it: the request server tells an orderly disconnect at a message boundary ("Disconnected") from an end
\* inside the header ("PartialMessage") and an end inside the body, which it reports as a malformed message
\* ("InvalidMessage": the announced length did not arrive); for the frontend, which has a request outstanding, any end of
\* stream before the complete reply leaves the exchange unfinished ("PartialMessage").
StreamKind(side, fault, got, len) ==
    CASE fault = "closed_before" -> "SocketBroken"
      [] fault = "reset" -> "SocketBroken"
      [] fault = "eof" -> IF side = "frontend" THEN "PartialMessage"
                          ELSE IF got = 0 THEN "Disconnected" ELSE IF got < 12 THEN "PartialMessage" ELSE "InvalidMessage"

\* a temporary fault never asks for a reconnect, a broken channel always does
AdviceConsistent == /\ \A e \in 0..140 : ErrnoKind(e) = "SocketRetry" => ~ShouldReconnect(ErrnoKind(e))
                    /\ \A e \in 0..140 : ErrnoKind(e) = "SocketBroken" => ShouldReconnect(ErrnoKind(e))
                    /\ ~ShouldReconnect("Disconnected")
=============================================================================
