SPECIFICATION Spec
CONSTANTS NQ = 2
 MaxDepth = 12
 UseView = TRUE
INVARIANTS QuiescentInv Retained
VIEW View
CHECK_DEADLOCK FALSE
