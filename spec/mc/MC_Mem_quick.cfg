SPECIFICATION Spec
CONSTANTS MaxDepth = 6
 MaxList = 2
 UseView = TRUE
INVARIANT NoOverlap
VIEW View
CHECK_DEADLOCK FALSE
