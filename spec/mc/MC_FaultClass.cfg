SPECIFICATION Spec
INVARIANT Consistent
CHECK_DEADLOCK FALSE
