SPECIFICATION Spec
CONSTANTS Scenario = "stop_only"
 MaxKicks = 1
 Script <- ScriptDef
INVARIANT Emit
CHECK_DEADLOCK FALSE
