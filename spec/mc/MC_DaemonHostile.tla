-------------------------- MODULE MC_DaemonHostile --------------------------
(* Stimuli: every letter from every set-up level (depth 1), and every ordered pair out of a reduced alphabet
   (the first letter succeeding or not is the daemon's business: the driver skips what follows a closed connection). *)
EXTENDS DaemonHostile, Json, TLC
CONSTANT Tier

Core(a) == \/ a.k \in {"set_vring_num", "set_vring_base"} /\ a.f.idx \in {"first", "nq"} /\ a.f.v \in {"zero", "three", "max+1", "max32"}
           \/ a.k = "set_vring_addr" /\ a.f.flags = "none" /\ a.f.desc = a.f.used /\ a.f.used = a.f.avail /\ a.f.desc \in {"in", "end", "top-16", "max"}
           \/ a.k = "set_vring_kick" /\ a.f.idx \in {"first", "nq"} /\ ~a.f.nofd /\ a.f.fd
           \/ a.k \in {"set_mem_table", "add_mem_reg"} /\ a.f.r.size \in {"page", "max-page"} /\ a.f.r.gpa \in {"zero", "top-page"}
              /\ a.f.r.ua \in {"page", "top-page"} /\ a.f.r.off = "zero" /\ (a.k = "add_mem_reg" \/ a.f.n = 1)
           \/ a.k = "set_log_base" /\ a.f.size \in {"one", "max"} /\ a.f.off \in {"zero", "max"}
           \/ a.k = "set_features" /\ a.f.v \in {"zero", "max"}
           \/ a.k \in {"kick", "use_ring", "get_vring_base"} /\ a.f.idx = "first"
CoreLetters == {a \in Letters : Core(a)}

Stimuli ==
    /\ \A lv \in 1..4 : \A a \in Letters : PrintT(<<"CASE", ToJson([level |-> Levels[lv], steps |-> <<a>>])>>)
    /\ \A lv \in (IF Tier = "thorough" THEN 1..4 ELSE {3, 4}) : \A a \in CoreLetters : \A b \in CoreLetters :
          PrintT(<<"CASE", ToJson([level |-> Levels[lv], steps |-> <<a, b>>])>>)
VARIABLE emitted
MCInit == emitted = TRUE /\ Stimuli
MCSpec == MCInit /\ [][FALSE]_emitted
=============================================================================
