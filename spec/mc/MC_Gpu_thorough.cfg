SPECIFICATION Spec
CONSTANTS Tier = "thorough"
INVARIANT ReplySet
CHECK_DEADLOCK FALSE
