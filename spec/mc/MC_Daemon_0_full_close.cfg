SPECIFICATION Spec
CONSTANTS NCallers = 0
 PeerSends = "full"
 PeerCloses = TRUE
 Callers <- CallersDef
INVARIANTS ShutdownThenOk NoShutdownDisconnectIsErr PeerSeesEof Emit
CHECK_DEADLOCK FALSE
