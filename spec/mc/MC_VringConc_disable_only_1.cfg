SPECIFICATION Spec
CONSTANTS Scenario = "disable_only"
 MaxKicks = 1
 Script <- ScriptDef
INVARIANT Emit
CHECK_DEADLOCK FALSE
