SPECIFICATION Spec
CONSTANTS NQ = 2
 MAXQ = 256
 Offered = {0, 29, 30, 32}
 MaxDepth = 3
INVARIANTS SizesOk AckedOffered
CHECK_DEADLOCK FALSE
