SPECIFICATION Spec
CONSTANTS ApfMode = "thorough"
          MaxDepth = 7
INVARIANTS Agree NoStray
VIEW View
CHECK_DEADLOCK FALSE
