SPECIFICATION Spec
CONSTANT MaxDepth = 4
INVARIANT NothingWhileFailed
CHECK_DEADLOCK FALSE
