SPECIFICATION Spec
CONSTANTS NQ = 1
 MaxDepth = 5
 UseView = FALSE
INVARIANTS QuiescentInv Retained
VIEW View
CHECK_DEADLOCK FALSE
