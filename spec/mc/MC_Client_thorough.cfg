SPECIFICATION Spec
CONSTANTS ApfMode = "thorough"
          MaxDepth = 7
INVARIANTS GateSound LogFormSound
VIEW View
CHECK_DEADLOCK FALSE
