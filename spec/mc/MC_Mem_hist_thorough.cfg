SPECIFICATION Spec
CONSTANTS MaxDepth = 4
 MaxList = 1
 UseView = FALSE
INVARIANT NoOverlap
VIEW View
CHECK_DEADLOCK FALSE
