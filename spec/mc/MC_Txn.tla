------------------------------- MODULE MC_Txn -------------------------------
EXTENDS TxnAtomicity, Json
CONSTANTS N, K1, K2, K3
ThreadsDef == 1..N
KindDef == [t \in 1..N |-> IF t = 1 THEN K1 ELSE IF t = 2 THEN K2 ELSE K3]
\* every complete schedule is printed once, when all calls are done
Emit == (Settled /\ toPeer = <<>>) => PrintT(<<"CASE", ToJson([kinds |-> KindDef, sched |-> sched])>>)
=============================================================================
