SPECIFICATION Spec
CONSTANTS ApfMode = "quick"
          MaxDepth = 7
INVARIANTS Agree NoStray
VIEW View
CHECK_DEADLOCK FALSE
