SPECIFICATION Spec
CONSTANTS ApfMode = "thorough"
          NegFail = TRUE
          MaxDepth = 5
INVARIANTS InStep GateSound AckSound
VIEW View
CHECK_DEADLOCK FALSE
