------------------------- MODULE MC_EndpointFailure -------------------------
(* All histories over {set_failed(e), operation} per endpoint to MaxDepth; model-level: once failed, nothing reaches the
   wire / the handler until (fsrv only) the state is cleared. *)
EXTENDS EndpointFailure, Json, TLC
CONSTANT MaxDepth
VARIABLES ep, f, hist, wrote, afterFail

vars == <<ep, f, hist, wrote, afterFail>>
Init == ep \in Endpoints /\ f = Healthy /\ hist = <<>> /\ wrote = 0 /\ afterFail = 0
Fail(e) == /\ Len(hist) < MaxDepth
           /\ f' = AfterSetFailed(ep, e)
           /\ hist' = Append(hist, [t |-> "fail", e |-> e])
           /\ UNCHANGED <<ep, wrote, afterFail>>
Op == /\ Len(hist) < MaxDepth
      /\ LET x == OpExpect(ep, f) IN
         /\ wrote' = wrote + (IF x.wire THEN 1 ELSE 0)
         /\ afterFail' = afterFail + (IF f # Healthy /\ (x.wire \/ x.dispatched) THEN 1 ELSE 0)
      /\ hist' = Append(hist, [t |-> "op", e |-> 0])
      /\ (Len(hist) + 1 = MaxDepth => PrintT(<<"CASE", ToJson([ep |-> ep, steps |-> Append(hist, [t |-> "op", e |-> 0])])>>))
      /\ UNCHANGED <<ep, f>>
Next == Op \/ \E e \in Errnos : Fail(e)
Spec == Init /\ [][Next]_vars
NothingWhileFailed == afterFail = 0
=============================================================================
