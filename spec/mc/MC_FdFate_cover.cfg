SPECIFICATION Spec
CONSTANT NQ = 1
CONSTANT MaxDepth = 14
CONSTANT MaxSent = 14
VIEW View
INVARIANT OneSlotEach
INVARIANT OnlySent
INVARIANT Bounded
CHECK_DEADLOCK FALSE
