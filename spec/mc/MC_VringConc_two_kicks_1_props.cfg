SPECIFICATION Spec
CONSTANTS Scenario = "two_kicks"
 MaxKicks = 2
 Script <- ScriptDef
INVARIANTS P2 Alive
CHECK_DEADLOCK FALSE
