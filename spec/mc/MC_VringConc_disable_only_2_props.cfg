SPECIFICATION Spec
CONSTANTS Scenario = "disable_only"
 MaxKicks = 2
 Script <- ScriptDef
INVARIANTS P2 Alive
CHECK_DEADLOCK FALSE
