SPECIFICATION Spec
CONSTANTS Scenario = "disable_enable"
 MaxKicks = 1
 Script <- ScriptDef
INVARIANTS P2 Alive
CHECK_DEADLOCK FALSE
