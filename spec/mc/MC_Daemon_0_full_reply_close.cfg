SPECIFICATION Spec
CONSTANTS NCallers = 0
 PeerSends = "full_reply"
 PeerCloses = TRUE
 Callers <- CallersDef
INVARIANTS ShutdownThenOk NoShutdownDisconnectIsErr PeerSeesEof Emit
CHECK_DEADLOCK FALSE
