SPECIFICATION Spec
CONSTANTS NCallers = 0
 PeerSends = "part_hdr"
 PeerCloses = TRUE
 Callers <- CallersDef
INVARIANTS ShutdownThenOk NoShutdownDisconnectIsErr PeerSeesEof Emit
CHECK_DEADLOCK FALSE
