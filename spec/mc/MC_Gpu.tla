------------------------------- MODULE MC_Gpu -------------------------------
(* Stimuli for engine "gpu": every operation with a conformant peer, every reply-bearing
   operation x every reply deviation, payload lengths and descriptor presence. *)
EXTENDS GpuChannel, Json, TLC
CONSTANT Tier
VARIABLE done
ReplyMutations == {"code+1", "code=0", "code=999", "flag-reply", "flag+version", "resv", "body_short", "fds+1", "random", "silent"}
DataLens == IF Tier = "quick" THEN {0, 1, 4096, 70000} ELSE {0, 1, 2, 100, 4084, 4085, 4096, 4097, 65535, 70000, 300000}
Auto == /\ \A op \in GpuOps \ {"update_scanout", "set_dmabuf_scanout", "set_dmabuf_scanout2"} :
              PrintT(<<"CASE", ToJson([op |-> op, peer |-> "auto", dlen |-> 0, fd |-> FALSE])>>)
        /\ \A n \in DataLens : PrintT(<<"CASE", ToJson([op |-> "update_scanout", peer |-> "auto", dlen |-> n, fd |-> FALSE])>>)
        /\ \A op \in {"set_dmabuf_scanout", "set_dmabuf_scanout2"}, fd \in BOOLEAN :
              PrintT(<<"CASE", ToJson([op |-> op, peer |-> "auto", dlen |-> 0, fd |-> fd])>>)
\* truncating an empty reply body changes nothing: not a deviation
Applies(op, p) == p = "body_short" => GpuReplyBodySize(GpuCode(op)) > 0
Hostile == \A op \in {o \in GpuOps : GpuAwaits(o)}, p \in ReplyMutations :
              Applies(op, p) => PrintT(<<"HCASE", ToJson([op |-> op, peer |-> p, dlen |-> 0, fd |-> FALSE])>>)
Init == done = FALSE /\ Auto /\ Hostile
Next == done' = TRUE /\ ~done
Spec == Init /\ [][Next]_done
\* sanity of the catalogue: reply-bearing requests are exactly the four the document lists
ReplySet == {op \in GpuOps : GpuAwaits(op)} = {"get_protocol_features", "get_display_info", "get_edid", "update_dmabuf_scanout"}
=============================================================================
