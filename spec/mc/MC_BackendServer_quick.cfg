SPECIFICATION Spec
CONSTANTS ApfMode = "quick"
          MaxDepth = 5
INVARIANTS InStep GateSound AckSound
VIEW View
CHECK_DEADLOCK FALSE
