SPECIFICATION Spec
CONSTANTS ApfMode = "quick"
          NegFail = FALSE
          MaxDepth = 5
INVARIANTS InStep GateSound AckSound
VIEW View
CHECK_DEADLOCK FALSE
