SPECIFICATION Spec
CONSTANTS MaxDepth = 5
VIEW View
CHECK_DEADLOCK FALSE
