SPECIFICATION Spec
CONSTANT MaxDepth = 3
CONSTANT Family = "both"
INVARIANT NoCallWhenGated
INVARIANT DeadIsSticky
CHECK_DEADLOCK FALSE
