SPECIFICATION Spec
CONSTANTS Scenario = "two_kicks"
 MaxKicks = 2
 Script <- ScriptDef
INVARIANT Emit
CHECK_DEADLOCK FALSE
