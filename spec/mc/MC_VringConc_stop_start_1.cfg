SPECIFICATION Spec
CONSTANTS Scenario = "stop_start"
 MaxKicks = 1
 Script <- ScriptDef
INVARIANT Emit
CHECK_DEADLOCK FALSE
