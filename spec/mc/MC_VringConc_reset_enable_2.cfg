SPECIFICATION Spec
CONSTANTS Scenario = "reset_enable"
 MaxKicks = 2
 Script <- ScriptDef
INVARIANT Emit
CHECK_DEADLOCK FALSE
