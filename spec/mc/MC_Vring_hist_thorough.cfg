SPECIFICATION Spec
CONSTANTS NQ = 1
 MaxDepth = 6
 UseView = FALSE
INVARIANTS QuiescentInv Retained
VIEW View
CHECK_DEADLOCK FALSE
