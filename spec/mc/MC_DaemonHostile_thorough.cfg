SPECIFICATION MCSpec
CONSTANT Tier = "thorough"
CHECK_DEADLOCK FALSE
