---------------------------- MODULE MC_VringConc ----------------------------
EXTENDS VringConc, Json
CONSTANT Scenario
ScriptDef == CASE Scenario = "disable_enable" -> <<"disable", "enable">>
               [] Scenario = "stop_start" -> <<"stop", "start">>
               [] Scenario = "stop_restart" -> <<"stop", "restart">>
               [] Scenario = "reset_enable" -> <<"reset", "features", "enable">>
               [] Scenario = "disable_only" -> <<"disable">>
               [] Scenario = "stop_only" -> <<"stop">>
               [] Scenario = "two_kicks" -> <<>>          \* no control message at all: kicks against the worker's own steps
               [] OTHER -> <<"enable", "disable", "enable">>
\* print every complete schedule with the model's prediction
Emit == Done => PrintT(<<"CASE", ToJson([script |-> Script, sched |-> sched, wfree |-> wfree, p1 |-> p1, lost |-> LostKick, died |-> died])>>)
\* the property on the model (expected to be refuted for the present design: see DESIGN C12)
P1 == ~p1
P2 == ~LostKick
Alive == ~died
=============================================================================
