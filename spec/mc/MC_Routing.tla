----------------------------- MODULE MC_Routing -----------------------------
(* All queues-per-thread configurations for small numbers of queues / threads (C17): model-level
   checks of the routing functions and the configurations as stimuli. *)
EXTENDS Routing, RoutingOpsAp, Json, TLC
CONSTANTS MaxQ, MaxT
VARIABLE done

Configs == UNION {UNION {{[nq |-> nq, masks |-> m] : m \in [1..nt -> SUBSET (0..nq)]} : nt \in 1..MaxT} : nq \in 1..MaxQ}

ToMaskNum(S) == LET RECURSIVE Sum(_)
                    Sum(T) == IF T = {} THEN 0 ELSE LET x == CHOOSE x \in T : TRUE IN 2 ^ x + Sum(T \ {x})
                IN Sum(S)

Emit == \A c \in Configs :
          PrintT(<<"CASE", ToJson([nq |-> c.nq, masks |-> [t \in DOMAIN c.masks |-> ToMaskNum(c.masks[t])]])>>)

Init == done = FALSE /\ Emit
Next == ~done /\ done' = TRUE
Spec == Init /\ [][Next]_done

\* model-level properties of the routing functions over all configurations
OwnerUnique == \A c \in Configs : \A q \in 0..(c.nq - 1) :
                 LET o == Owner(c.masks, q) IN
                 (o # 0 => q \in c.masks[o] /\ \A u \in 1..(o - 1) : q \notin c.masks[u])
RankIsIndexInSlice == \A c \in Configs : \A t \in DOMAIN c.masks : \A q \in SliceOf(c.masks[t], c.nq) :
                        /\ Rank(c.masks[t], q) < Cardinality(SliceOf(c.masks[t], c.nq))
                        /\ QueueOf(c.masks[t], c.nq, Rank(c.masks[t], q)) = q
\* the annotated copies of the routing functions that Apalache checks for larger bounds (RoutingAp.tla) are the same functions
ApAgree == \A c \in Configs :
             LET nt == Len(c.masks)  m == [t \in 1..nt |-> c.masks[t]] IN
             /\ \A q \in 0..c.nq : ApOwner(m, nt, q) = Owner(c.masks, q)
             /\ \A t \in 1..nt : /\ ApSliceOf(m[t], c.nq) = SliceOf(c.masks[t], c.nq)
                                  /\ \A q \in 0..c.nq : ApRank(m[t], q) = Rank(c.masks[t], q)
                                  /\ \A e \in 0..c.nq : ApQueueOf(m[t], c.nq, e) = QueueOf(c.masks[t], c.nq, e)
\* event ids of queues never collide with the exit id
NoExitCollision == \A c \in Configs : \A t \in DOMAIN c.masks : \A q \in SliceOf(c.masks[t], c.nq) : Rank(c.masks[t], q) < ExitId(c.nq)
=============================================================================
