SPECIFICATION Spec
CONSTANTS MaxQ = 4
 MaxT = 3
INVARIANTS OwnerUnique RankIsIndexInSlice NoExitCollision ApAgree
CHECK_DEADLOCK FALSE
