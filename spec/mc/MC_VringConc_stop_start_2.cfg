SPECIFICATION Spec
CONSTANTS Scenario = "stop_start"
 MaxKicks = 2
 Script <- ScriptDef
INVARIANT Emit
CHECK_DEADLOCK FALSE
