SPECIFICATION Spec
CONSTANT MaxDepth = 1
CONSTANT Family = "minus"
INVARIANT NoCallWhenGated
INVARIANT DeadIsSticky
CHECK_DEADLOCK FALSE
