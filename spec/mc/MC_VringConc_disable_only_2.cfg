SPECIFICATION Spec
CONSTANTS Scenario = "disable_only"
 MaxKicks = 2
 Script <- ScriptDef
INVARIANT Emit
CHECK_DEADLOCK FALSE
