------------------------------ MODULE MC_Daemon ------------------------------
EXTENDS DaemonLifecycle, Json
CONSTANTS NCallers
CallersDef == 1..NCallers
Emit == Finished => PrintT(<<"CASE", ToJson([callers |-> NCallers, peer |-> PeerSends, peer_closes |-> PeerCloses, sched |-> sched,
                                              err |-> err, wait |-> WaitResult])>>)
=============================================================================
