SPECIFICATION Spec
CONSTANTS MaxDepth = 3
 MaxList = 1
 UseView = FALSE
INVARIANT NoOverlap
VIEW View
CHECK_DEADLOCK FALSE
