--------------------------- MODULE MC_DeviceFacade ---------------------------
(* histories: negotiate(set) followed by up to MaxDepth device letters (and reconnects); one CASE per maximal history *)
EXTENDS DeviceFacade, Json, TLC
CONSTANTS MaxDepth, Family
VARIABLES s, hist, called
vars == <<s, hist, called>>

Sets == IF Family = "all" THEN {DevBits, DevBits \ {PF_REPLY_ACK}}
        ELSE IF Family = "minus" THEN {DevBits \ {b} : b \in DevBits} \cup {{}, {PF_REPLY_ACK}}
        ELSE {DevBits, DevBits \ {PF_REPLY_ACK}, {}} \cup {DevBits \ {b} : b \in DevBits}

Init == s = DfInit /\ hist = <<>> /\ called = <<>>
Emit(h) == (Len(h) = MaxDepth + 1) => PrintT(<<"CASE", ToJson([steps |-> h])>>)
Neg == /\ Len(hist) = 0
       /\ \E set \in Sets : /\ s' = DfNegotiate(s, set)
                            /\ hist' = <<[op |-> "negotiate", pf |-> set]>>
       /\ called' = <<FALSE>>
Dev == /\ Len(hist) \in 1..MaxDepth
       /\ \E k \in Kinds : \E h \in Scripts(k) :
            /\ s' = DfNext(s, k, h)
            /\ hist' = Append(hist, [op |-> "dev", k |-> k, h |-> h])
            /\ called' = Append(called, Called(s, k))
            /\ Emit(hist')
Rec == /\ Len(hist) \in 1..MaxDepth /\ s.dead /\ hist[Len(hist)].op # "reconnect"
       /\ s' = DfReconnect(s) /\ hist' = Append(hist, [op |-> "reconnect"]) /\ called' = Append(called, FALSE)
       /\ Emit(hist')
Next == Neg \/ Dev \/ Rec
Spec == Init /\ [][Next]_vars

\* a device callback is never reached through a request whose feature was not acknowledged, nor on a dead connection
NoCallWhenGated == \A i \in 1..Len(hist) : called[i] => hist[i].op = "dev" /\ ~Unsupported(hist[i].k)
\* after a request that ended the connection nothing is answered until a reconnect
DeadIsSticky == s.dead => \A k \in Kinds : \A h \in Scripts(k) : Obs(s, k, h) = "closed"
=============================================================================
