SPECIFICATION Spec
CONSTANTS Scenario = "stop_restart"
 MaxKicks = 1
 Script <- ScriptDef
INVARIANTS P2 Alive
CHECK_DEADLOCK FALSE
