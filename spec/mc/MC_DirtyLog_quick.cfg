SPECIFICATION Spec
CONSTANTS MaxDepth = 4
VIEW View
CHECK_DEADLOCK FALSE
