SPECIFICATION Spec
CONSTANTS Scenario = "enable_disable_enable"
 MaxKicks = 2
 Script <- ScriptDef
INVARIANT Emit
CHECK_DEADLOCK FALSE
