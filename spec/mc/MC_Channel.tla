----------------------------- MODULE MC_Channel -----------------------------
(* Model-checks Channel for one message length and prints the segmentation / cut stimuli. *)
EXTENDS Channel, Json, TLC, Sequences
CONSTANT Code, Tier

Splits2 == {<<a>> : a \in 1..(L - 1)}
Grid == IF L <= 52 \/ Tier = "thorough" THEN 1..(L - 1) ELSE {x \in 1..(L - 1) : x % 4 = 0 \/ x < 14 \/ x > L - 3}
Splits3 == {<<a, b>> : a \in Grid, b \in Grid} \ {<<a, b>> \in Grid \X Grid : a >= b}
ByteWise == {[i \in 1..(L - 1) |-> i]}
Cuts == 0..(L - 1)

Stimuli ==
    /\ \A sp \in Splits2 \cup Splits3 \cup ByteWise :
          PrintT(<<"CASE", ToJson([c |-> Code, len |-> L, seg |-> sp, cut |-> -1])>>)
    /\ \A k \in Cuts : PrintT(<<"CASE", ToJson([c |-> Code, len |-> L, seg |-> <<>>, cut |-> k])>>)

MCInit == ChInit /\ Stimuli
MCSpec == MCInit /\ [][ChNext]_chvars
=============================================================================
