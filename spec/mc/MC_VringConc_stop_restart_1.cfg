SPECIFICATION Spec
CONSTANTS Scenario = "stop_restart"
 MaxKicks = 1
 Script <- ScriptDef
INVARIANT Emit
CHECK_DEADLOCK FALSE
