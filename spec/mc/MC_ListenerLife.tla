--------------------------- MODULE MC_ListenerLife ---------------------------
(* transition coverage of the listener life-cycle (history hidden by the VIEW) and, without the VIEW, all histories to MaxDepth *)
EXTENDS ListenerLife, Json, TLC
CONSTANTS MaxDepth, MaxClients, MaxGens
VARIABLES s, hist, acc
vars == <<s, hist, acc>>
Init == s = LsInit /\ hist = <<>> /\ acc = <<>>
Step(a) == /\ Len(hist) < MaxDepth /\ Enabled(s, a)
           /\ (a.op = "connect" => s.clients < MaxClients)
           /\ (a.op \in {"new", "adopt"} => s.gens < MaxGens)
           /\ s' = LsNext(s, a)
           /\ hist' = Append(hist, a)
           /\ acc' = IF Accepted(s, a) # 0 THEN Append(acc, Accepted(s, a)) ELSE acc
           /\ PrintT(<<"CASE", ToJson([steps |-> hist'])>>)
Next == \E a \in Letters : Step(a)
Spec == Init /\ [][Next]_vars
View == s
\* every connection is handed out at most once, and those of one listener in the order in which they were made
AcceptOnce == \A i, j \in 1..Len(acc) : i # j => acc[i] # acc[j]
\* a listener created by new() on a path it owns is reachable until something replaces or removes the path
Reachable == \A i \in Slots : (s.L[i].live /\ s.fs.kind = "sock" /\ s.fs.gen = s.L[i].gen) => Target(s) = i
\* nothing is queued at a listener that is not live
NoGhostQueue == \A i \in Slots : ~s.L[i].live => s.L[i].q = <<>>
=============================================================================
