SPECIFICATION MCSpec
CONSTANTS L = 20
          Code = 8
          Tier = "quick"
INVARIANTS DispatchOnlyWhenComplete AtMostOnce CleanDisconnectOnlyAtBoundary TruncationIsError NeverStuck
CHECK_DEADLOCK FALSE
