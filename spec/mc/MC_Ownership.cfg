SPECIFICATION Spec
CONSTANT MaxDepth = 6
INVARIANT AtMostOneOwner
CHECK_DEADLOCK FALSE
