------------------------------ MODULE MC_Vring ------------------------------
(* Sequential VringLifecycle: transition coverage + bounded histories; stimuli for engine "daemon". *)
EXTENDS VringLifecycle, Json
CONSTANTS MaxDepth, UseView
VARIABLES s, hist, objs

Letters ==
    {[op |-> "set_features", pf |-> pf, q |-> 0, fd |-> "", en |-> FALSE, which |-> ""] : pf \in BOOLEAN}
    \cup {[op |-> "set_vring_kick", pf |-> FALSE, q |-> q, fd |-> fd, en |-> FALSE, which |-> ""] : q \in Rings, fd \in {"new", "none", "same"}}
    \cup {[op |-> "set_vring_call", pf |-> FALSE, q |-> q, fd |-> "new", en |-> FALSE, which |-> ""] : q \in Rings}
    \cup {[op |-> "set_vring_enable", pf |-> FALSE, q |-> q, fd |-> "", en |-> en, which |-> ""] : q \in Rings, en \in BOOLEAN}
    \cup {[op |-> "get_vring_base", pf |-> FALSE, q |-> q, fd |-> "", en |-> FALSE, which |-> ""] : q \in Rings}
    \cup {[op |-> "reset_device", pf |-> FALSE, q |-> 0, fd |-> "", en |-> FALSE, which |-> ""]}
    \cup {[op |-> "kick", pf |-> FALSE, q |-> q, fd |-> "", en |-> FALSE, which |-> w] : q \in Rings, w \in {"cur", "old", "dropped"}}

vars == <<s, hist, objs>>
Init == s = LcInit /\ hist = <<>> /\ objs = [q \in Rings |-> 0]

\* a letter is meaningful only if the descriptors it refers to exist
Applicable(a) ==
    /\ (a.op = "kick" /\ a.which = "cur") => s.kick[a.q] = "obj"
    /\ (a.op = "kick" /\ a.which = "old") => objs[a.q] >= 2
    \* the descriptor sent last, which the ring has let go of since
    /\ (a.op = "kick" /\ a.which = "dropped") => (objs[a.q] >= 1 /\ s.kick[a.q] = "none")
    /\ (a.op = "set_vring_kick" /\ a.fd = "same") => s.kick[a.q] = "obj"

Step(a) ==
    /\ Applicable(a) /\ Len(hist) < MaxDepth
    /\ s' = LcStep(s, a)
    /\ objs' = IF a.op = "set_vring_kick" /\ a.fd = "new" THEN [objs EXCEPT ![a.q] = @ + 1] ELSE objs
    /\ hist' = Append(hist, a)
    /\ PrintT(<<"CASE", ToJson([steps |-> Append(hist, a), expect |-> LcDispatched(s, a)])>>)

Next == \E a \in Letters : Step(a)
Spec == Init /\ [][Next]_vars

QuiescentInv == Quiescent(s)
\* a disabled or stopped ring never has its kick consumed
Retained == \A q \in Rings : (s.pend[q] /\ s.kick[q] = "obj") => ~Active(s, q)
View == IF UseView THEN <<s, [q \in Rings |-> IF objs[q] >= 2 THEN 2 ELSE objs[q]]>> ELSE <<s, objs, hist>>
=============================================================================
