SPECIFICATION Spec
CONSTANTS Scenario = "stop_only"
 MaxKicks = 2
 Script <- ScriptDef
INVARIANT Emit
CHECK_DEADLOCK FALSE
