SPECIFICATION Spec
CONSTANTS MayCrash = FALSE
          N = 3
          K1 = "reply"
          K2 = "ff"
          K3 = "ff"
          Threads <- ThreadsDef
          Kind <- KindDef
INVARIANTS Indivisible OwnAnswer NoDeadlock Emit
PROPERTY Termination
CHECK_DEADLOCK FALSE
