SPECIFICATION Spec
CONSTANT MaxDepth = 12
CONSTANT MaxClients = 3
CONSTANT MaxGens = 3
VIEW View
INVARIANT AcceptOnce
INVARIANT Reachable
INVARIANT NoGhostQueue
CHECK_DEADLOCK FALSE
