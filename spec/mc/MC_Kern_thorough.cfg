SPECIFICATION Spec
CONSTANTS Tier = "thorough"
INVARIANTS Distinct AllOpsMapped
CHECK_DEADLOCK FALSE
