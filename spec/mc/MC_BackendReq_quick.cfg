SPECIFICATION Spec
CONSTANTS MaxDepth = 3
INVARIANTS InStep Gated
CHECK_DEADLOCK FALSE
