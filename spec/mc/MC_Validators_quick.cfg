SPECIFICATION Spec
CONSTANTS Tier = "quick"
INVARIANT Sanity
CHECK_DEADLOCK FALSE
