SPECIFICATION Spec
CONSTANTS Scenario = "disable_enable"
 MaxKicks = 2
 Script <- ScriptDef
INVARIANT Emit
CHECK_DEADLOCK FALSE
