SPECIFICATION Spec
CONSTANTS NCallers = 2
 PeerSends = "hdr_only"
 PeerCloses = TRUE
 Callers <- CallersDef
INVARIANTS ShutdownThenOk NoShutdownDisconnectIsErr PeerSeesEof Emit
PROPERTY ExitsAfterShutdown
CHECK_DEADLOCK FALSE
