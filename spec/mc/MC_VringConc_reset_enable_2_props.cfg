SPECIFICATION Spec
CONSTANTS Scenario = "reset_enable"
 MaxKicks = 2
 Script <- ScriptDef
INVARIANTS P2 Alive
CHECK_DEADLOCK FALSE
