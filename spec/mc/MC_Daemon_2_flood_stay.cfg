SPECIFICATION Spec
CONSTANTS NCallers = 2
 PeerSends = "flood"
 PeerCloses = FALSE
 Callers <- CallersDef
INVARIANTS ShutdownThenOk NoShutdownDisconnectIsErr PeerSeesEof Emit
PROPERTY ExitsAfterShutdown
CHECK_DEADLOCK FALSE
