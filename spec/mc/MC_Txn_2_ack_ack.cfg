SPECIFICATION Spec
CONSTANTS MayCrash = FALSE
          N = 2
          K1 = "ack"
          K2 = "ack"
          K3 = "ff"
          Threads <- ThreadsDef
          Kind <- KindDef
INVARIANTS Indivisible OwnAnswer NoDeadlock Emit
PROPERTY Termination
CHECK_DEADLOCK FALSE
