SPECIFICATION Spec
CONSTANTS ApfMode = "quick"
          NegFail = TRUE
          MaxDepth = 5
INVARIANTS InStep GateSound AckSound
VIEW View
CHECK_DEADLOCK FALSE
