SPECIFICATION Spec
CONSTANT MaxDepth = 6
CONSTANT MaxClients = 3
CONSTANT MaxGens = 3
INVARIANT AcceptOnce
INVARIANT Reachable
INVARIANT NoGhostQueue
CHECK_DEADLOCK FALSE
