SPECIFICATION Spec
CONSTANTS NCallers = 2
 PeerSends = "part_hdr"
 PeerCloses = TRUE
 Callers <- CallersDef
INVARIANTS ShutdownThenOk NoShutdownDisconnectIsErr PeerSeesEof Emit
PROPERTY ExitsAfterShutdown
CHECK_DEADLOCK FALSE
