---------------------------- MODULE MC_FaultClass ----------------------------
(* enumerates the errno table and the stream-fault positions as stimuli *)
EXTENDS FaultClass, Json, TLC, Sequences
VARIABLES done
Init == done = FALSE
Cuts(len) == {0, 1, 5, 11, 12, 13, len - 1} \cap 0..(len - 1)
Next == /\ ~done /\ done' = TRUE
        /\ \A e \in 0..140 : PrintT(<<"CASE", ToJson([t |-> "errno", e |-> e])>>)
        /\ \A k \in Kinds : PrintT(<<"CASE", ToJson([t |-> "kind", k |-> k])>>)
        /\ \A side \in {"frontend", "server"} : \A got \in Cuts(20) :
              PrintT(<<"CASE", ToJson([t |-> "stream", side |-> side, fault |-> "eof", got |-> got])>>)
        /\ \A side \in {"frontend", "server"} : PrintT(<<"CASE", ToJson([t |-> "stream", side |-> side, fault |-> "reset", got |-> 0])>>)
        /\ PrintT(<<"CASE", ToJson([t |-> "stream", side |-> "frontend", fault |-> "closed_before", got |-> 0])>>)
Spec == Init /\ [][Next]_done
Consistent == AdviceConsistent
=============================================================================
