SPECIFICATION Spec
CONSTANTS ApfMode = "thorough"
          MaxDepth = 5
INVARIANTS InStep GateSound AckSound
VIEW View
CHECK_DEADLOCK FALSE
