---------------------------- MODULE MC_Validators ----------------------------
(***************************************************************************)
(* Enumerates the full product of per-field boundary sets for every        *)
(* message type and prints each point (the harness evaluates the crate's   *)
(* is_valid() on it; TLC evaluates the reference predicate on the trace).  *)
(* Also checks a few meta-properties of the reference predicates.          *)
(***************************************************************************)
EXTENDS Validators, Json, TLC
CONSTANT Tier
VARIABLE done

M == 65535
B64 == { <<0,0,0,0>>, <<1,0,0,0>>, <<2,0,0,0>>, <<3,0,0,0>>, <<15,0,0,0>>, <<16,0,0,0>>, <<17,0,0,0>>,
         <<4095,0,0,0>>, <<4096,0,0,0>>, <<4097,0,0,0>>, <<M,32767,0,0>>, <<0,32768,0,0>>, <<1,32768,0,0>>,
         <<M,M,0,0>>, <<0,0,1,0>>, <<1,0,1,0>>, <<M,M,M,32767>>, <<0,0,0,32768>>, <<1,0,0,32768>>,
         <<61439,M,M,M>>, <<61440,M,M,M>>, <<61441,M,M,M>>, <<65534,M,M,M>>, <<M,M,M,M>> }
B64s == IF Tier = "quick"
        THEN { <<0,0,0,0>>, <<1,0,0,0>>, <<4096,0,0,0>>, <<0,0,1,0>>, <<0,0,0,32768>>, <<61439,M,M,M>>, <<61440,M,M,M>>,
               <<61441,M,M,M>>, <<65534,M,M,M>>, <<M,M,M,M>> }
        ELSE B64
B32 == { <<0,0>>, <<1,0>>, <<2,0>>, <<255,0>>, <<256,0>>, <<4095,0>>, <<4096,0>>, <<4097,0>>, <<M,32767>>, <<0,32768>>,
         <<61440,M>>, <<61441,M>>, <<65534,M>>, <<M,M>> }
Bit32(k) == IF k < 16 THEN <<2^k, 0>> ELSE <<0, 2^(k - 16)>>
Bit64(k) == [i \in 1..4 |-> IF (k \div 16) + 1 = i THEN 2^(k % 16) ELSE 0]
Or32(a, b) == <<a[1] + b[1], a[2] + b[2]>>     \* only used for disjoint bits
Flags32 == {<<0,0>>, <<1,0>>, <<2,0>>, <<3,0>>, <<5,0>>, <<9,0>>, <<13,0>>, <<12,0>>, <<4,0>>, <<8,0>>, <<M,M>>}
           \cup {Bit32(k) : k \in 0..31} \cup {Or32(<<1,0>>, Bit32(k)) : k \in 2..31}
Codes(n) == {<<c, 0>> : c \in 0..(n + 6)} \cup {<<0, 1>>, <<1, 1>>, <<0, 32768>>, <<M, M>>}

P(t, m) == PrintT(<<"CASE", ToJson([t |-> t, m |-> m])>>)

Emit ==
    /\ \A c \in Codes(44), f \in Flags32, s \in {<<0,0>>, <<1,0>>, <<4095,0>>, <<4096,0>>, <<4097,0>>, <<0,32768>>, <<M,M>>} :
          P("hdr_fe", [code |-> c, flags |-> f, size |-> s])
    /\ \A c \in Codes(10), f \in Flags32, s \in {<<0,0>>, <<4096,0>>, <<4097,0>>, <<M,M>>} :
          P("hdr_be", [code |-> c, flags |-> f, size |-> s])
    /\ \A c \in Codes(12), f \in Flags32, s \in {<<0,0>>, <<4097,0>>, <<M,M>>} :
          P("hdr_gpu", [code |-> c, flags |-> f, size |-> s])
    /\ \A n \in {<<0,0>>, <<1,0>>, <<2,0>>, <<31,0>>, <<32,0>>, <<33,0>>, <<255,0>>, <<256,0>>, <<0,1>>, <<0,32768>>, <<M,M>>}, p \in B32 :
          P("memory", [n |-> n, padding |-> p])
    /\ \A t \in {"region", "single_region"}, sz \in B64, g \in B64s, u \in B64s, o \in B64s :
          P(t, [gpa |-> g, size |-> sz, ua |-> u, off |-> o])
    /\ \A f \in Flags32,
          d \in {<<0,0,0,0>>, <<1,0,0,0>>, <<8,0,0,0>>, <<15,0,0,0>>, <<16,0,0,0>>, <<17,0,0,0>>, <<32,0,0,0>>, <<0,0,0,32768>>, <<65520,M,M,M>>, <<M,M,M,M>>},
          a \in {<<0,0,0,0>>, <<1,0,0,0>>, <<2,0,0,0>>, <<3,0,0,0>>, <<65534,M,M,M>>, <<M,M,M,M>>},
          u \in {<<0,0,0,0>>, <<1,0,0,0>>, <<2,0,0,0>>, <<3,0,0,0>>, <<4,0,0,0>>, <<5,0,0,0>>, <<65532,M,M,M>>, <<M,M,M,M>>} :
          P("vring_addr", [flags |-> f, desc |-> d, avail |-> a, used |-> u])
    /\ \A o \in B32, s \in B32, f \in Flags32 : P("config", [offset |-> o, size |-> s, flags |-> f])
    /\ \A nq \in {0, 1, 2, 65535}, qs \in {0, 1, 2, 65535}, ms \in {<<0,0,0,0>>, <<1,0,0,0>>, <<M,M,M,M>>}, mo \in {<<0,0,0,0>>, <<M,M,M,M>>} :
          P("inflight", [nq |-> nq, qs |-> qs, msize |-> ms, moff |-> mo])
    /\ \A s \in B64, o \in B64 : P("log", [size |-> s, off |-> o])
    /\ \A d \in B32, p \in B32 : P("dev_state", [dir |-> d, phase |-> p])
    /\ \A i \in 1..8, x \in {0, 1, 255, 65534, M}, rest \in {0, M} :
          P("uuid", [u |-> [j \in 1..8 |-> IF j = i THEN x ELSE rest]])
    /\ \A l \in B64, fo \in B64s, so \in B64s,
          f \in {<<0,0,0,0>>, <<1,0,0,0>>, <<2,0,0,0>>, <<3,0,0,0>>, <<M,M,M,M>>} \cup {Bit64(k) : k \in {1, 15, 16, 31, 32, 47, 48, 63}},
          id \in {0, 255} :
          P("mmap", [len |-> l, fdoff |-> fo, shmoff |-> so, flags |-> f, shmid |-> id])

W == {<<0,0>>, <<1,0>>, <<255,0>>, <<M,0>>, <<0,1>>, <<M,32767>>, <<0,32768>>, <<M,M>>}
EmitFree ==
    /\ \A v \in B64 : P("u64", [w |-> <<<<v[1], v[2]>>, <<v[3], v[4]>>>>])
    /\ \A i \in B32, n \in B32 : P("vring_state", [w |-> <<i, n>>])
    /\ \A a \in B32 : P("gpu_edid_req", [w |-> <<a>>])
    /\ \A t \in {"gpu_cursor_pos", "gpu_scanout"}, a \in W, b \in W, c \in W : P(t, [w |-> <<a, b, c>>])
    /\ \A k \in 1..5, a \in B32, rest \in {<<0,0>>, <<M,M>>} : P("gpu_update", [w |-> [j \in 1..5 |-> IF j = k THEN a ELSE rest]])

Init == done = FALSE /\ Emit /\ EmitFree
Next == ~done /\ done' = TRUE
Spec == Init /\ [][Next]_done

\* meta-checks of the reference predicates on the lattice (sanity of the oracle itself)
Sanity ==
    /\ Region([gpa |-> <<0,0,0,0>>, size |-> <<4096,0,0,0>>, ua |-> <<0,0,0,0>>, off |-> <<0,0,0,0>>]) = Yes
    /\ Region([gpa |-> <<61441,M,M,M>>, size |-> <<4096,0,0,0>>, ua |-> <<0,0,0,0>>, off |-> <<0,0,0,0>>]) = No
    /\ Region([gpa |-> <<61440,M,M,M>>, size |-> <<4096,0,0,0>>, ua |-> <<0,0,0,0>>, off |-> <<0,0,0,0>>]) = "any"
    /\ Config([offset |-> <<4095,0>>, size |-> <<1,0>>, flags |-> <<0,0>>]) = Yes
    /\ Config([offset |-> <<4096,0>>, size |-> <<1,0>>, flags |-> <<0,0>>]) = No
    /\ Config([offset |-> <<M,M>>, size |-> <<2,0>>, flags |-> <<0,0>>]) = No
    /\ HdrFe([code |-> <<1,0>>, flags |-> <<1,0>>, size |-> <<4096,0>>]) = Yes
    /\ HdrFe([code |-> <<1,0>>, flags |-> <<17,0>>, size |-> <<0,0>>]) = No
    /\ \A x \in B64, y \in B64 : AddOverflows(x, y) = AddOverflows(y, x)
    /\ \A x \in B64 : Leq(x, <<M,M,M,M>>) /\ Leq(<<0,0,0,0>>, x)
=============================================================================
