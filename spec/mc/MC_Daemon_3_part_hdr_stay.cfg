SPECIFICATION Spec
CONSTANTS NCallers = 3
 PeerSends = "part_hdr"
 PeerCloses = FALSE
 Callers <- CallersDef
INVARIANTS ShutdownThenOk NoShutdownDisconnectIsErr PeerSeesEof Emit
PROPERTY ExitsAfterShutdown
CHECK_DEADLOCK FALSE
