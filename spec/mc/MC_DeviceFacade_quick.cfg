SPECIFICATION Spec
CONSTANT MaxDepth = 2
CONSTANT Family = "all"
INVARIANT NoCallWhenGated
INVARIANT DeadIsSticky
CHECK_DEADLOCK FALSE
