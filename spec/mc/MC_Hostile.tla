----------------------------- MODULE MC_Hostile -----------------------------
(***************************************************************************)
(* Grammar-aware hostile inputs for the backend request server (C05, C09): *)
(* for every request code, from a fresh and from a fully negotiated        *)
(* connection: header mutations, size classes, every single violated body  *)
(* rule, 0..40 attached descriptors.  The letters are replayed by a raw    *)
(* peer on the real BackendReqHandler.                                     *)
(***************************************************************************)
EXTENDS BackendServer, Json, TLC, Sequences
CONSTANT Tier
VARIABLE done

HeaderVars == {"flags.reply", "flags.ver0", "flags.ver2", "flags.ver3", "flags.resv",
               "size.short", "size.long", "size.zero", "size.max", "size.over"}
BodyRules(c) ==
    CASE c = SET_MEM_TABLE -> {"nregions0", "nregions33", "padding", "size0", "gpa_wrap", "ua_wrap", "off_wrap", "size_max", "len_short", "len_long"}
      [] c = SET_LOG_BASE -> {"size0", "wrap"}
      [] c = SET_VRING_ADDR -> {"flags_undef", "desc_unaligned", "used_unaligned", "avail_unaligned"}
      [] c \in {SET_VRING_KICK, SET_VRING_CALL, SET_VRING_ERR} -> {"nofdbit_with_fd", "fdbit_without_fd"}
      [] c = SET_VRING_ENABLE -> {"num2"}
      [] c \in {GET_CONFIG, SET_CONFIG} -> {"size0", "end_gt", "wrap", "size_huge", "flags_undef", "payload_short", "payload_long"}
      [] c \in {GET_INFLIGHT_FD, SET_INFLIGHT_FD} -> {"nq0", "qs0"}
      [] c \in {ADD_MEM_REG, REM_MEM_REG} -> {"size0", "gpa_wrap", "ua_wrap", "off_wrap", "size_max"}
      [] c = GET_SHARED_OBJECT -> {"nil", "max"}
      [] c = SET_DEVICE_STATE_FD -> {"dir2", "phase1"}
      [] OTHER -> {}
FdCounts == IF Tier = "quick" THEN {0, 1, 2, 3, 31, 32, 33, 40} ELSE 0..40

Vars(c) == {"valid"} \cup HeaderVars \cup {"body." \o r : r \in BodyRules(c)} \cup {"nfds." \o ToString(k) : k \in FdCounts}

Negotiated == <<[c |-> 1, nr |-> FALSE, h |-> "ok", v |-> {}, var |-> "valid"],
                [c |-> 2, nr |-> FALSE, h |-> "ok", v |-> {VF_PROTOCOL_FEATURES}, var |-> "valid"],
                [c |-> 16, nr |-> FALSE, h |-> "ok", v |-> GatingBits, var |-> "valid"]>>

Emit == \A c \in FeCodes \cup {0, 45, 46, 1000} : \A var \in Vars(c), pre \in {<<>>, Negotiated}, nr \in BOOLEAN, h \in {"ok", "fail"} :
          PrintT(<<"CASE", ToJson([dev |-> [vf |-> {VF_PROTOCOL_FEATURES}, pf |-> {}],
                                   steps |-> pre \o <<[c |-> c, nr |-> nr, h |-> h, v |-> {}, var |-> var]>>])>>)
\* descriptors attached to the body segment instead of the first byte (C09): the library must close them
Bodied == {c \in FeServed : FeReqBodySize(c) > 0} \cup {SET_MEM_TABLE, GET_CONFIG, SET_CONFIG}
EmitFdPos == \A c \in Bodied, k \in {1, 2, 32, 33}, pos \in {0, 1}, pre \in {<<>>, Negotiated} :
          PrintT(<<"HCASE", ToJson([dev |-> [vf |-> {VF_PROTOCOL_FEATURES}, pf |-> {}],
                                    steps |-> pre \o <<[c |-> c, nr |-> FALSE, h |-> "ok", v |-> {}, var |-> "nfds." \o ToString(k),
                                                       seg |-> <<HDR_SIZE>>, fdseg |-> pos, cut |-> -1]>>])>>)
\* ... and to a later piece of the *header* (the header itself arrives in two receives), or to every piece of the message
EmitFdHdr == \A c \in FeServed, k \in {1, 2}, sg \in {<<4>>, <<4, HDR_SIZE>>}, all \in BOOLEAN, pre \in {<<>>, Negotiated} :
          \A pos \in (IF all THEN {0} ELSE 1..Len(sg)) :
          PrintT(<<"HCASE", ToJson([dev |-> [vf |-> {VF_PROTOCOL_FEATURES}, pf |-> {}],
                                    steps |-> pre \o <<[c |-> c, nr |-> FALSE, h |-> "ok", v |-> {}, var |-> "nfds." \o ToString(k),
                                                       seg |-> sg, fdseg |-> pos, fdall |-> all, cut |-> -1]>>])>>)
Init == done = FALSE /\ Emit /\ EmitFdPos /\ EmitFdHdr
Next == ~done /\ done' = TRUE
Spec == Init /\ [][Next]_done
=============================================================================
