SPECIFICATION Spec
CONSTANTS Tier = "quick"
INVARIANT ReplySet
CHECK_DEADLOCK FALSE
