SPECIFICATION Spec
CONSTANTS NCallers = 1
 PeerSends = "hdr_only"
 PeerCloses = TRUE
 Callers <- CallersDef
INVARIANTS ShutdownThenOk NoShutdownDisconnectIsErr PeerSeesEof Emit
PROPERTY ExitsAfterShutdown
CHECK_DEADLOCK FALSE
