SPECIFICATION Spec
CONSTANTS ApfMode = "quick"
          MaxDepth = 7
INVARIANTS GateSound LogFormSound
VIEW View
CHECK_DEADLOCK FALSE
