---------------------------- MODULE MC_Ownership ----------------------------
(* all histories over the ownership letters to MaxDepth (the first letter negotiates) *)
EXTENDS Ownership, Json, TLC
CONSTANT MaxDepth
VARIABLES s, hist, stats
vars == <<s, hist, stats>>
Init == s = OwInit /\ hist = <<>> /\ stats = <<>>
Step(a) == /\ Len(hist) < MaxDepth
           /\ (Len(hist) = 0 => a = "negotiate")
           /\ s' = OwNext(s, a)
           /\ hist' = Append(hist, a)
           /\ stats' = Append(stats, Status(s, a))
           /\ (Len(hist) + 1 = MaxDepth => PrintT(<<"CASE", ToJson([steps |-> Append(hist, a)])>>))
Next == \E a \in Letters : Step(a)
Spec == Init /\ [][Next]_vars
AtMostOneOwner == OneOwner(hist, stats)
=============================================================================
