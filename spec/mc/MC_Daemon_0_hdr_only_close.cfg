SPECIFICATION Spec
CONSTANTS NCallers = 0
 PeerSends = "hdr_only"
 PeerCloses = TRUE
 Callers <- CallersDef
INVARIANTS ShutdownThenOk NoShutdownDisconnectIsErr PeerSeesEof Emit
CHECK_DEADLOCK FALSE
