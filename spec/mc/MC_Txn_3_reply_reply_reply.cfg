SPECIFICATION Spec
CONSTANTS N = 3
          K1 = "reply"
          K2 = "reply"
          K3 = "reply"
          Threads <- ThreadsDef
          Kind <- KindDef
INVARIANTS Indivisible OwnAnswer NoDeadlock Emit
PROPERTY Termination
CHECK_DEADLOCK FALSE
