SPECIFICATION Spec
CONSTANTS NCallers = 2
 PeerSends = "full_reply"
 PeerCloses = TRUE
 Callers <- CallersDef
INVARIANTS ShutdownThenOk NoShutdownDisconnectIsErr PeerSeesEof Emit
PROPERTY ExitsAfterShutdown
CHECK_DEADLOCK FALSE
