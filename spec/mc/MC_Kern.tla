------------------------------- MODULE MC_Kern -------------------------------
(* Stimuli for engine "kern": every operation of every backend x argument class x kernel outcome x
   acknowledged-feature state x guest memory layout; plus sanity of the catalogue. *)
EXTENDS KernBackend, Json, TLC
CONSTANT Tier
VARIABLE done

Classes(op) ==
    CASE op = "set_vring_addr" -> {"ok", "no_log", "size0", "npot", "over_max", "log_flag_no_addr"}
      [] op = "set_mem_table" -> {"ok", "empty", "n255", "n256"}
      [] op = "set_log_base" -> {"ok", "with_region"}
      [] op = "net_set_backend" -> {"ok", "none"}
      [] op \in {"vdpa_get_config", "vdpa_set_config"} -> {"ok", "len0", "len256"}
      [] op \in {"iotlb_parse_v1", "iotlb_parse_v2"} -> {"ok", "type0", "badmsgtype"}
      [] OTHER -> {"ok"}

OpsOf(b) == KernOps \cup (CASE b = "net" -> NetOps [] b = "vsock" -> VsockOps [] OTHER -> VdpaOps)

Steps(b) == {[op |-> op, cls |-> cls, kfail |-> kf] : op \in OpsOf(b), cls \in {"ok", "no_log", "size0", "npot", "over_max",
                 "log_flag_no_addr", "empty", "n255", "n256", "with_region", "none", "len0", "len256", "type0", "badmsgtype"}, kf \in BOOLEAN}
Valid(b, s) == s.cls \in Classes(s.op)

Emit == \A b \in {"net", "vsock", "vdpa"}, n \in 1..3, acked \in {{}, {1}, {0, 2}, {1, 2, 3}} :
          (b # "vdpa" => acked = {}) =>
            \A s \in Steps(b) : Valid(b, s) =>
              PrintT(<<"CASE", ToJson([backend |-> b, nregions |-> n, acked |-> acked, steps |-> <<s>>])>>)
\* feature acknowledgement through the API changes the layout of later IOTLB messages
EmitHist == \A v1 \in {{}, {1}, {2}, {1, 2}}, v2 \in {{}, {1}}, kf \in BOOLEAN :
          PrintT(<<"CASE", ToJson([backend |-> "vdpa", nregions |-> 1, acked |-> {},
              steps |-> <<[op |-> "set_backend_features", cls |-> "ok", kfail |-> FALSE, v |-> v1], [op |-> "iotlb_send", cls |-> "ok", kfail |-> FALSE, v |-> {}],
                          [op |-> "set_backend_features", cls |-> "ok", kfail |-> kf, v |-> v2], [op |-> "vdpa_dma_map", cls |-> "ok", kfail |-> FALSE, v |-> {}],
                          [op |-> "vdpa_dma_unmap", cls |-> "ok", kfail |-> FALSE, v |-> {}]>>])>>)
Init == done = FALSE /\ Emit /\ EmitHist
Next == ~done /\ done' = TRUE
Spec == Init /\ [][Next]_done

\* catalogue sanity: request numbers are pairwise distinct except the documented get/set pairs
Distinct == \A a \in IoctlNames, b \in IoctlNames : a # b => Req(Ioctl(a)) # Req(Ioctl(b))
AllOpsMapped == \A op \in KernOps \cup NetOps \cup VsockOps \cup (VdpaOps \ {"iotlb_send", "vdpa_dma_map", "vdpa_dma_unmap", "iotlb_parse_v1", "iotlb_parse_v2"}) :
                    OpIoctl(op) \in IoctlNames
=============================================================================
