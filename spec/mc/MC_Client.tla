------------------------------ MODULE MC_Client ------------------------------
(***************************************************************************)
(* FrontendEndpoint against a peer that answers correctly ("auto") or with *)
(* one deviation.  Explores every (frontend negotiation state, call, peer  *)
(* behaviour) transition and prints it as a stimulus for engine "client".  *)
(***************************************************************************)
EXTENDS FrontendEndpoint, Json, Sequences, FiniteSets
CONSTANTS ApfMode, MaxDepth
VARIABLES fe, hist

ApfChoices ==
    IF ApfMode = "quick"
    THEN {{}, GatingBits} \cup {GatingBits \ {b} : b \in GatingBits}
    ELSE {{}} \cup {{b} : b \in GatingBits} \cup {GatingBits} \cup {GatingBits \ {b} : b \in GatingBits}
         \cup {{PF_REPLY_ACK, b} : b \in GatingBits}

ArgClasses(op) == (IF op = "set_log_base" THEN {"shmfd", "legacy"} ELSE {"ok"}) \cup LocalRejectClasses(op)
                  \cup (IF op \in {"get_config", "set_config"} THEN {"max"} ELSE {})
                  \cup (IF op = "set_mem_table" THEN {"n32"} ELSE {})

\* deviations that make sense for a reply / an acknowledgement
HeaderMutations == {"code+1", "code=0", "code=999", "flag-reply", "flag+need_reply", "ver0", "ver2", "resv",
                    "size-1", "size+1", "size_field=0", "size_field>max", "body_short", "fds+1", "fds+2", "fds+1_seg", "random", "silent"}
ReplyMutations(op) ==
    (HeaderMutations \ (IF OpCode(op) \in {GET_SHARED_OBJECT} THEN {"size-1", "body_short"} ELSE {}))
    \cup (IF op \in {"get_inflight_fd", "get_shared_object"} THEN {"fds-1", "fds_late"} ELSE {})
    \cup (IF op \in {"get_config", "get_inflight_fd", "set_log_base", "get_queue_num", "set_device_state_fd", "check_device_state"}
          THEN {"body_invalid"} ELSE {})
    \cup (IF op = "get_config" THEN {"config_offset"} ELSE {})
AckMutations == HeaderMutations \cup {"nack", "nack_hi"}

Calls == {[op |-> "set_features", cls |-> "ok", v |-> v, rv |-> {}] : v \in {{}, {VF_PROTOCOL_FEATURES}}}
    \cup {[op |-> "set_protocol_features", cls |-> "ok", v |-> v, rv |-> {}] : v \in ApfChoices}
    \cup {[op |-> "get_features", cls |-> "ok", v |-> {}, rv |-> rv] : rv \in {{}, {VF_PROTOCOL_FEATURES}}}
    \cup {[op |-> "get_protocol_features", cls |-> "ok", v |-> {}, rv |-> GatingBits]}
    \cup {[op |-> "set_device_state_fd", cls |-> "ok", v |-> {}, rv |-> rv] : rv \in {{}, {0}}}
    \cup UNION {{[op |-> op, cls |-> cls, v |-> {}, rv |-> {}] : cls \in ArgClasses(op)} :
                  op \in FeOps \ {"set_features", "set_protocol_features", "get_features", "get_protocol_features", "set_device_state_fd"}}

vars == <<fe, hist>>
Init == fe = FeInit /\ hist = <<>>

Emit(h2, fx) == PrintT(<<"CASE", ToJson([steps |-> h2, await |-> fx.await, act |-> fx.act])>>)

SetFlags(nr) == /\ fe.nr # nr /\ Len(hist) < MaxDepth
                /\ fe' = [fe EXCEPT !.nr = nr]
                /\ hist' = Append(hist, [op |-> "set_hdr_flags", nr |-> nr])

Call(c, peer) ==
    LET fx == FeExpect(fe, c.op, c.cls, c.v)
        h2 == Append(hist, [op |-> c.op, cls |-> c.cls, v |-> c.v, rv |-> c.rv, peer |-> peer])
    IN /\ Len(hist) < MaxDepth
       /\ (peer \notin {"auto", "gone"} => ((fx.await = "reply" /\ peer \in ReplyMutations(c.op)) \/ (fx.await = "ack" /\ peer \in AckMutations)))
       \* "gone": the peer has shut the connection down before the call is made (the request cannot be sent)
       /\ (peer = "gone" => fx.act = "send")
       /\ IF peer = "auto"
          THEN fe' = FeNext(fe, c.op, c.cls, c.v, VF_PROTOCOL_FEATURES \in c.rv, TRUE)
          ELSE fe' = fe    \* the connection is over after a deviating reply
       /\ hist' = h2
       /\ Emit(h2, fx)

Next == (\E c \in Calls, p \in {"auto", "gone"} \cup HeaderMutations \cup {"fds-1", "body_invalid", "config_offset", "nack", "nack_hi"} : Call(c, p))
        \/ (\E nr \in BOOLEAN : SetFlags(nr))
Spec == Init /\ [][Next]_vars

\* C07 on the model: whatever the history, a gated operation is sent only after its feature was
\* acknowledged (checked for every operation in every reachable state).
GateSound ==
    \A op \in FeOps :
        LET cls == IF op = "set_log_base" THEN "shmfd" ELSE "ok"
            fx == FeExpect(fe, op, cls, {}) IN
        (fx.act = "send") =>
            /\ (FeGate(OpCode(op)) # -1 /\ op # "set_log_base" => FeGate(OpCode(op)) \in fe.apf)
            /\ (op = "set_vring_enable" => fe.avfPF)
            /\ (op \in {"get_protocol_features", "set_protocol_features"} => fe.vfPF)
            /\ (op \in {"set_device_state_fd", "check_device_state"} => PF_DEVICE_STATE \in fe.apf)
\* the descriptor-carrying SET_LOG_BASE form needs LOG_SHMFD
LogFormSound == LogBaseForm(fe, "shmfd") = "shmfd" => PF_LOG_SHMFD \in fe.apf
\* (TLC refuted "avfPF => vfPF": the backend may withdraw the offer in a later GET_FEATURES reply;
\*  the acknowledgement is tied to the offer seen at set_features time, see FeNext.)

View == fe
=============================================================================
