----------------------------- MODULE MC_RingCfg -----------------------------
(* RingConfig: all letter histories to a small depth (after a fixed start-up prefix) as stimuli. *)
EXTENDS RingConfig, Json, TLC
CONSTANT MaxDepth
VARIABLES s, hist

Idx == {0, 1, 2, 255}
L(op, q, n, bits, fd, u) == [op |-> op, q |-> q, n |-> n, bits |-> bits, fd |-> fd, usedIdx |-> u]
Letters ==
    {L("set_vring_num", q, n, {}, "", 0) : q \in Idx, n \in {0, 1, 2, 3, 128, 256, 257, 65535}}
    \cup {L("set_vring_base", q, n, {}, "", 0) : q \in Idx, n \in {0, 1, 32767, 65535}}
    \cup {L("get_vring_base", q, 0, {}, "", 0) : q \in Idx}
    \cup {L("set_mem_table", 0, r, {}, "", 0) : r \in {0, 4}}
    \cup {L("set_vring_addr", q, 0, {}, "", u) : q \in Idx, u \in {0, 1, 65535}}
    \cup {L("set_vring_addr", q, 1, {}, "", 0) : q \in {0, 1}}
    \* n = 2: addresses inside the user range of a region whose ADD_MEM_REG was refused before the history began (it is not part
    \* of the table: nothing may be translated through it)
    \cup {L("set_vring_addr", q, 2, {}, "", 0) : q \in {0, 1}}
    \cup {L("set_features", 0, 0, b, "", 0) : b \in {{}, {29}, {30}, {29, 30}, {0, 26, 29, 30, 32}, {1}, {29, 31}}}
    \cup {L("set_protocol_features", 0, 0, b, "", 0) : b \in SUBSET {1, 3, 18, 21}}
    \cup {L("brfd", 0, 0, {}, "", 0)}
    \cup {L("set_vring_call", q, 0, {}, fd, 0) : q \in {0, 1, 2}, fd \in {"new", "none"}}
    \cup {L("use_ring", q, 0, {}, "", 0) : q \in Rings}

vars == <<s, hist>>
Init == s = [RcInit EXCEPT !.hasMem = TRUE, !.memGen = 1] /\ hist = <<>>
Step(a) == /\ Len(hist) < MaxDepth
           /\ s' = RcApply(s, a)
           /\ hist' = Append(hist, a)
           /\ (Len(hist) + 1 = MaxDepth => PrintT(<<"CASE", ToJson([steps |-> Append(hist, a)])>>))
Next == \E a \in Letters : Step(a)
Spec == Init /\ [][Next]_vars
\* model-level: ring sizes are always powers of two within the maximum; acknowledged features are offered ones
SizesOk == \A q \in Rings : IsPow2(s.size[q]) /\ s.size[q] <= MAXQ
AckedOffered == s.acked \subseteq Offered
=============================================================================
