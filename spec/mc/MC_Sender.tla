----------------------------- MODULE MC_Sender -----------------------------
(* Model-checks Sender for one message (length, descriptor count) and prints the partial-write scripts:
   the socket accepts the message in the parts given by 0..2 cut points out of Cuts (3 in thorough), with a
   refused attempt (EAGAIN or EINTR) before any one part, twice before the first, or nowhere. *)
EXTENDS Sender, Json, TLC, FiniteSets
CONSTANTS Cuts,      \* interesting offsets inside the message: 1, iovec boundaries -1/0/+1, L-1
          Name, Tier

CutSets == {S \in SUBSET Cuts : Cardinality(S) <= (IF Tier = "thorough" THEN 3 ELSE 2)}
\* sorted sequence of a finite set of naturals
RECURSIVE Sorted(_)
Sorted(S) == IF S = {} THEN <<>> ELSE LET m == CHOOSE x \in S : \A y \in S : x <= y IN <<m>> \o Sorted(S \ {m})
\* sizes of the parts for cut points c1 < c2 < ..: c1, c2-c1, ..  (the last part is whatever remains: not scripted)
Parts(cs) == [i \in 1..Len(cs) |-> IF i = 1 THEN cs[1] ELSE cs[i] - cs[i - 1]]
InsertAt(s, i, v) == SubSeq(s, 1, i - 1) \o <<v>> \o SubSeq(s, i, Len(s))
Scripts(S) == LET p == Parts(Sorted(S)) IN
              {p} \cup {InsertAt(p, i, 0) : i \in 1..(Len(p) + 1)} \cup {<<0, 0>> \o p}
ByteWise == IF L <= 64 THEN {[i \in 1..(L - 1) |-> 1]} ELSE {}

Stimuli == \A S \in CutSets : \A sc \in Scripts(S) \cup ByteWise : \A ei \in BOOLEAN :
              PrintT(<<"CASE", ToJson([name |-> Name, len |-> L, nf |-> NF, script |-> sc, eintr |-> ei])>>)
MCInit == SInit /\ Stimuli
\* short messages: every accepted size; long ones: every jump to one of the interesting offsets (or a refusal)
KS(o) == IF L <= 64 THEN 0..(L - o) ELSE {0} \cup {c - o : c \in {x \in Cuts \cup {L} : x > o}}
MCNext == (\E k \in KS(off) : Attempt(k)) \/ Finish
MCSpec == MCInit /\ [][MCNext]_svars /\ WF_svars(Finish)
Terminates == <>done \/ []<>(ENABLED \E k \in 0..L : Attempt(k))
=============================================================================
