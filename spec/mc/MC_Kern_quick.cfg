SPECIFICATION Spec
CONSTANTS Tier = "quick"
INVARIANTS Distinct AllOpsMapped
CHECK_DEADLOCK FALSE
