SPECIFICATION Spec
CONSTANTS Scenario = "stop_restart"
 MaxKicks = 2
 Script <- ScriptDef
INVARIANT Emit
CHECK_DEADLOCK FALSE
