SPECIFICATION Spec
CONSTANTS Scenario = "enable_disable_enable"
 MaxKicks = 1
 Script <- ScriptDef
INVARIANT Emit
CHECK_DEADLOCK FALSE
