SPECIFICATION Spec
CONSTANTS Tier = "thorough"
CHECK_DEADLOCK FALSE
