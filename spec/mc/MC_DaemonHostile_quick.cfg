SPECIFICATION MCSpec
CONSTANT Tier = "quick"
CHECK_DEADLOCK FALSE
