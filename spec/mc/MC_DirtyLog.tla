---------------------------- MODULE MC_DirtyLog ----------------------------
(* Histories of {memory-table changes, SET_LOG_BASE, writes} for C15, as stimuli; model-level sanity. *)
EXTENDS DirtyLog, Json, TLC
CONSTANT MaxDepth
VARIABLES table, logS, hist, rej, logKey, stale, resent

\* write classes: (offset class, length class) relative to the region
WOff == {"0", "1", "4095", "end-1", "end-4096"}
WLen == {"0", "1", "2", "4096", "4097", "8192", "huge"}
Tables == {<<0>>, <<0, 1>>, <<1, 2>>, <<0, 1, 2, 3>>, <<2>>, <<4>>, <<3, 4>>}
Letters ==
    {[op |-> "set_mem_table", rids |-> T, rid |-> 0, S |-> 0, off |-> 0, wo |-> "", wl |-> ""] : T \in Tables}
    \cup {[op |-> "add_mem_reg", rids |-> <<>>, rid |-> r, S |-> 0, off |-> 0, wo |-> "", wl |-> ""] : r \in DPool}
    \cup {[op |-> "set_log_base", rids |-> <<>>, rid |-> 0, S |-> S, off |-> off, wo |-> "", wl |-> ""] : S \in {1, 2, 3, 5, 4096}, off \in {0, 4096, 40, 4136}}
    \cup {[op |-> "write", rids |-> <<>>, rid |-> r, S |-> 0, off |-> 0, wo |-> wo, wl |-> wl] : r \in DPool, wo \in WOff, wl \in WLen}
    \cup {[op |-> "use_ring", rids |-> <<>>, rid |-> 0, S |-> 0, off |-> 0, wo |-> "", wl |-> ""]}

SeqSet(L) == {L[i] : i \in 1..Len(L)}
vars == <<table, logS, hist, rej, logKey, stale, resent>>
Init == table = {} /\ logS = 0 /\ hist = <<>> /\ rej = FALSE /\ logKey = <<0, 0>> /\ stale = FALSE /\ resent = FALSE
Step(a) ==
    /\ Len(hist) < MaxDepth
    /\ (a.op = "write" => a.rid \in table)
    /\ (a.op = "use_ring" => 0 \in table)
    /\ (a.op = "add_mem_reg" => a.rid \notin table /\ \A x \in table : DHi(x) <= DLo(a.rid) \/ DHi(a.rid) <= DLo(x))
    /\ table' = CASE a.op = "set_mem_table" -> SeqSet(a.rids) [] a.op = "add_mem_reg" -> table \cup {a.rid} [] OTHER -> table
    /\ logS' = IF a.op = "set_log_base" /\ LogVerdictAt(table, a.S, a.off) # "must_fail" THEN a.S ELSE logS
    \* a refused SET_LOG_BASE while a log is in force changes nothing in the model -- but histories that pass through one
    \* are kept apart (rej is part of the view), because an implementation may leave something behind on that error path
    /\ rej' = (rej \/ (a.op = "set_log_base" /\ logS > 0 /\ LogVerdictAt(table, a.S, a.off) # "must_ok"))
    \* the very window that is in force, sent again after the table has changed (a frontend re-sends its log on every (re)start):
    \* the model's state after it equals one reached without the detour, so these histories are kept apart as well
    /\ LET acc == a.op = "set_log_base" /\ LogVerdictAt(table, a.S, a.off) # "must_fail" IN
       /\ logKey' = IF acc THEN <<a.S, a.off>> ELSE logKey
       /\ stale' = IF acc THEN FALSE ELSE (stale \/ (logS > 0 /\ a.op \in {"set_mem_table", "add_mem_reg"}))
       /\ resent' = (resent \/ (acc /\ stale /\ logS > 0 /\ logKey = <<a.S, a.off>>))
    /\ hist' = Append(hist, a)
    /\ ((a.op \in {"write", "use_ring", "set_log_base"} /\ (logS' > 0 \/ a.op = "set_log_base")) =>
            PrintT(<<"CASE", ToJson([steps |-> Append(hist, a)])>>))
Next == \E a \in Letters : Step(a)
Spec == Init /\ [][Next]_vars
\* model-level: an accepted log always covers every page of the table it was accepted for
View == <<table, logS, Len(hist), rej, stale, resent, IF stale THEN logKey ELSE <<0, 0>>>>
=============================================================================
