---------------------------- MODULE MC_BackendReq ----------------------------
EXTENDS BackendReqChannel, Json, Sequences, FiniteSets
CONSTANT MaxDepth
VARIABLES st, hist, acks, reqs, base

vars == <<st, hist, acks, reqs, base>>

\* --- hostile-input stimuli (C06): one deviation per case --------------------------------
ServerVariants(k) ==
    {"flags.reply", "flags.ver0", "flags.ver2", "flags.resv", "size.short", "size.long", "size.zero", "size.over",
     "code.unknown", "code.zero", "code.unserved", "nfds.2", "nfds.33", "random"}
    \cup (IF k \in {6, 7, 8} THEN {"body.nil", "body.max"} ELSE {"body.len0", "body.fd_wrap", "body.shm_wrap", "body.flags_undef"})
    \cup (IF k \in {8, 9} THEN {"nfds.0"} ELSE {"nfds.1"})
AckMutations == {"code+1", "code=0", "code=999", "flag-reply", "ver0", "ver2", "resv", "size-1", "size_field>max",
                 "body_short", "fds+1", "random", "silent", "val=2^32", "val=2^63", "val=-2^32"}
F(f, b) == [t |-> "flag", f |-> f, b |-> b, k |-> 0, r |-> ""]
\* the one body-less request the server serves (CONFIG_CHANGE_MSG = 2): only header mutations apply
ConfigChangeVariants == {"flags.reply", "flags.ver0", "flags.ver2", "flags.resv", "size.long", "size.over", "nfds.1", "nfds.2"}
Hostile ==
    /\ \A v \in ConfigChangeVariants, hra \in BOOLEAN :
          PrintT(<<"HCASE", ToJson([mode |-> "rawsrv", steps |-> <<F("hra", hra), [t |-> "req", k |-> 2, r |-> "zero", var |-> v]>>])>>)
    /\ \A k \in BeKinds : \A v \in ServerVariants(k), hra \in BOOLEAN :
          PrintT(<<"HCASE", ToJson([mode |-> "rawsrv", steps |-> <<F("hra", hra), [t |-> "req", k |-> k, r |-> "zero", var |-> v]>>])>>)
    /\ \A k \in BeKinds, p \in AckMutations :
          PrintT(<<"HCASE", ToJson([mode |-> "rawpeer", steps |-> <<F("so", TRUE), F("sh", TRUE), F("hra", TRUE), F("ra", TRUE),
                                                                   [t |-> "req", k |-> k, r |-> "zero", peer |-> p]>>])>>)

\* A history starts from any consistent setting of the four flags (reached by a prefix of flag letters that does not count
\* towards the depth): switching a setting off again, or on late, is then within reach of short histories.
FlagOrder == <<"hra", "so", "sh", "ra">>
Prefix(s0) == LET Rec(i) == IF s0[FlagOrder[i]] THEN <<F(FlagOrder[i], TRUE)>> ELSE <<>> IN Rec(1) \o Rec(2) \o Rec(3) \o Rec(4)
Init == /\ \E s0 \in [ra : BOOLEAN, so : BOOLEAN, sh : BOOLEAN, hra : BOOLEAN] :
             Consistent(s0) /\ st = s0 /\ hist = Prefix(s0) /\ base = Len(Prefix(s0))
        /\ acks = <<>> /\ reqs = <<>> /\ Hostile

SetFlag(f, b) ==
    \* (also the call that changes nothing -- switching off what is off, on what is on: the model's state stays, the history grows)
    /\ Len(hist) < MaxDepth + base
    /\ Consistent([st EXCEPT ![f] = b])
    /\ st' = [st EXCEPT ![f] = b]
    /\ hist' = Append(hist, [t |-> "flag", f |-> f, b |-> b, k |-> 0, r |-> ""])
    /\ UNCHANGED <<acks, reqs, base>>

Req(k, r) ==
    LET e == BeExpect(st, k, r)
        h2 == Append(hist, [t |-> "req", f |-> "", b |-> FALSE, k |-> k, r |-> r]) IN
    /\ Len(hist) < MaxDepth + base
    /\ hist' = h2
    /\ acks' = IF e.ack # "none" THEN Append(acks, k) ELSE acks
    /\ reqs' = IF e.wire /\ st.ra THEN Append(reqs, k) ELSE reqs
    /\ PrintT(<<"CASE", ToJson([steps |-> h2, base |-> base])>>)
    /\ UNCHANGED <<st, base>>

Next == (\E f \in {"ra", "so", "sh", "hra"}, b \in BOOLEAN : SetFlag(f, b))
        \/ (\E k \in BeKinds, r \in BeResults : Req(k, r))
Spec == Init /\ [][Next]_vars

\* C18 on the model: the k-th acknowledgement answers the k-th request that asked for one
InStep == acks = reqs
\* C07 on the model: nothing goes out for a kind whose feature is not enabled
Gated == \A k \in BeKinds : BeExpect(st, k, "zero").wire => BeEnabled(st, k)
=============================================================================
