----------------------------- MODULE MC_Session -----------------------------
EXTENDS Session, Json, Sequences, FiniteSets
CONSTANTS ApfMode, MaxDepth
VARIABLES fe, srv, devPF, hist, predicted

ApfChoices ==
    IF ApfMode = "quick"
    THEN {{}, GatingBits} \cup {GatingBits \ {b} : b \in GatingBits}
    ELSE {{}} \cup {{b} : b \in GatingBits} \cup {GatingBits} \cup {GatingBits \ {b} : b \in GatingBits}
         \cup {{PF_REPLY_ACK, b} : b \in GatingBits}

ArgClasses(op) == {"ok"} \cup LocalRejectClasses(op)
                  \cup (IF op = "set_log_base" THEN {"shmfd", "legacy"} ELSE {})
                  \* the largest payload a message can carry / the largest table
                  \cup (IF op \in {"get_config", "set_config"} THEN {"max"} ELSE {})
                  \cup (IF op = "set_mem_table" THEN {"n32"} ELSE {})

Shapes(op) == {""} \cup UnusableShapes(op) \cup (IF op = "set_device_state_fd" THEN {"file"} ELSE {})

Calls ==
    {[op |-> "set_features", cls |-> "ok", v |-> v, h |-> "ok", shape |-> ""] : v \in {{}, {VF_PROTOCOL_FEATURES}}}
    \cup {[op |-> "set_protocol_features", cls |-> "ok", v |-> v, h |-> "ok", shape |-> ""] : v \in ApfChoices}
    \cup {[op |-> "get_features", cls |-> "ok", v |-> {}, h |-> h, shape |-> ""] : h \in {"ok", "fail"}}
    \cup {[op |-> op, cls |-> cls, v |-> {}, h |-> h, shape |-> sh] :
             op \in FeOps \ {"set_features", "set_protocol_features", "get_features"},
             cls \in {"ok", "shmfd", "legacy", "empty", "toomany", "zero_size", "neg_fd", "q_oob", "flags_undef",
                      "size0", "end_gt", "wrap", "toolong", "nil", "max", "nq0", "qs0", "n32"},
             h \in {"ok", "fail"}, sh \in {"", "wronglen", "nofile", "big", "file"}}

ValidCall(c) == /\ c.cls \in ArgClasses(c.op) \ (IF c.op = "set_log_base" THEN {"ok"} ELSE {})
                /\ c.shape \in Shapes(c.op)
                /\ (c.h = "fail" => c.shape = "")

vars == <<fe, srv, devPF, hist, predicted>>

Init == /\ fe = FeInit /\ srv = SrvInit /\ devPF \in BOOLEAN /\ hist = <<>> /\ predicted = "ok"

Emit(h2, o) == PrintT(<<"CASE", ToJson([dev |-> [vf |-> IF devPF THEN {VF_PROTOCOL_FEATURES} ELSE {}, pf |-> GatingBits],
                                         steps |-> h2, predicted |-> o.result, called |-> o.called])>>)

SetFlags(nr) == /\ fe.nr # nr
                /\ Len(hist) < MaxDepth
                /\ fe' = [fe EXCEPT !.nr = nr]
                /\ hist' = Append(hist, [op |-> "set_hdr_flags", nr |-> nr])
                /\ UNCHANGED <<srv, devPF, predicted>>

Call(c) ==
    LET o == SessOutcome(fe, srv, devPF, c.op, c.cls, c.v, c.h, c.shape)
        h2 == Append(hist, c)
        ok == o.result = "ok"
    IN /\ ValidCall(c)
       /\ Len(hist) < MaxDepth
       /\ fe' = SessNextFe(fe, c.op, c.cls, c.v, devPF, ok)
       /\ srv' = SessNextSrv(fe, srv, devPF, c.op, c.cls, c.v, c.h)
       /\ hist' = h2
       /\ predicted' = o.result
       /\ Emit(h2, o)
       /\ UNCHANGED devPF

Next == (\E c \in Calls : Call(c)) \/ (\E nr \in BOOLEAN : SetFlags(nr))
Spec == Init /\ [][Next]_vars

\* Both ends agree on the negotiation state whenever the frontend learned the features from
\* the backend (the frontend cannot acknowledge what was not offered).
Agree == /\ fe.avfPF => srv.avfPF
         /\ fe.apf # {} => fe.apf = srv.apf

\* C02/C07 on the model: a call the frontend rejects never reaches the wire (by construction of
\* SessOutcome) and a call it sends is dispatched unless the server-side gate is stricter.
NoStray == predicted # "stray"

View == <<fe, srv, devPF>>
=============================================================================
