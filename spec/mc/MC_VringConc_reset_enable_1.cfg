SPECIFICATION Spec
CONSTANTS Scenario = "reset_enable"
 MaxKicks = 1
 Script <- ScriptDef
INVARIANT Emit
CHECK_DEADLOCK FALSE
