SPECIFICATION Spec
CONSTANTS Tier = "thorough"
INVARIANT Sanity
CHECK_DEADLOCK FALSE
