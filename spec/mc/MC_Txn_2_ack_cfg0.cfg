SPECIFICATION Spec
CONSTANTS MayCrash = FALSE
          N = 2
          K1 = "ack"
          K2 = "cfg0"
          K3 = "ff"
          Threads <- ThreadsDef
          Kind <- KindDef
INVARIANTS Indivisible OwnAnswer ConsumesItsAnswer NoDeadlock Emit
PROPERTY Termination
CHECK_DEADLOCK FALSE
