SPECIFICATION Spec
CONSTANTS Scenario = "reset_enable"
 MaxKicks = 1
 Script <- ScriptDef
INVARIANTS P2 Alive
CHECK_DEADLOCK FALSE
