SPECIFICATION Spec
CONSTANTS Scenario = "stop_only"
 MaxKicks = 1
 Script <- ScriptDef
INVARIANTS P2 Alive
CHECK_DEADLOCK FALSE
