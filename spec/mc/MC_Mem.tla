------------------------------- MODULE MC_Mem -------------------------------
EXTENDS MemTable, Json, TLC
CONSTANTS MaxDepth, MaxList, UseView
VARIABLES table, hist

Lists == UNION {[1..n -> Pool] : n \in 1..MaxList}
Letters == {[op |-> "set_mem_table", rids |-> L, rid |-> 0, bad |-> b, delta |-> 0] : L \in Lists, b \in BOOLEAN}
           \cup {[op |-> "add_mem_reg", rids |-> <<>>, rid |-> r, bad |-> b, delta |-> 0] : r \in Pool, b \in BOOLEAN}
           \cup {[op |-> "rem_mem_reg", rids |-> <<>>, rid |-> r, bad |-> FALSE, delta |-> d] : r \in Pool, d \in {0, 4096}}

vars == <<table, hist>>
Init == table = {} /\ hist = <<>>

\* the model follows the mandatory outcomes; an "open" table (unsorted) is explored both ways
Step(a, accepted) ==
    LET v == CASE a.op = "set_mem_table" -> SetVerdict(a.rids, a.bad)
               [] a.op = "add_mem_reg" -> AddVerdict(table, a.rid, a.bad)
               [] OTHER -> RemVerdict(table, a.rid, a.delta) IN
    /\ Len(hist) < MaxDepth
    /\ (v = "must_ok" => accepted) /\ (v = "must_fail" => ~accepted)
    /\ table' = IF ~accepted THEN table
                ELSE CASE a.op = "set_mem_table" -> SeqToSet(a.rids)
                       [] a.op = "add_mem_reg" -> table \cup {a.rid}
                       [] OTHER -> RemResult(table, a.rid)
    /\ hist' = Append(hist, a)
    /\ PrintT(<<"CASE", ToJson([steps |-> Append(hist, a)])>>)

Next == \E a \in Letters, acc \in BOOLEAN : Step(a, acc)
Spec == Init /\ [][Next]_vars

\* the table never holds two overlapping regions
NoOverlap == \A a, b \in table : a # b => ~Overlap(a, b)
View == IF UseView THEN <<table, <<>>>> ELSE <<table, hist>>
=============================================================================
