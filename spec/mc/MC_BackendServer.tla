------------------------- MODULE MC_BackendServer -------------------------
(***************************************************************************)
(* Bounded instance of BackendServer for TLC:                              *)
(*  - explores every reachable negotiation state x every request letter    *)
(*    (transition coverage; `hist` and the wire history are hidden by VIEW)*)
(*  - checks the in-step property of C04 on the reference model: the k-th  *)
(*    message on the wire answers the k-th request that required one       *)
(*  - prints every (shortest history, letter) pair as a stimulus           *)
(***************************************************************************)
EXTENDS BackendServer, Json, Sequences, FiniteSets

CONSTANTS ApfMode,     \* "quick" | "thorough" : which acknowledged-feature sets are explored
          MaxDepth,    \* bound on history length (beyond transition coverage)
          NegFail      \* may the handler of a negotiation request (SET_FEATURES / SET_PROTOCOL_FEATURES) fail?  What the frontend
                       \* acknowledged is what it sent, whatever the device says to it (statement of C04: "REPLY_ACK acknowledged")

VARIABLES s, devPF, hist, wire, needs

ApfChoices ==
    IF ApfMode = "quick"
    THEN {{}} \cup {{b} : b \in GatingBits} \cup {GatingBits} \cup {GatingBits \ {b} : b \in GatingBits}
    ELSE {S \in SUBSET GatingBits : Cardinality(S) <= 2 \/ Cardinality(S) >= Cardinality(GatingBits) - 2}

NegOutcomes == IF NegFail THEN {"ok", "fail"} ELSE {"ok"}
NegotiationLetters ==
    {[c |-> GET_FEATURES, nr |-> FALSE, h |-> "ok", v |-> {}]}
    \cup {[c |-> SET_FEATURES, nr |-> nr, h |-> h, v |-> v] : nr \in BOOLEAN, v \in {{}, {VF_PROTOCOL_FEATURES}}, h \in NegOutcomes}
    \cup {[c |-> SET_PROTOCOL_FEATURES, nr |-> nr, h |-> h, v |-> v] : nr \in BOOLEAN, v \in ApfChoices, h \in NegOutcomes}

ProbeLetters ==
    {[c |-> c, nr |-> nr, h |-> h, v |-> {}] :
        c \in FeCodes \ {SET_FEATURES, SET_PROTOCOL_FEATURES}, nr \in BOOLEAN, h \in {"ok", "fail"}}

Letters == NegotiationLetters \cup ProbeLetters

vars == <<s, devPF, hist, wire, needs>>

Init == /\ s = SrvInit
        /\ devPF \in BOOLEAN
        /\ hist = <<>>
        /\ wire = <<>>
        /\ needs = <<>>

Emit(h2) == PrintT(<<"CASE", ToJson([dev |-> [vf |-> IF devPF THEN {VF_PROTOCOL_FEATURES} ELSE {}, pf |-> {}],
                                       steps |-> h2])>>)

Step(a) ==
    LET e  == SrvExpect(s, a, devPF)
        h2 == Append(hist, [c |-> a.c, nr |-> a.nr, h |-> a.h, v |-> a.v, var |-> "valid"])
    IN /\ Len(hist) < MaxDepth
       /\ s' = SrvNext(s, a, devPF)
       /\ hist' = h2
       /\ wire' = IF e.out # "none" THEN Append(wire, a.c) ELSE wire
       /\ needs' = IF SrvAnswers(s, a, devPF) THEN Append(needs, a.c) ELSE needs
       /\ Emit(h2)
       /\ UNCHANGED devPF

Next == \E a \in Letters : Step(a)

Spec == Init /\ [][Next]_vars

\* C04 on the model: replies and requests stay in step over any history.
InStep == /\ Len(wire) = Len(needs)
          /\ \A k \in 1..Len(wire) : wire[k] = needs[k]

\* C07 on the model: a gated request is dispatched only after its feature was acknowledged.
GateSound ==
    \A c \in FeCodes :
        (SrvExpect(s, [c |-> c, nr |-> FALSE, h |-> "ok", v |-> {}], devPF).disp = "dispatch")
            => /\ (FeGate(c) # -1 => FeGate(c) \in s.apf)
               /\ (FeNeedsVirtioPF(c) => s.avfPF)

\* Reply-ack is in force only if PF was offered and REPLY_ACK acknowledged.
AckSound ==
    \A c \in FeServed \ FeHasReply :
        (SrvExpect(s, [c |-> c, nr |-> TRUE, h |-> "ok", v |-> {}], devPF).out = "ack0")
            => (s.vfPF /\ PF_REPLY_ACK \in s.apf) \/ c \in {SET_PROTOCOL_FEATURES}

View == <<s, devPF>>
=============================================================================
