SPECIFICATION Spec
CONSTANTS NCallers = 1
 PeerSends = "nothing"
 PeerCloses = TRUE
 Callers <- CallersDef
INVARIANTS ShutdownThenOk NoShutdownDisconnectIsErr PeerSeesEof Emit
PROPERTY ExitsAfterShutdown
CHECK_DEADLOCK FALSE
