SPECIFICATION Spec
CONSTANTS MaxDepth = 4
INVARIANTS InStep Gated
CHECK_DEADLOCK FALSE
