SPECIFICATION Spec
CONSTANTS MaxDepth = 5
INVARIANTS InStep Gated
CHECK_DEADLOCK FALSE
