------------------------------ MODULE MC_FdFate ------------------------------
(* transition coverage (history hidden by the VIEW) and all histories to MaxDepth of the descriptor-fate model *)
EXTENDS FdFate, Json, TLC
CONSTANTS MaxDepth, MaxSent
VARIABLES s, hist
vars == <<s, hist>>
Qs == Rings \cup {NQ + 5}       \* one ring index the device does not have
Letters == [op : {"set"}, role : {"kick"}, q : Qs, kind : KickKinds \cup {"none"}]
           \cup [op : {"set"}, role : {"call", "err"}, q : Qs, kind : AllKinds \cup {"none"}]
           \cup [op : {"base"}, q : Qs] \cup {[op |-> "reconnect"]}
Init == s = FfInit /\ hist = <<>>
Step(a) == /\ Len(hist) < MaxDepth /\ s.sent < MaxSent
           /\ (a.op = "reconnect" => s.dead) /\ (a.op # "reconnect" => ~s.dead)
           /\ s' = FfNext(s, a) /\ hist' = Append(hist, a)
           /\ PrintT(<<"CASE", ToJson([steps |-> hist'])>>)
Next == \E a \in Letters : Step(a)
Spec == Init /\ [][Next]_vars
View == <<[q \in Rings |-> [r \in Roles |-> s.slot[q][r].kind]], s.dead>>
\* a descriptor occupies at most one slot; nothing that was not sent occupies one
OneSlotEach == \A q1, q2 \in Rings, r1, r2 \in Roles :
    (s.slot[q1][r1].tok # 0 /\ s.slot[q1][r1].tok = s.slot[q2][r2].tok) => (q1 = q2 /\ r1 = r2)
OnlySent == Held(s) \subseteq 1..s.sent
\* the daemon never holds more descriptors than it has slots
Bounded == Cardinality(Held(s)) <= 3 * NQ
=============================================================================
