SPECIFICATION Spec
CONSTANT NQ = 2
CONSTANT MaxDepth = 3
CONSTANT MaxSent = 12
INVARIANT OneSlotEach
INVARIANT OnlySent
INVARIANT Bounded
CHECK_DEADLOCK FALSE
