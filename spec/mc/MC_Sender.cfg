SPECIFICATION MCSpec
CONSTANTS L = 20
          NF = 1
          Cuts = {1, 11, 12, 13, 19}
          Name = "fe/set_vring_kick"
          Tier = "quick"
INVARIANTS PrefixAlways ExactlyOnceInOrder FdsWithFirstByteOnly NeverBeyond
CHECK_DEADLOCK FALSE
