------------------------------ MODULE Ownership ------------------------------
(***************************************************************************)
(* Session ownership in the daemon's request handler (VhostUserHandler):   *)
(* SET_OWNER claims the device (a second claim is refused), RESET_OWNER    *)
(* releases it and forgets the acknowledged features -- in the daemon's    *)
(* handler only: the request server (BackendReqHandler) of the connection  *)
(* keeps its own copy, so after RESET_OWNER a ring-enable request still    *)
(* passes the server's gate and is refused by the handler.  The handler    *)
(* outlives connections; the server is per connection; the daemon ends a   *)
(* connection after any request that fails.  (Beyond the listed            *)
(* properties; shaped after handler.rs set_owner / reset_owner /           *)
(* set_vring_enable and lib.rs.)                                           *)
(***************************************************************************)
EXTENDS Naturals, Sequences

\* owned, hPF: handler state (survives connections); rPF, rAck: request-server state of the current connection
\* (PROTOCOL_FEATURES acknowledged; REPLY_ACK in force); dead: the daemon has stopped serving this connection
OwInit == [owned |-> FALSE, hPF |-> FALSE, rPF |-> FALSE, rAck |-> FALSE, dead |-> FALSE]

Letters == {"negotiate", "set_owner", "reset_owner", "enable", "reconnect"}

Outcome(s, a) ==
    CASE a = "set_owner" -> IF s.owned THEN "fail" ELSE "ok"
      [] a = "enable" -> IF ~s.rPF THEN "refused" ELSE IF s.hPF THEN "ok" ELSE "fail"
      [] OTHER -> "ok"

\* what the frontend observes for letter a: "ok" (acknowledged, or followed by an answered ping), "nack", "closed"
Status(s, a) ==
    IF a = "reconnect" THEN "ok"
    ELSE IF s.dead THEN "closed"
    ELSE LET o == Outcome(s, a) IN
         IF o = "ok" THEN "ok" ELSE IF o = "fail" /\ s.rAck THEN "nack" ELSE "closed"

OwNext(s, a) ==
    IF a = "reconnect" THEN [s EXCEPT !.rPF = FALSE, !.rAck = FALSE, !.dead = FALSE]
    ELSE IF s.dead THEN s
    ELSE IF Outcome(s, a) # "ok" THEN [s EXCEPT !.dead = TRUE]
    ELSE CASE a = "negotiate" -> [s EXCEPT !.hPF = TRUE, !.rPF = TRUE, !.rAck = TRUE]
           [] a = "set_owner" -> [s EXCEPT !.owned = TRUE]
           [] a = "reset_owner" -> [s EXCEPT !.owned = FALSE, !.hPF = FALSE]
           [] OTHER -> s

\* at most one claim at a time: between two acknowledged claims there is a release
OneOwner(hist, stats) == \A i, j \in 1..Len(hist) :
    (i < j /\ hist[i] = "set_owner" /\ hist[j] = "set_owner" /\ stats[i] = "ok" /\ stats[j] = "ok")
        => \E k \in (i + 1)..(j - 1) : hist[k] = "reset_owner" /\ stats[k] = "ok"
=============================================================================
