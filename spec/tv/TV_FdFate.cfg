SPECIFICATION TVSpec
CONSTANT NQ = 2
INVARIANT Report
POSTCONDITION Post
CHECK_DEADLOCK FALSE
