---------------------------- MODULE TV_Validators ----------------------------
(* Trace validation of engine "valid": the crate's is_valid() verdicts against Validators.tla (C20). *)
EXTENDS Validators, TVCommon
VARIABLES l, viol, judged, cur
tvars == <<l, viol, judged, cur>>

\* which rule a wrongly accepted message breaks (first match), for the signature
BrokenRule(t, m) ==
    CASE t \in {"region", "single_region"} ->
            IF LIsZero(m.size) THEN "zero-size" ELSE IF RangeOK(m.gpa, m.size) = No THEN "guest-range-wraps"
            ELSE IF RangeOK(m.ua, m.size) = No THEN "user-range-wraps" ELSE "mmap-range-wraps"
      [] t \in {"hdr_fe", "hdr_be"} ->
            IF ~U32Max4096(m.size) THEN "size-over-4096" ELSE IF m.flags[1] % 4 # 1 THEN "version"
            ELSE IF ~OnlyBits(m.flags, {0, 1, 2, 3}) THEN "reserved-flag-bits" ELSE "unknown-code"
      [] t = "hdr_gpu" -> IF ~OnlyBits(m.flags, {2}) THEN "undefined-flag-bits" ELSE "unknown-code"
      [] t = "config" -> IF LIsZero(m.size) THEN "zero-size" ELSE IF ~OnlyBits(m.flags, {0, 1}) THEN "undefined-flags"
                         ELSE IF AddOverflows(m.offset, m.size) THEN "32-bit-wrap" ELSE "window-end"
      [] t = "vring_addr" -> IF ~OnlyBits(m.flags, {0}) THEN "undefined-flags" ELSE "alignment"
      [] t = "mmap" -> IF LIsZero(m.len) THEN "zero-length" ELSE IF ~OnlyBits(m.flags, {0}) THEN "undefined-flags" ELSE "offset-wraps"
      [] OTHER -> "rule"

ValViol(e) ==
    LET v == Verdict(e.t, e.m) IN
    IF e.panicked THEN {"C20/" \o e.t \o "/validator-panics/" \o (IF v = No THEN BrokenRule(e.t, e.m) ELSE "on-valid-message")}
    ELSE IF v = Yes /\ ~e.valid THEN {"C20/" \o e.t \o "/rejects-valid"}
    ELSE IF v = No /\ e.valid THEN {"C20/" \o e.t \o "/accepts-invalid/" \o BrokenRule(e.t, e.m)}
    ELSE {}

TVInit == l = 1 /\ viol = {} /\ judged = 0 /\ cur = -1
TVReset == /\ l <= Len(Rec) /\ Rec[l].ev = "reset" /\ cur' = Rec[l].id /\ l' = l + 1 /\ UNCHANGED <<viol, judged>>
TVVal == /\ l <= Len(Rec) /\ Rec[l].ev = "val"
         /\ viol' = AddViol(viol, ValViol(Rec[l]), Rec[l].i)
         /\ judged' = judged + 1 /\ l' = l + 1 /\ UNCHANGED cur
\* the process under test was killed by a signal while this case ran (recorded by the driver; `begin` marks the letter that
\* was in progress): judged like any other observation -- whatever the property, an input that kills the process breaks it
TVCrashAny == /\ l <= Len(Rec) /\ Rec[l].ev \in {"crash", "begin"}
              /\ viol' = IF Rec[l].ev = "crash" THEN AddViol(viol, {"ANY/process-killed-by-signal-" \o Str(Rec[l].signal)}, Rec[l].id) ELSE viol
              /\ l' = l + 1 /\ UNCHANGED <<judged, cur>>
TVNext == TVReset \/ TVVal \/ TVCrashAny
TVSpec == TVInit /\ [][TVNext]_tvars
Post == PostOK
Report == ReportAt(l, judged, viol)
=============================================================================
