----------------------------- MODULE TV_Routing -----------------------------
(* Trace validation of the daemon engine against Routing.tla (C17). *)
EXTENDS Routing, TVCommon
VARIABLES masks, nq, sizeOf, l, viol, judged, cur, dead, lst
tvars == <<masks, nq, sizeOf, l, viol, judged, cur, dead, lst>>
\* lst: the custom listeners this case has registered so far, in order: [thread, idl, alive] -- alive = registered with the worker
\* and not unregistered since (several listeners may share an id; each of them is delivered under it for as long as it is alive)

MaskSet(m) == {b \in 0..15 : (m \div (2 ^ b)) % 2 = 1}
MS == [t \in 1..Len(masks) |-> MaskSet(masks[t])]
Small(idl) == idl[2] = 0 /\ idl[3] = 0 /\ idl[4] = 0         \* id < 65536
SliceSizes(t) == LET S == SliceOf(MS[t], nq) IN
                 [i \in 1..Cardinality(S) |-> sizeOf[QueueOf(MS[t], nq, i - 1)]]

KickViol(e) ==
    LET q == e.q  o == Owner(MS, q) cfg == "/nq=" \o Str(nq) IN
    IF ~e.workers_ok THEN {"C17/worker-thread-terminated/after-kick"}
    ELSE IF o = 0 THEN (IF e.ndispatch # 0 THEN {"C17/unowned-queue-dispatched"} ELSE {})
    ELSE IF e.ndispatch # 1 THEN {"C17/dispatches-per-kick=" \o (IF e.ndispatch > 2 THEN "many" ELSE Str(e.ndispatch))}
    ELSE LET d == e.dispatches[1] IN
         (IF d.thread # o - 1 THEN {"C17/wrong-worker-thread"} ELSE {})
         \cup (IF d.event # Rank(MS[o], q) THEN {"C17/wrong-event-id"} ELSE {})
         \cup (IF d.thread = o - 1 /\ d.sizes # SliceSizes(o) THEN {"C17/wrong-ring-slice"} ELSE {})
         \cup (IF d.event < Len(d.sizes) /\ d.sizes[d.event + 1] # sizeOf[q] THEN {"C17/slice-element-is-not-the-kicked-queue"} ELSE {})

ListenerViol(e) ==
    LET idl == e.letter.idl
        accept == IF Small(idl) THEN idl[1] > nq ELSE e.status = "ok"   \* an id the u16 event cannot carry may be refused
        cls == IF Small(idl) THEN "id<=65535" ELSE "id>65535" IN
    IF (e.status = "ok") # accept THEN {"C17/listener-registration/" \o cls \o "/accepted=" \o Str(e.status = "ok")}
    ELSE IF ~accept \/ ("fire" \in DOMAIN e.letter /\ ~e.letter.fire) THEN {}
    ELSE IF ~e.workers_ok THEN {"C17/worker-thread-terminated/by-listener-event/" \o cls}
    ELSE IF e.ndispatch # 1 THEN {"C17/listener-dispatches=" \o (IF e.ndispatch > 2 THEN "many" ELSE Str(e.ndispatch)) \o "/" \o cls}
    ELSE LET d == e.dispatches[1] IN
         (IF d.thread # e.letter.thread THEN {"C17/listener-on-wrong-thread"} ELSE {})
         \cup (IF ~Small(idl) \/ d.event # idl[1] THEN {"C17/listener-delivered-with-different-id/" \o cls} ELSE {})

\* an event raised on the idx-th listener of the case: delivered exactly once, to its thread, under its id, iff it is alive
FireViol(e) ==
    LET i == e.letter.idx + 1 IN
    IF i > Len(lst) THEN {}
    ELSE LET x == lst[i]  shared == \E j \in 1..Len(lst) : j # i /\ lst[j].thread = x.thread /\ lst[j].idl = x.idl
             tag == IF shared THEN "/id-shared-with-another-listener" ELSE "" IN
         IF ~e.workers_ok THEN {"C17/worker-thread-terminated/by-listener-event" \o tag}
         ELSE IF ~x.alive THEN (IF e.ndispatch # 0 THEN {"C17/event-of-an-unregistered-listener-delivered" \o tag} ELSE {})
         ELSE IF e.ndispatch # 1 THEN {"C17/listener-dispatches=" \o (IF e.ndispatch > 2 THEN "many" ELSE Str(e.ndispatch)) \o tag}
         ELSE LET d == e.dispatches[1] IN
              (IF d.thread # x.thread THEN {"C17/listener-on-wrong-thread" \o tag} ELSE {})
              \cup (IF d.event # x.idl[1] THEN {"C17/listener-delivered-with-different-id" \o tag} ELSE {})
UnlistenViol(e) ==
    LET i == e.letter.idx + 1 IN
    IF i <= Len(lst) /\ lst[i].alive /\ e.status # "ok" THEN {"C17/unregistering-a-registered-listener-fails"} ELSE {}

TVInit == masks = <<>> /\ nq = 0 /\ sizeOf = <<>> /\ l = 1 /\ viol = {} /\ judged = 0 /\ cur = -1 /\ dead = FALSE /\ lst = <<>>
TVReset == /\ l <= Len(Rec) /\ Rec[l].ev = "reset"
           /\ masks' = Rec[l].masks /\ nq' = Rec[l].nq /\ sizeOf' = [q \in 0..(Rec[l].nq - 1) |-> Rec[l].maxq] /\ dead' = FALSE /\ lst' = <<>>
           /\ cur' = Rec[l].id /\ l' = l + 1 /\ UNCHANGED <<viol, judged>>
TVStep == /\ l <= Len(Rec) /\ Rec[l].ev = "step"
          /\ LET e == Rec[l] IN
             /\ viol' = IF dead THEN viol
                        ELSE AddViol(viol, CASE e.op = "kick" -> KickViol(e) [] e.op = "listener" -> ListenerViol(e)
                                             [] e.op = "fire" -> FireViol(e) [] e.op = "unlisten" -> UnlistenViol(e)
                                             [] OTHER -> IF e.workers_ok THEN {} ELSE {"C17/worker-thread-terminated/after-" \o e.op}, cur)
             /\ sizeOf' = IF e.op = "set_vring_num" /\ e.status = "ok" THEN [sizeOf EXCEPT ![e.q] = e.letter.n[1]] ELSE sizeOf
             /\ dead' = (dead \/ ~e.workers_ok \/ e.status \notin {"ok", "none", "err"})
             /\ lst' = IF e.op = "listener" THEN Append(lst, [thread |-> e.letter.thread, idl |-> e.letter.idl, alive |-> e.status = "ok"])
                       ELSE IF e.op = "unlisten" /\ e.letter.idx + 1 <= Len(lst) /\ e.status = "ok"
                            THEN [lst EXCEPT ![e.letter.idx + 1].alive = FALSE] ELSE lst
          /\ judged' = judged + 1 /\ l' = l + 1 /\ UNCHANGED <<masks, nq, cur>>
TVOther == /\ l <= Len(Rec) /\ Rec[l].ev \in {"end", "threads"} /\ l' = l + 1 /\ UNCHANGED <<masks, nq, sizeOf, viol, judged, cur, dead, lst>>
\* the process under test was killed by a signal while this case ran (recorded by the driver; `begin` marks the letter that
\* was in progress): judged like any other observation -- whatever the property, an input that kills the process breaks it
TVCrashAny == /\ l <= Len(Rec) /\ Rec[l].ev \in {"crash", "begin"}
              /\ viol' = IF Rec[l].ev = "crash" THEN AddViol(viol, {"ANY/process-killed-by-signal-" \o Str(Rec[l].signal)}, Rec[l].id) ELSE viol
              /\ l' = l + 1 /\ UNCHANGED <<masks, nq, sizeOf, judged, cur, dead, lst>>
TVNext == TVReset \/ TVStep \/ TVOther \/ TVCrashAny
TVSpec == TVInit /\ [][TVNext]_tvars
Post == PostOK
Report == ReportAt(l, judged, viol)
=============================================================================
