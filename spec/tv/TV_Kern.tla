------------------------------- MODULE TV_Kern -------------------------------
(***************************************************************************)
(* Trace validation of engine "kern" (C19): every recorded (request,       *)
(* argument bytes) of the real kernel backends against KernBackend.tla,    *)
(* and KernBackend.tla itself against the numbers printed by a C program   *)
(* compiled with this system's <linux/vhost.h> ("uapi" events).            *)
(***************************************************************************)
EXTENDS KernBackend, TVCommon

VARIABLES backend, regions, acked, l, viol, judged, cur
tvars == <<backend, regions, acked, l, viol, judged, cur>>

Byte(b, i) == IF i <= Len(b) THEN b[i] ELSE 0
\* little-endian value of bytes b[from .. from+n-1] as four limbs
LimbsOf(b, from, n) == [i \in 1..4 |-> IF 2 * i - 1 <= n THEN Byte(b, from + 2 * i - 2) + (IF 2 * i <= n THEN 256 * Byte(b, from + 2 * i - 1) ELSE 0) ELSE 0]
PrefixEq(got, want) == Len(got) >= Len(want) /\ SubSeq(got, 1, Len(want)) = want
V2Bit(x) == (x[1] \div 2) % 2 = 1

IotlbOps == {"iotlb_send", "vdpa_dma_map", "vdpa_dma_unmap"}
ParseOps == {"iotlb_parse_v1", "iotlb_parse_v2"}

RetViol(e, name) ==
    LET i == Ioctl(name) k == e.kret IN
    IF i.dir \notin {R, RW} \/ e.kfail THEN {}
    ELSE CASE e.op = "get_vring_base" \/ e.op = "vdpa_get_vring_group" -> IF e.ret.v # LimbsOf(k, 5, 4) THEN {"value"} ELSE {}
           [] e.op = "vdpa_get_iova_range" -> IF e.ret.first # LimbsOf(k, 1, 8) \/ e.ret.last # LimbsOf(k, 9, 8) THEN {"value"} ELSE {}
           [] e.op = "vdpa_get_config" -> IF e.ret.buf # [j \in 1..e.args.len |-> Byte(k, j)] THEN {"value"} ELSE {}
           [] OTHER -> IF e.ret.v # LimbsOf(k, 1, i.size) THEN {"value"} ELSE {}

KopViol(e) ==
    LET tag == e.backend \o "/" \o e.op \o (IF e.cls = "ok" THEN "" ELSE "/" \o e.cls) IN
    IF e.op \in IotlbOps
    THEN (IF e.nioctls # 0 THEN {"C19/" \o tag \o "/unexpected-ioctl"} ELSE {})
         \cup (IF e.nwrites # 1 THEN {"C19/" \o tag \o "/iotlb-messages-written=" \o Str(e.nwrites)}
               ELSE IF e.writes[1] # IotlbBytes(e.args, V2Bit(acked)) THEN {"C19/" \o tag \o "/iotlb-layout/acked-v2=" \o Str(V2Bit(acked))} ELSE {})
    ELSE IF e.op \in ParseOps
    THEN LET good == e.args.mtype = (IF e.op = "iotlb_parse_v2" THEN 2 ELSE 1) /\ e.args.type # 0 IN
         IF good # e.res_ok THEN {"C19/" \o tag \o "/parse-verdict"}
         ELSE IF good /\ (e.ret.iova # e.args.iova \/ e.ret.size # e.args.size \/ e.ret.uaddr # e.args.uaddr
                          \/ e.ret.perm # e.args.perm \/ e.ret.type # e.args.type) THEN {"C19/" \o tag \o "/parsed-value-differs"} ELSE {}
    ELSE IF RefusedLocally(e.op, e.cls)
    THEN (IF e.nioctls # 0 THEN {"C19/" \o tag \o "/ioctl-issued-for-refused-configuration"} ELSE {})
         \cup (IF e.res_ok THEN {"C19/" \o tag \o "/invalid-configuration-accepted"} ELSE {})
    ELSE LET name == OpIoctl(e.op) IN
         IF e.nioctls # 1 THEN {"C19/" \o tag \o "/ioctls-issued=" \o Str(e.nioctls)}
         ELSE LET r == e.ioctls[1] want == Req(Ioctl(name)) IN
              (IF <<r.lo, r.hi>> # want THEN {"C19/" \o tag \o "/wrong-ioctl-request"} ELSE {})
              \cup (IF Ioctl(name).dir \in {W, RW} /\ ~PrefixEq(r.bytes, KArg(e.op, e.args, e.backend, regions))
                    THEN {"C19/" \o tag \o "/argument-bytes"} ELSE {})
              \cup (IF e.op = "vdpa_get_config" /\ ~PrefixEq(r.bytes, KArg(e.op, e.args, e.backend, regions)) THEN {"C19/" \o tag \o "/argument-bytes"} ELSE {})
              \cup (IF e.res_ok # ~e.kfail THEN {"C19/" \o tag \o "/kernel-result-not-reported"} ELSE {})
              \cup {"C19/" \o tag \o "/returned-" \o x : x \in (IF e.res_ok THEN RetViol(e, name) ELSE {})}
              \cup (IF e.op = "set_backend_features" /\ e.ret.acked # (IF e.kfail THEN acked ELSE e.args.v)
                    THEN {"C19/" \o tag \o "/acknowledged-features-state"} ELSE {})

UapiViol(e) ==
    IF e.kind = "ioctl"
    THEN (IF e.name \notin IoctlNames THEN {"SPEC/uapi/ioctl-missing-in-catalogue/" \o e.name}
          ELSE IF Req(Ioctl(e.name)) # <<e.lo, e.hi>> THEN {"SPEC/uapi/catalogue-disagrees-with-header/" \o e.name} ELSE {})
    ELSE {}

TVInit == /\ backend = "" /\ regions = <<>> /\ acked = <<0, 0, 0, 0>> /\ l = 1 /\ viol = {} /\ judged = 0 /\ cur = -1

TVReset == /\ l <= Len(Rec) /\ Rec[l].ev = "reset"
           /\ backend' = Rec[l].backend /\ regions' = Rec[l].regions
           /\ acked' = [i \in 1..4 |-> IF i = 1 THEN (IF 0 \in ToSet(Rec[l].acked) THEN 1 ELSE 0) + (IF 1 \in ToSet(Rec[l].acked) THEN 2 ELSE 0)
                                                     + (IF 2 \in ToSet(Rec[l].acked) THEN 4 ELSE 0) + (IF 3 \in ToSet(Rec[l].acked) THEN 8 ELSE 0) ELSE 0]
           /\ cur' = Rec[l].id /\ l' = l + 1 /\ UNCHANGED <<viol, judged>>

TVKop == /\ l <= Len(Rec) /\ Rec[l].ev = "kop"
         /\ LET e == Rec[l] IN
            /\ viol' = AddViol(viol, KopViol(e), cur)
            /\ acked' = IF e.op = "set_backend_features" /\ ~e.kfail THEN e.args.v ELSE acked
         /\ judged' = judged + 1 /\ l' = l + 1 /\ UNCHANGED <<backend, regions, cur>>

TVUapi == /\ l <= Len(Rec) /\ Rec[l].ev = "uapi"
          /\ viol' = AddViol(viol, UapiViol(Rec[l]), -1)
          /\ l' = l + 1 /\ UNCHANGED <<backend, regions, acked, judged, cur>>

\* the process under test was killed by a signal while this case ran (recorded by the driver; `begin` marks the letter that
\* was in progress): judged like any other observation -- whatever the property, an input that kills the process breaks it
TVCrashAny == /\ l <= Len(Rec) /\ Rec[l].ev \in {"crash", "begin"}
              /\ viol' = IF Rec[l].ev = "crash" THEN AddViol(viol, {"ANY/process-killed-by-signal-" \o Str(Rec[l].signal)}, Rec[l].id) ELSE viol
              /\ l' = l + 1 /\ UNCHANGED <<backend, regions, acked, judged, cur>>
TVNext == TVReset \/ TVKop \/ TVUapi \/ TVCrashAny
TVSpec == TVInit /\ [][TVNext]_tvars
Post == PostOK
Report == ReportAt(l, judged, viol)
=============================================================================
