---------------------------- MODULE TV_DirtyLog ----------------------------
(* Trace validation of the daemon engine against DirtyLog.tla (C15). *)
EXTENDS DirtyLog, TVCommon
VARIABLES table, late, logOn, l, viol, judged, cur, dead
tvars == <<table, late, logOn, l, viol, judged, cur, dead>>

Small(x) == x[1] + 65536 * x[2]            \* addresses of this family of cases are below 2^31
SeqSet(L) == {L[i] : i \in 1..Len(L)}

WriteViol(e) ==
    LET r == e.letter.rid
        a == DLo(r) * 4096 + Small(e.letter.o)
        want == ExpectedBits(logOn, a, e.out.wrote)
        got == ToSet(e.out.newbits)
        tag == IF r \in late THEN "/region-mapped-after-set-log-base" ELSE "" IN
    (IF e.out.panicked THEN {"C15/write-panics-while-logging" \o tag} ELSE {})
    \cup (IF want \ got # {} /\ ~e.out.panicked THEN {"C15/write-not-logged" \o tag} ELSE {})
    \cup (IF got \ want # {} THEN {"C15/bits-set-for-untouched-pages" \o tag} ELSE {})
    \cup (IF e.out.cleared THEN {"C15/log-bit-cleared"} ELSE {})
    \cup (IF ~e.out.guard_ok THEN {"C15/memory-outside-the-log-window-modified"} ELSE {})

RingViol(e) ==
    LET want == IF logOn /\ e.ndispatch = 1 THEN {DLo(0)} ELSE {}      \* the used ring of ring 0 lives in the first page of pool region 0
        got == ToSet(e.out.newbits)
        tag == IF 0 \in late THEN "/region-mapped-after-set-log-base" ELSE "" IN
    (IF want \ got # {} THEN {"C15/used-ring-update-not-logged" \o tag} ELSE {})
    \cup (IF got \ want # {} THEN {"C15/bits-set-for-untouched-pages/used-ring"} ELSE {})
    \cup (IF ~e.out.guard_ok THEN {"C15/memory-outside-the-log-window-modified"} ELSE {})

TVInit == table = {} /\ late = {} /\ logOn = FALSE /\ l = 1 /\ viol = {} /\ judged = 0 /\ cur = -1 /\ dead = FALSE
TVReset == /\ l <= Len(Rec) /\ Rec[l].ev = "reset"
           /\ table' = {} /\ late' = {} /\ logOn' = FALSE /\ dead' = FALSE
           /\ cur' = Rec[l].id /\ l' = l + 1 /\ UNCHANGED <<viol, judged>>
TVStep == /\ l <= Len(Rec) /\ Rec[l].ev = "step"
          /\ LET e == Rec[l]  ok == e.status = "ok" IN
             \* once the daemon has ended the connection (e.g. after a refused SET_LOG_BASE) only writes through the memory handle
             \* the backend holds are still judged: the log accepted before stays in force
             /\ viol' = IF dead /\ e.op # "write" THEN viol
                        ELSE AddViol(viol,
                               CASE e.op = "set_log_base" ->
                                      LET v == LogVerdictAt(table, Small(e.letter.size), Small(e.letter.off)) IN
                                      IF (v = "must_ok" /\ ~ok) \/ (v = "must_fail" /\ ok)
                                      THEN {"C15/set-log-base/" \o v \o "/got=" \o e.status \o (IF Small(e.letter.off) % 4096 # 0 THEN "/window-not-page-aligned" ELSE "")} ELSE {}
                                 [] e.op = "write" -> WriteViol(e)
                                 [] e.op = "use_ring" -> RingViol(e)
                                 [] OTHER -> IF e.workers_ok THEN {} ELSE {"C15/worker-thread-terminated"}, cur)
             /\ table' = IF ~ok THEN table
                         ELSE CASE e.op = "set_mem_table" -> SeqSet(e.letter.rids) [] e.op = "add_mem_reg" -> table \cup {e.letter.rid} [] OTHER -> table
             /\ late' = IF ok /\ logOn /\ e.op = "set_mem_table" THEN SeqSet(e.letter.rids)
                        ELSE IF ok /\ logOn /\ e.op = "add_mem_reg" THEN late \cup {e.letter.rid}
                        ELSE IF ok /\ e.op = "set_log_base" THEN {} ELSE late
             /\ logOn' = (logOn \/ (e.op = "set_log_base" /\ ok))
             /\ dead' = (dead \/ ~e.workers_ok \/ e.status \notin {"ok", "none", "nofd"})
          /\ judged' = judged + 1 /\ l' = l + 1 /\ UNCHANGED cur
TVOther == /\ l <= Len(Rec) /\ Rec[l].ev \in {"end", "threads", "stress"} /\ l' = l + 1
           /\ viol' = IF Rec[l].ev = "stress" /\ Rec[l].lost > 0 THEN AddViol(viol, {"C15/concurrent-writers-lost-a-bit"}, cur) ELSE viol
           /\ UNCHANGED <<table, late, logOn, judged, cur, dead>>
\* the process under test was killed by a signal while this case ran (recorded by the driver; `begin` marks the letter that
\* was in progress): judged like any other observation -- whatever the property, an input that kills the process breaks it
TVCrashAny == /\ l <= Len(Rec) /\ Rec[l].ev \in {"crash", "begin"}
              /\ viol' = IF Rec[l].ev = "crash" THEN AddViol(viol, {"ANY/process-killed-by-signal-" \o Str(Rec[l].signal)}, Rec[l].id) ELSE viol
              /\ l' = l + 1 /\ UNCHANGED <<table, late, logOn, judged, cur, dead>>
TVNext == TVReset \/ TVStep \/ TVOther \/ TVCrashAny
TVSpec == TVInit /\ [][TVNext]_tvars
Post == PostOK
Report == ReportAt(l, judged, viol)
=============================================================================
