------------------------------ MODULE TV_FdFate ------------------------------
(* Trace validation of the daemon engine against FdFate.tla (C09, daemon part). *)
EXTENDS FdFate, TVCommon
VARIABLES s, l, viol, judged, cur
tvars == <<s, l, viol, judged, cur>>

LetterOf(e) ==
    IF e.op = "fdslot" THEN [op |-> "set", role |-> e.letter.role, q |-> e.letter.q, kind |-> e.letter.kind]
    ELSE IF e.op = "get_vring_base" THEN [op |-> "base", q |-> e.letter.q]
    ELSE [op |-> "reconnect"]
KindOf(e, s2, t) == IF \E q \in Rings, r \in Roles : s2.slot[q][r].tok = t
                    THEN (CHOOSE x \in {s2.slot[q][r] : q \in Rings, r \in Roles} : x.tok = t).kind ELSE "gone"

\* after every letter: a descriptor is held by the daemon iff it occupies a slot
HeldViol(e, a, s2) ==
    IF "held" \notin DOMAIN e.out THEN {}
    ELSE LET n == Len(e.out.held) IN
         {"C09/daemon/descriptor-still-open-after-" \o
              (IF a.op = "set" /\ Refused(s, a) THEN "refused-request"
               ELSE IF a.op = "set" THEN "being-replaced-in-the-" \o a.role \o "-slot"
               ELSE IF a.op = "base" THEN "get-vring-base" ELSE a.op)
              \o "/sent-as=" \o e.sentkinds[t] : t \in {t \in 1..n : ~IsHeld(s2, t) /\ e.out.held[t] > 0}}
         \cup {"C09/daemon/descriptor-in-a-slot-is-not-open/" \o KindOf(e, s2, t) : t \in {t \in 1..n : IsHeld(s2, t) /\ e.out.held[t] < 1}}
         \cup {"C09/daemon/descriptor-held-more-than-once/" \o KindOf(e, s2, t) : t \in {t \in 1..n : IsHeld(s2, t) /\ e.out.held[t] > 1}}

TVInit == s = FfInit /\ l = 1 /\ viol = {} /\ judged = 0 /\ cur = -1
TVReset == /\ l <= Len(Rec) /\ Rec[l].ev = "reset"
           /\ s' = FfInit /\ cur' = Rec[l].id /\ l' = l + 1 /\ UNCHANGED <<viol, judged>>
TVStep == /\ l <= Len(Rec) /\ Rec[l].ev = "step"
          /\ LET e == Rec[l] IN
             IF e.op \in {"fdslot", "get_vring_base", "reconnect"}
             THEN LET a == LetterOf(e)  s2 == FfNext(s, a) IN
                  /\ viol' = AddViol(viol, HeldViol(e, a, s2) \cup (IF ~e.workers_ok THEN {"C09/daemon/worker-thread-terminated"} ELSE {}), cur)
                  /\ s' = s2
             ELSE UNCHANGED <<s, viol>>
          /\ judged' = judged + 1 /\ l' = l + 1 /\ UNCHANGED cur
\* the daemon has been dropped: nothing it received may still be open
TVEnd == /\ l <= Len(Rec) /\ Rec[l].ev = "end"
         /\ viol' = AddViol(viol, IF "held" \in DOMAIN Rec[l] /\ \E t \in 1..Len(Rec[l].held) : Rec[l].held[t] > 0
                                  THEN {"C09/daemon/descriptor-still-open-after-the-daemon-was-dropped"} ELSE {}, cur)
         /\ l' = l + 1 /\ UNCHANGED <<s, judged, cur>>
TVOther == /\ l <= Len(Rec) /\ Rec[l].ev = "threads" /\ l' = l + 1 /\ UNCHANGED <<s, viol, judged, cur>>
\* the process under test was killed by a signal while this case ran (recorded by the driver; `begin` marks the letter that
\* was in progress): judged like any other observation -- whatever the property, an input that kills the process breaks it
TVCrashAny == /\ l <= Len(Rec) /\ Rec[l].ev \in {"crash", "begin"}
              /\ viol' = IF Rec[l].ev = "crash" THEN AddViol(viol, {"ANY/process-killed-by-signal-" \o Str(Rec[l].signal)}, Rec[l].id) ELSE viol
              /\ l' = l + 1 /\ UNCHANGED <<s, judged, cur>>
TVNext == TVReset \/ TVStep \/ TVEnd \/ TVOther \/ TVCrashAny
TVSpec == TVInit /\ [][TVNext]_tvars
Post == PostOK
Report == ReportAt(l, judged, viol)
=============================================================================
