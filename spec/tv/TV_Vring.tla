------------------------------ MODULE TV_Vring ------------------------------
(***************************************************************************)
(* Trace validation of the daemon engine against VringLifecycle (C11):     *)
(* after every control letter and the following quiescence, the set of     *)
(* rings whose event handler was entered must be exactly the set the model *)
(* says is due (rings with a kick pending on a replaced descriptor are not *)
(* judged), control letters succeed/fail as the model says, and the worker *)
(* threads stay alive.                                                     *)
(***************************************************************************)
EXTENDS VringLifecycle, Routing, TVCommon

VARIABLES s, masks, nq, l, viol, judged, cur, dead, repl
tvars == <<s, masks, nq, l, viol, judged, cur, dead, repl>>

MaskSet(m) == {b \in 0..15 : (m \div (2 ^ b)) % 2 = 1}
Letter(e) == [op |-> e.op, q |-> e.q,
              pf |-> IF e.op = "set_features" THEN 30 \in ToSet(e.letter.bits) ELSE FALSE,
              fd |-> IF "fd" \in DOMAIN e.letter THEN e.letter.fd ELSE "",
              en |-> IF "en" \in DOMAIN e.letter THEN e.letter.en ELSE FALSE,
              which |-> IF "which" \in DOMAIN e.letter THEN e.letter.which ELSE IF e.op = "kick" THEN "cur" ELSE ""]

Observed(e) == {QueueOf(MaskSet(masks[e.dispatches[i].thread + 1]), nq, e.dispatches[i].event) : i \in 1..Len(e.dispatches)}

StepViol(e, a) ==
    LET want == LcDispatched(s, a)
        got == Observed(e)
        s2 == LcApply(s, a)
        judgedRings == {q \in Rings : ~s2.stale[q]}
        rtag(q) == IF repl[q] THEN "/kick-descriptor-replaced-while-started" ELSE ""
        tag(q) == "/started=" \o Str(s2.started[q]) \o "/enabled=" \o Str(s2.enabled[q]) \o "/after=" \o a.op \o rtag(q) IN
    (IF ~e.workers_ok THEN {"C11/worker-thread-terminated" \o (IF \E q \in Rings : repl[q] THEN "/kick-descriptor-replaced-while-started"
                                                                  ELSE "/after=" \o a.op)} ELSE {})
    \cup {"C11/kick-not-delivered" \o tag(q) : q \in (want \ got) \cap judgedRings}
    \cup {"C11/dispatch-while-inactive-or-without-kick" \o tag(q) : q \in (got \ want) \cap judgedRings}
    \cup (IF a.op \in {"set_vring_enable", "set_vring_kick", "set_vring_call", "get_vring_base", "reset_device", "set_features"}
             /\ (e.status = "ok") # LcOk(s, a)
          THEN {"C11/control-message-result/" \o a.op \o "/expected-ok=" \o Str(LcOk(s, a))} ELSE {})

TVInit == /\ s = LcInit /\ masks = <<>> /\ nq = 0 /\ l = 1 /\ viol = {} /\ judged = 0 /\ cur = -1 /\ dead = FALSE /\ repl = [q \in Rings |-> FALSE]

TVReset == /\ l <= Len(Rec) /\ Rec[l].ev = "reset"
           /\ s' = LcInit /\ masks' = Rec[l].masks /\ nq' = Rec[l].nq /\ dead' = FALSE /\ repl' = [q \in Rings |-> FALSE]
           /\ cur' = Rec[l].id /\ l' = l + 1 /\ UNCHANGED <<viol, judged>>

TVStep == /\ l <= Len(Rec) /\ Rec[l].ev = "step"
          /\ LET e == Rec[l] IN
             IF e.op = "negotiate"
             THEN /\ s' = [s EXCEPT !.pfAcked = 30 \in ToSet(e.letter.feats)]
                  /\ UNCHANGED <<viol, judged, dead, repl>>
             ELSE LET a == Letter(e)
                      missed == (LcDispatched(s, a) \ Observed(e))
                      s3 == LcStep(s, a) IN
                  /\ viol' = IF dead THEN viol ELSE AddViol(viol, StepViol(e, a), cur)
                  \* a ring whose kick was not delivered when due is not judged further (its late delivery is a consequence)
                  /\ s' = [s3 EXCEPT !.stale = [q \in Rings |-> s3.stale[q] \/ q \in missed]]
                  \* the daemon ends the connection after a failed control message: nothing later is judged
                  /\ dead' = (dead \/ ~e.workers_ok \/ e.status \notin {"ok", "none"})
                  /\ repl' = [q \in Rings |-> repl[q] \/ (a.op = "set_vring_kick" /\ a.fd \in {"new", "none"} /\ a.q = q
                                                            /\ s.started[q] /\ s.kick[q] = "obj")]
                  /\ judged' = judged + 1
          /\ l' = l + 1 /\ UNCHANGED <<masks, nq, cur>>

TVOther == /\ l <= Len(Rec) /\ Rec[l].ev \in {"end", "threads"}
           /\ l' = l + 1 /\ UNCHANGED <<s, masks, nq, viol, judged, cur, dead, repl>>

\* the process under test was killed by a signal while this case ran (recorded by the driver; `begin` marks the letter that
\* was in progress): judged like any other observation -- whatever the property, an input that kills the process breaks it
TVCrashAny == /\ l <= Len(Rec) /\ Rec[l].ev \in {"crash", "begin"}
              /\ viol' = IF Rec[l].ev = "crash" THEN AddViol(viol, {"ANY/process-killed-by-signal-" \o Str(Rec[l].signal)}, Rec[l].id) ELSE viol
              /\ l' = l + 1 /\ UNCHANGED <<s, masks, nq, judged, cur, dead, repl>>
TVNext == TVReset \/ TVStep \/ TVOther \/ TVCrashAny
TVSpec == TVInit /\ [][TVNext]_tvars
Post == PostOK
Report == ReportAt(l, judged, viol)
=============================================================================
