---------------------------- MODULE TV_Ownership ----------------------------
(* Trace validation of the daemon engine against Ownership.tla. *)
EXTENDS Ownership, TVCommon
VARIABLES s, l, viol, judged, cur
tvars == <<s, l, viol, judged, cur>>

LetterOf(e) == IF e.op = "raw" THEN e.letter.hk ELSE IF e.op = "set_vring_enable" THEN "enable" ELSE e.op

TVInit == s = OwInit /\ l = 1 /\ viol = {} /\ judged = 0 /\ cur = -1
TVReset == /\ l <= Len(Rec) /\ Rec[l].ev = "reset"
           /\ s' = OwInit /\ cur' = Rec[l].id /\ l' = l + 1 /\ UNCHANGED <<viol, judged>>
TVStep == /\ l <= Len(Rec) /\ Rec[l].ev = "step"
          /\ LET e == Rec[l]  a == LetterOf(e)  want == Status(s, a) IN
             /\ a \in Letters
             \* the negotiation letter is four requests whose individual answers the driver does not report
             /\ viol' = AddViol(viol, IF a # "negotiate" /\ e.status # want
                                      THEN {"X02/ownership/" \o a \o "/expected=" \o want \o "/got=" \o e.status \o
                                            "/owned=" \o Str(s.owned) \o "/handler-pf=" \o Str(s.hPF)} ELSE {}, cur)
             /\ s' = OwNext(s, a)
          /\ judged' = judged + 1 /\ l' = l + 1 /\ UNCHANGED cur
TVOther == /\ l <= Len(Rec) /\ Rec[l].ev \in {"end", "threads"} /\ l' = l + 1 /\ UNCHANGED <<s, viol, judged, cur>>
\* the process under test was killed by a signal while this case ran (recorded by the driver; `begin` marks the letter that
\* was in progress): judged like any other observation -- whatever the property, an input that kills the process breaks it
TVCrashAny == /\ l <= Len(Rec) /\ Rec[l].ev \in {"crash", "begin"}
              /\ viol' = IF Rec[l].ev = "crash" THEN AddViol(viol, {"ANY/process-killed-by-signal-" \o Str(Rec[l].signal)}, Rec[l].id) ELSE viol
              /\ l' = l + 1 /\ UNCHANGED <<s, judged, cur>>
TVNext == TVReset \/ TVStep \/ TVOther \/ TVCrashAny
TVSpec == TVInit /\ [][TVNext]_tvars
Post == PostOK
Report == ReportAt(l, judged, viol)
=============================================================================
