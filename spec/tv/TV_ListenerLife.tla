--------------------------- MODULE TV_ListenerLife ---------------------------
(* Trace validation of the listen engine against ListenerLife.tla (X04). *)
EXTENDS ListenerLife, TVCommon
VARIABLES s, l, viol, judged, cur
tvars == <<s, l, viol, judged, cur>>

TVInit == s = LsInit /\ l = 1 /\ viol = {} /\ judged = 0 /\ cur = -1
TVReset == /\ l <= Len(Rec) /\ Rec[l].ev = "reset"
           /\ s' = LsInit /\ cur' = Rec[l].id /\ l' = l + 1 /\ UNCHANGED <<viol, judged>>
StepViol(e, a) ==
    LET want == Result(s, a)  s2 == LsNext(s, a)  pre == "X04/" \o a.op \o "/" IN
    (IF e.res # want THEN {pre \o "result=" \o e.res \o "/expected=" \o want \o "/path-was=" \o s.fs.kind
                            \o (IF a.op = "new" THEN "/unlink=" \o Str(a.f) ELSE "")} ELSE {})
    \cup (IF e.fs # s2.fs.kind THEN {pre \o "path-afterwards=" \o e.fs \o "/expected=" \o s2.fs.kind} ELSE {})
    \cup (IF e.res = "some" /\ want = "some" /\ e.who # Accepted(s, a)
          THEN {pre \o "connection-handed-out-is-not-the-oldest-pending-one"} ELSE {})
    \cup (IF a.op = "baccept" /\ e.res = "some" /\ e.served # "yes" THEN {pre \o "request-server-does-not-serve-the-accepted-connection"} ELSE {})
    \cup (IF Len(e.panics) > 0 THEN {pre \o "panic"} ELSE {})
TVStep == /\ l <= Len(Rec) /\ Rec[l].ev = "step"
          /\ LET e == Rec[l]  a == [op |-> e.op, i |-> e.i, f |-> e.f] IN
             /\ Enabled(s, a)
             /\ viol' = AddViol(viol, StepViol(e, a), cur)
             /\ s' = LsNext(s, a)
          /\ judged' = judged + 1 /\ l' = l + 1 /\ UNCHANGED cur
TVTeardown == /\ l <= Len(Rec) /\ Rec[l].ev = "teardown"
              /\ viol' = AddViol(viol, (IF Rec[l].nleaked > 0 THEN {"X04/descriptor-left-open-after-all-listeners-and-connections-were-dropped"} ELSE {})
                                       \cup (IF Rec[l].nlost > 0 THEN {"X04/foreign-descriptor-closed"} ELSE {}), cur)
              /\ l' = l + 1 /\ UNCHANGED <<s, judged, cur>>
\* the process under test was killed by a signal while this case ran (recorded by the driver; `begin` marks the letter that
\* was in progress): judged like any other observation -- whatever the property, an input that kills the process breaks it
TVCrashAny == /\ l <= Len(Rec) /\ Rec[l].ev \in {"crash", "begin"}
              /\ viol' = IF Rec[l].ev = "crash" THEN AddViol(viol, {"ANY/process-killed-by-signal-" \o Str(Rec[l].signal)}, Rec[l].id) ELSE viol
              /\ l' = l + 1 /\ UNCHANGED <<s, judged, cur>>
TVNext == TVReset \/ TVStep \/ TVTeardown \/ TVCrashAny
TVSpec == TVInit /\ [][TVNext]_tvars
Post == PostOK
Report == ReportAt(l, judged, viol)
=============================================================================
