------------------------- MODULE TV_EndpointFailure -------------------------
(* Trace validation of engine "sticky" against EndpointFailure.tla: set_failed(e) makes every later operation of the
   endpoint fail with errno e without writing, reading or dispatching anything (FrontendReqHandler: 0 clears it). *)
EXTENDS EndpointFailure, TVCommon
VARIABLES ep, f, l, viol, judged, cur
tvars == <<ep, f, l, viol, judged, cur>>

\* The recorded errno is compared for the two request servers, which return it as SocketBroken(errno); the proxies wrap
\* the error into an io::Error without an OS error code, so there is nothing to compare ("errno 0" likewise).
OpViol(e) ==
    LET x == OpExpect(ep, f)
        tag == ep \o (IF f = Healthy THEN "/healthy" ELSE "/failed") IN
    (IF x.ok # (e.res = "ok") THEN {"X01/sticky-failure/" \o tag \o "/result=" \o e.res} ELSE {})
    \cup (IF ep \in {"srv", "fsrv"} /\ ~x.ok /\ e.res # "ok" /\ x.errno # 0 /\ e.errno # x.errno THEN {"X01/sticky-failure/" \o tag \o "/reports-a-different-errno"} ELSE {})
    \cup (IF ep \in {"proxy", "gpu"} /\ (e.wrote > 0) # x.wire THEN {"X01/sticky-failure/" \o tag \o "/bytes-on-the-wire=" \o Str(e.wrote > 0)} ELSE {})
    \cup (IF ep \in {"srv", "fsrv"} /\ e.consumed # x.dispatched THEN {"X01/sticky-failure/" \o tag \o "/request-consumed=" \o Str(e.consumed)} ELSE {})
    \cup (IF ep \in {"srv", "fsrv"} /\ (e.ncalls > 0) # x.dispatched THEN {"X01/sticky-failure/" \o tag \o "/handler-invoked=" \o Str(e.ncalls > 0)} ELSE {})

TVInit == ep = "proxy" /\ f = Healthy /\ l = 1 /\ viol = {} /\ judged = 0 /\ cur = -1
TVReset == /\ l <= Len(Rec) /\ Rec[l].ev = "reset"
           /\ ep' = Rec[l].ep /\ f' = Healthy /\ cur' = Rec[l].id /\ l' = l + 1 /\ UNCHANGED <<viol, judged>>
TVFail == /\ l <= Len(Rec) /\ Rec[l].ev = "fail"
          /\ f' = AfterSetFailed(ep, Rec[l].e) /\ l' = l + 1 /\ UNCHANGED <<ep, viol, judged, cur>>
TVOp == /\ l <= Len(Rec) /\ Rec[l].ev = "op"
        /\ viol' = AddViol(viol, OpViol(Rec[l]), cur)
        /\ judged' = judged + 1 /\ l' = l + 1 /\ UNCHANGED <<ep, f, cur>>
TVOther == /\ l <= Len(Rec) /\ Rec[l].ev = "end" /\ l' = l + 1 /\ UNCHANGED <<ep, f, viol, judged, cur>>
\* the process under test was killed by a signal while this case ran (recorded by the driver; `begin` marks the letter that
\* was in progress): judged like any other observation -- whatever the property, an input that kills the process breaks it
TVCrashAny == /\ l <= Len(Rec) /\ Rec[l].ev \in {"crash", "begin"}
              /\ viol' = IF Rec[l].ev = "crash" THEN AddViol(viol, {"ANY/process-killed-by-signal-" \o Str(Rec[l].signal)}, Rec[l].id) ELSE viol
              /\ l' = l + 1 /\ UNCHANGED <<ep, f, judged, cur>>
TVNext == TVReset \/ TVFail \/ TVOp \/ TVOther \/ TVCrashAny
TVSpec == TVInit /\ [][TVNext]_tvars
Post == PostOK
Report == ReportAt(l, judged, viol)
=============================================================================
