SPECIFICATION TVSpec
INVARIANT Report
POSTCONDITION Post
CHECK_DEADLOCK FALSE
