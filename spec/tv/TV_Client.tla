------------------------------ MODULE TV_Client ------------------------------
(***************************************************************************)
(* Trace validation of engine "client": the real Frontend against an       *)
(* independent raw peer.  Judges                                           *)
(*   C01  bytes / descriptors the frontend puts on the wire (WireFormat)   *)
(*        and the values it decodes from conformant replies                *)
(*   C02  locally rejected calls put nothing on the wire (byte-exact)      *)
(*   C07  gated calls put nothing on the wire                              *)
(*   C06  only the matching reply is accepted; anything else is an error   *)
(***************************************************************************)
EXTENDS FrontendEndpoint, WireFormat, TVCommon

VARIABLES fe, l, viol, judged, cur, desync
tvars == <<fe, l, viol, judged, cur, desync>>

MemfdOps == {"set_mem_table", "add_mem_region", "set_inflight_fd", "set_log_base", "set_device_state_fd",
             "set_log_fd", "set_backend_request_fd"}

JudgedMutations == {"code+1", "code=0", "code=999", "flag-reply", "ver0", "ver2", "resv", "size-1",
                    "size_field>max", "body_short", "fds+1", "fds+2", "fds-1", "fds+1_seg", "fds_late", "nack", "nack_hi", "body_invalid",
                    "config_offset", "random", "silent"}

Prefix(s, n) == SubSeq(s, 1, n)

WireViol(e, fx, gated) ==
    LET tag == e.op \o "/" \o e.cls IN
    IF fx.act = "reject"
    THEN (IF e.nwire # 0 \/ e.wire_leftover # 0
          THEN {IF gated THEN "C07/frontend/gated-call-reached-wire/" \o e.op ELSE "C02/rejected-call-reached-wire/" \o tag}
          ELSE {})
         \cup (IF e.res = "ok" THEN {IF gated THEN "C07/frontend/gated-call-succeeded/" \o e.op ELSE "C02/invalid-call-accepted/" \o tag} ELSE {})
    \* (a peer that had gone before the call receives nothing: there is no wire image to judge)
    ELSE IF e.peer = "gone" THEN (IF e.nwire # 0 THEN {"C01/frontend/messages-on-wire=" \o Str(e.nwire) \o "/" \o tag \o "/peer-gone"} ELSE {})
    ELSE IF e.nwire # 1 \/ e.wire_leftover # 0 THEN {"C01/frontend/messages-on-wire=" \o Str(e.nwire) \o "/" \o tag}
    ELSE LET m == e.wire[1]
             form == IF e.op = "set_log_base" THEN LogBaseForm(fe, e.cls) ELSE ""
             body == FeBody(e.op, e.args, form)
             pad == FeBodyPadding(e.op)
         IN (IF m.c # OpCode(e.op) THEN {"C01/frontend/request-code/" \o tag} ELSE {})
            \cup (IF m.flags # ReqFlags(fe.nr) THEN {"C01/frontend/header-flags=" \o Str(m.flags) \o "/" \o tag} ELSE {})
            \cup (IF m.size # Len(body) + pad THEN {"C01/frontend/size-field/" \o tag} ELSE {})
            \cup (IF Len(m.bytes) < Len(body) \/ Prefix(m.bytes, Len(body)) # body THEN {"C01/frontend/payload-bytes/" \o tag} ELSE {})
            \cup (IF m.nfds # FeFdCount(e.op, e.args, form) THEN {"C01/frontend/descriptor-count/" \o tag} ELSE {})
            \cup (IF ~m.fd_first THEN {"C01/frontend/descriptors-not-with-first-byte/" \o tag} ELSE {})
            \cup (IF e.op \in MemfdOps /\ FeFdCount(e.op, e.args, form) > 0 /\ m.fdids # e.fdids THEN {"C01/frontend/descriptor-identity/" \o tag} ELSE {})
            \cup (IF ~e.lent_ok THEN {"C09/frontend/lent-descriptor-closed/" \o tag} ELSE {})

RetMatches(e) ==
    LET enc == e.answers[1].enc IN
    \A k \in DOMAIN enc : k \in DOMAIN e.ret /\ e.ret[k] = enc[k]

ReplyViol(e, fx) ==
    LET tag == e.op \o "/" \o e.peer IN
    IF fx.act = "reject" \/ e.nwire # 1 THEN {}
    ELSE IF e.res = "panic" THEN {"C06/panic/frontend/" \o tag}
    ELSE IF e.res = "stuck" THEN {"C06/frontend/hang-on-bad-reply/" \o tag, "C10/fe/call-never-returns-even-after-the-connection-is-gone/" \o e.op}
    ELSE IF e.peer = "auto"
         THEN (IF e.hang THEN {"C06/frontend/hang-on-correct-reply/" \o e.op}
               ELSE IF e.res # "ok" THEN {"C01/frontend/conformant-reply-rejected/" \o e.op \o "/" \o e.res}
               ELSE IF fx.await = "reply" /\ ~RetMatches(e) THEN {"C01/frontend/decoded-value-differs/" \o e.op}
               ELSE {})
         ELSE IF e.peer = "seg"
         THEN \* C08: the correct reply delivered in separate segments must be parsed to the same result
              IF e.answers = <<>> \/ e.answers[1].applied # "seg" THEN {}
              ELSE (IF e.hang THEN {"C08/frontend/hang-on-segmented-reply/" \o e.op}
                    ELSE IF e.res # "ok" THEN {"C08/frontend/segmented-reply-rejected/" \o e.op \o "/" \o e.res}
                    \* (in terms of C01 as well: a conformant reply was not decoded to the values the peer encoded)
                    ELSE IF fx.await = "reply" /\ ~RetMatches(e) THEN {"C08/frontend/segmented-reply-decoded-differently/" \o e.op,
                                                                         "C01/frontend/decoded-value-differs/" \o e.op \o "/reply-arrived-in-pieces"}
                    ELSE {})
         ELSE IF e.peer = "cut"
         THEN \* C08: the stream ends inside the correct reply: an error, not a success, and no indefinite wait
              IF fx.await = "none" \/ e.answers = <<>> \/ e.answers[1].applied # "cut" THEN {}
              ELSE LET where == IF e.at = 0 THEN "0" ELSE IF e.at > 0 /\ e.at < 12 THEN "header" ELSE IF e.at = 12 THEN "header-end" ELSE "body" IN
                   (IF e.res = "ok" THEN {"C08/frontend/truncated-reply-accepted/" \o e.op \o "/at=" \o where}
                    ELSE IF e.hang THEN {"C08/frontend/blocked-on-truncated-reply/" \o e.op \o "/at=" \o where}
                    ELSE {})
         ELSE IF e.peer = "gone" THEN (IF e.hang THEN {"C03/frontend/hang-although-the-peer-is-gone/" \o tag}
                                       ELSE IF e.res = "ok" /\ fx.await # "none" THEN {"C03/frontend/success-although-the-peer-was-gone/" \o tag} ELSE {})
         ELSE IF fx.await = "none" \/ e.peer \notin JudgedMutations THEN {}
              ELSE IF e.peer \in {"nack", "nack_hi"} THEN (IF e.res = "ok" THEN {"C03/frontend/nack-reported-as-success/" \o e.op \o "/" \o e.cls \o (IF e.peer = "nack_hi" THEN "/status-with-zero-low-half" ELSE "")} ELSE {})
              ELSE IF e.res = "ok" THEN {"C06/frontend/accepted-bad-reply/" \o tag}
              ELSE IF e.hang /\ e.peer # "silent" THEN {"C06/frontend/hang-on-bad-reply/" \o tag}
              ELSE {}

\* an answer the peer owed by the protocol was left unread by the call: the peers are out of step
StrayViol(e) ==
    IF e.peer = "auto" /\ e.stray_in > 0 /\ ~e.hang
    THEN {"C03/frontend/answer-not-awaited/" \o e.op \o (IF e.op = "set_log_base" THEN "/" \o LogBaseForm(fe, e.cls) \o "-form" ELSE ""),
          \* in terms of C02: the call returned although the acknowledgement it had asked for had not arrived -- nothing says
          \* the handler had been invoked by then
          "C02/frontend/call-returned-without-awaiting-its-acknowledgement/" \o e.op \o (IF e.op = "set_log_base" THEN "/" \o LogBaseForm(fe, e.cls) \o "-form" ELSE "")}
    ELSE {}

TVInit == /\ fe = FeInit /\ l = 1 /\ viol = {} /\ judged = 0 /\ cur = -1 /\ desync = FALSE

TVReset == /\ l <= Len(Rec) /\ Rec[l].ev = "reset"
           /\ fe' = FeInit /\ cur' = Rec[l].id /\ l' = l + 1 /\ desync' = FALSE
           /\ UNCHANGED <<viol, judged>>

TVFlags == /\ l <= Len(Rec) /\ Rec[l].ev = "flags"
           /\ fe' = [fe EXCEPT !.nr = Rec[l].nr] /\ l' = l + 1
           /\ UNCHANGED <<viol, judged, cur, desync>>

TVCall == /\ l <= Len(Rec) /\ Rec[l].ev = "call"
          /\ LET e == Rec[l]
                 v == ToSet(e.v)
                 fx == FeExpect(fe, e.op, e.cls, v)
                 gated == e.cls \notin LocalRejectClasses(e.op) /\ ~FeGateOK(fe, e.op, e.cls)
             IN /\ viol' = IF desync THEN viol   \* once out of step, the rest of the session is not judged
                            ELSE AddViol(viol, (IF e.res \in {"panic", "stuck"} THEN {} ELSE WireViol(e, fx, gated)) \cup ReplyViol(e, fx) \cup StrayViol(e)
                                               \cup (IF ~e.lent_ok THEN {"C09/frontend/lent-descriptor-closed/" \o e.op \o "/" \o e.cls} ELSE {}), cur)
                /\ desync' = (desync \/ StrayViol(e) # {})
                /\ fe' = FeNext(fe, e.op, e.cls, v, VF_PROTOCOL_FEATURES \in ToSet(e.rv), e.res = "ok")
          /\ judged' = judged + 1 /\ l' = l + 1
          /\ UNCHANGED cur

TVTeardown == /\ l <= Len(Rec) /\ Rec[l].ev = "teardown"
              /\ viol' = AddViol(viol, TeardownViol(Rec[l], "frontend"), cur)
              /\ l' = l + 1
              /\ UNCHANGED <<fe, judged, cur, desync>>

\* the process under test was killed by a signal while this case ran (recorded by the driver; `begin` marks the letter that
\* was in progress): judged like any other observation -- whatever the property, an input that kills the process breaks it
TVCrashAny == /\ l <= Len(Rec) /\ Rec[l].ev \in {"crash", "begin"}
              /\ viol' = IF Rec[l].ev = "crash" THEN AddViol(viol, {"ANY/process-killed-by-signal-" \o Str(Rec[l].signal)}, Rec[l].id) ELSE viol
              /\ l' = l + 1 /\ UNCHANGED <<fe, judged, cur, desync>>
TVNext == TVTeardown \/ TVReset \/ TVFlags \/ TVCall \/ TVCrashAny
TVSpec == TVInit /\ [][TVNext]_tvars
Post == PostOK
Report == ReportAt(l, judged, viol)
=============================================================================
