---------------------------- MODULE TV_FaultClass ----------------------------
(* Trace validation of the errs engine against FaultClass.tla (X05). *)
EXTENDS FaultClass, TVCommon
VARIABLES l, viol, judged
tvars == <<l, viol, judged>>
TVInit == l = 1 /\ viol = {} /\ judged = 0
EvViol(e) ==
    CASE e.t = "errno" ->
           (IF e.kind # ErrnoKind(e.e) THEN {"X05/errno-" \o Str(e.e) \o "/classified-as=" \o e.kind \o "/expected=" \o ErrnoKind(e.e)} ELSE {})
           \cup (IF e.inner # e.e THEN {"X05/errno-" \o Str(e.e) \o "/carried-errno-changed"} ELSE {})
           \cup (IF e.reconnect # ShouldReconnect(ErrnoKind(e.e)) THEN {"X05/errno-" \o Str(e.e) \o "/reconnect-advice=" \o Str(e.reconnect)} ELSE {})
      [] e.t = "kind" ->
           IF e.kind # e.k THEN {"X05/kind/" \o e.k \o "/constructed=" \o e.kind}
           ELSE IF e.reconnect # ShouldReconnect(e.k) THEN {"X05/kind/" \o e.k \o "/reconnect-advice=" \o Str(e.reconnect)} ELSE {}
      [] e.t = "stream" ->
           LET want == StreamKind(e.side, e.fault, e.got, 20) IN
           IF e.kind # want THEN {"X05/stream/" \o e.side \o "/" \o e.fault \o "/after-" \o Str(e.got) \o "-bytes/classified-as=" \o e.kind \o "/expected=" \o want}
           ELSE IF e.reconnect # ShouldReconnect(want) THEN {"X05/stream/" \o e.side \o "/" \o e.fault \o "/reconnect-advice=" \o Str(e.reconnect)} ELSE {}
      [] OTHER -> {}
TVStep == /\ l <= Len(Rec)
          /\ viol' = AddViol(viol, IF Rec[l].ev = "class" THEN EvViol(Rec[l]) ELSE {}, IF "id" \in DOMAIN Rec[l] THEN Rec[l].id ELSE -1)
          /\ judged' = judged + 1 /\ l' = l + 1
\* the process under test was killed by a signal while this case ran (recorded by the driver; `begin` marks the letter that
\* was in progress): judged like any other observation -- whatever the property, an input that kills the process breaks it
TVCrashAny == /\ l <= Len(Rec) /\ Rec[l].ev \in {"crash", "begin"}
              /\ viol' = IF Rec[l].ev = "crash" THEN AddViol(viol, {"ANY/process-killed-by-signal-" \o Str(Rec[l].signal)}, Rec[l].id) ELSE viol
              /\ l' = l + 1 /\ UNCHANGED judged
TVNext == TVStep \/ TVCrashAny
TVSpec == TVInit /\ [][TVNext]_tvars
Post == PostOK
Report == ReportAt(l, judged, viol)
=============================================================================
