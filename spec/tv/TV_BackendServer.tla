-------------------------- MODULE TV_BackendServer --------------------------
(***************************************************************************)
(* Trace validation: traces recorded by harness engine "server" (raw peer  *)
(* -> real BackendReqHandler) are replayed against the BackendServer       *)
(* reference model.  One trace record per step.  Deviations are collected  *)
(* as signatures (never stop at the first), printed by the postcondition.  *)
(* Properties decided here: C04 (replies / acks / nothing, in step),       *)
(* C07 backend side (gated request => no handler call).                    *)
(***************************************************************************)
EXTENDS BackendServer, WireFormat, TVCommon

VARIABLES s, devPF, l, viol, judged, cur

tvars == <<s, devPF, l, viol, judged, cur>>

\* expected size of the reply body for request e (GET_CONFIG: header + requested size)
ReplySize(e) == IF e.c = GET_CONFIG
                THEN (IF e.h = "ok" /\ e.shape = "" THEN 12 + e.args.plen ELSE 12)
                ELSE FeReplyBodySize(e.c)

OutViol(e, exp) ==
    LET tag == "c=" \o Str(e.c) \o "/nr=" \o Str(e.nr) \o "/h=" \o e.h IN
    IF exp.disp = "reject"
    THEN (IF e.nout = 0 /\ e.out_extra = 0 THEN {}
          ELSE IF e.nout = 1 /\ e.out[1].size = 8 /\ ~IsZero(e.out[1].val) /\ e.out[1].c = e.c THEN {}
          ELSE {"C04/rejected-request-answered/" \o tag})
    ELSE CASE exp.out = "none" ->
                IF e.nout = 0 /\ e.out_extra = 0 THEN {} ELSE {"C04/unexpected-output/" \o tag}
           [] exp.out = "reply" ->
                IF e.nout # 1 \/ e.out_extra # 0 THEN {"C04/reply-count=" \o Str(e.nout) \o "/" \o tag}
                ELSE LET m == e.out[1] IN
                     (IF m.c # e.c THEN {"C04/reply-code/" \o tag} ELSE {})
                     \cup (IF m.flags # FLAG_VERSION + FLAG_REPLY THEN {"C04/reply-flags=" \o Str(m.flags) \o "/" \o tag} ELSE {})
                     \cup (IF m.size # ReplySize(e) THEN {"C04/reply-size=" \o Str(m.size) \o "/" \o tag} ELSE {})
           [] exp.out \in {"ack0", "nack"} ->
                IF e.nout # 1 \/ e.out_extra # 0 THEN {"C04/ack-count=" \o Str(e.nout) \o "/" \o tag}
                ELSE LET m == e.out[1] IN
                     (IF m.c # e.c THEN {"C04/ack-code/" \o tag} ELSE {})
                     \cup (IF m.flags # FLAG_VERSION + FLAG_REPLY THEN {"C04/ack-flags=" \o Str(m.flags) \o "/" \o tag} ELSE {})
                     \cup (IF m.size # 8 THEN {"C04/ack-size=" \o Str(m.size) \o "/" \o tag} ELSE {})
                     \cup (IF m.nfds # 0 THEN {"C04/ack-fds/" \o tag} ELSE {})
                     \cup (IF (exp.out = "ack0") # IsZero(m.val) THEN {"C04/ack-value/" \o tag} ELSE {})

DispViol(e, exp) ==
    LET tag == "c=" \o Str(e.c) IN
    IF exp.disp = "reject"
    THEN (IF e.ncalls = 0 THEN {}
          ELSE IF e.c \in FeServed THEN {"C07/backend/gated-request-dispatched/" \o tag}
          ELSE {"C04/unserved-request-dispatched/" \o tag})
    ELSE (IF e.ncalls = 1 THEN {} ELSE {"C04/dispatch-count=" \o Str(e.ncalls) \o "/" \o tag})

ConsumeViol(e) ==
    IF e.leftover = 0 THEN {} ELSE {"C04/consumed-wrong-length/c=" \o Str(e.c)}

\* C01 (backend side): the reply bytes / descriptors encode the handler's values; the handler saw
\* exactly the values the independent peer encoded
SrvArgKeys(c) ==
    CASE c \in {SET_FEATURES, SET_PROTOCOL_FEATURES} -> {"v"}
      [] c \in {SET_VRING_NUM, SET_VRING_BASE, SET_VRING_ENABLE} -> {"index", "v"}
      [] c \in {GET_VRING_BASE, SET_VRING_KICK, SET_VRING_CALL, SET_VRING_ERR} -> {"index"}
      [] c = SET_VRING_ADDR -> {"index", "flags", "desc", "used", "avail", "log"}
      [] c \in {SET_MEM_TABLE, ADD_MEM_REG, REM_MEM_REG} -> {"regions"}
      [] c = GET_CONFIG -> {"offset", "size", "flags"}
      [] c = SET_CONFIG -> {"offset", "size", "flags", "payload"}
      [] c = GET_SHARED_OBJECT -> {"uuid"}
      [] c \in {GET_INFLIGHT_FD, SET_INFLIGHT_FD} -> {"mmap_size", "mmap_offset", "num_queues", "queue_size"}
      [] c = SET_LOG_BASE -> {"mmap_size", "mmap_offset"}
      [] c = SET_DEVICE_STATE_FD -> {"direction", "phase"}
      [] OTHER -> {}
FileCodes == {SET_MEM_TABLE, ADD_MEM_REG, SET_INFLIGHT_FD, SET_LOG_BASE, SET_DEVICE_STATE_FD, SET_VRING_KICK, SET_VRING_CALL, SET_VRING_ERR}

CodecViol(e, exp) ==
    LET tag == "c=" \o Str(e.c) IN
    IF exp.disp # "dispatch" \/ e.ncalls # 1 THEN {}
    ELSE LET c == e.calls[1]
             ok == e.h = "ok" /\ e.shape # "wronglen"
             withFile == e.hv.ret_file # "none" IN
         {"C01/backend/decoded-argument-differs/" \o tag \o "/" \o k : k \in {k \in SrvArgKeys(e.c) :
                k \notin DOMAIN c \/ k \notin DOMAIN e.args \/ c[k] # e.args[k]}}
         \cup (IF e.c \in FileCodes /\ (c.nfiles # e.nfds \/ c.files # e.fdids) THEN {"C01/backend/received-descriptors-differ/" \o tag} ELSE {})
         \* what the server wrote does not parse into whole messages: a header whose size field is not the number of bytes
         \* that follow it (a reader that trusts the field waits, or takes the head of the next message for payload)
         \cup (IF exp.out \in {"reply", "ack0", "nack"} /\ e.out_extra > 0
               THEN {"C01/backend/size-field-differs-from-the-bytes-that-follow/" \o tag \o "/h=" \o e.h} ELSE {})
         \cup (IF exp.out = "reply" /\ e.nout = 1
               THEN LET m == e.out[1] body == FeReplyBody(e.c, e.args, e.hv, ok, withFile) IN
                    (IF FeReplyJudgedBytes(e.c, ok) /\ (Len(m.bytes) < Len(body) \/ SubSeq(m.bytes, 1, Len(body)) # body)
                     THEN {"C01/backend/reply-bytes/" \o tag \o "/h=" \o e.h} ELSE {})
                    \cup (IF e.c = CHECK_DEVICE_STATE /\ ~ok /\ IsZero(m.val) THEN {"C01/backend/failure-encoded-as-zero/" \o tag} ELSE {})
                    \cup (IF m.nfds # FeReplyFds(e.c, ok, withFile) THEN {"C01/backend/reply-descriptor-count/" \o tag \o "/h=" \o e.h} ELSE {})
                    \cup (IF FeReplyFds(e.c, ok, withFile) = 1 /\ m.fdids # <<e.hv.ret_file>> THEN {"C01/backend/reply-descriptor-identity/" \o tag} ELSE {})
                    \cup (IF ~m.fd_first THEN {"C01/backend/descriptors-not-with-first-byte/" \o tag} ELSE {})
                    \* the header of the reply: same code, version 1 + REPLY and nothing else, size of the payload
                    \cup (IF m.flags # FLAG_VERSION + FLAG_REPLY THEN {"C01/backend/reply-header-flags=" \o Str(m.flags) \o "/" \o tag} ELSE {})
                    \cup (IF m.c # e.c THEN {"C01/backend/reply-header-code/" \o tag} ELSE {})
               ELSE IF exp.out \in {"ack0", "nack"} /\ e.nout = 1
               THEN LET m == e.out[1] IN
                    (IF m.flags # FLAG_VERSION + FLAG_REPLY THEN {"C01/backend/ack-header-flags=" \o Str(m.flags) \o "/" \o tag} ELSE {})
                    \cup (IF m.c # e.c \/ m.size # 8 THEN {"C01/backend/ack-header/" \o tag} ELSE {})
               ELSE {})

\* C05: hostile input.  The handler is invoked only with arguments that satisfy the protocol's
\* validity rules and with exactly the prescribed descriptors; a request that breaks one of the
\* listed rules is rejected with an error; nothing panics.
V == INSTANCE Validators
Lo2(x) == SubSeq(x, 1, 2)
RegionOK(r) == V!Region([gpa |-> r.gpa, size |-> r.size, ua |-> r.ua, off |-> r.off]) # "no"
CallArgsViol(c) ==
    CASE c.op = "set_mem_table" ->
            (IF Len(c.regions) \notin 1..32 THEN {"region-count"} ELSE {})
            \cup (IF c.nfiles # Len(c.regions) THEN {"files-per-region"} ELSE {})
            \cup (IF \E i \in 1..Len(c.regions) : ~RegionOK(c.regions[i]) THEN {"region"} ELSE {})
      [] c.op = "add_mem_region" -> (IF ~RegionOK(c.regions[1]) THEN {"region"} ELSE {}) \cup (IF c.nfiles # 1 THEN {"files"} ELSE {})
      [] c.op = "remove_mem_region" -> IF ~RegionOK(c.regions[1]) THEN {"region"} ELSE {}
      [] c.op = "set_vring_addr" ->
            IF V!VringAddr([flags |-> <<c.flags, 0>>, desc |-> c.desc, avail |-> c.avail, used |-> c.used]) = "no" THEN {"ring-address"} ELSE {}
      [] c.op \in {"get_config", "set_config"} ->
            IF c.offset[3] # 0 \/ c.offset[4] # 0 \/ c.size[3] # 0 \/ c.size[4] # 0
               \/ V!Config([offset |-> Lo2(c.offset), size |-> Lo2(c.size), flags |-> <<c.flags, 0>>]) = "no"
            THEN {"config-window"} ELSE {}
      [] OTHER -> {}
Prescribed(e) ==
    CASE e.c = SET_MEM_TABLE -> IF "n" \in DOMAIN e.args THEN e.args.n ELSE 1
      [] e.c \in {SET_VRING_KICK, SET_VRING_CALL, SET_VRING_ERR} -> IF "nofd" \in DOMAIN e.args /\ e.args.nofd THEN 0 ELSE 1
      [] e.c \in {SET_LOG_BASE, SET_BACKEND_REQ_FD, SET_INFLIGHT_FD, ADD_MEM_REG, SET_DEVICE_STATE_FD, GPU_SET_SOCKET} -> 1
      [] OTHER -> 0
ListedBodyRule(e) ==
    \/ e.c = SET_MEM_TABLE /\ e.var \in {"body.nregions0", "body.nregions33", "body.size0", "body.gpa_wrap", "body.ua_wrap", "body.off_wrap",
                                         "body.size_max", "body.len_short", "body.len_long"}
    \/ e.c \in {ADD_MEM_REG, REM_MEM_REG} /\ e.var \in {"body.size0", "body.gpa_wrap", "body.ua_wrap", "body.off_wrap", "body.size_max"}
    \/ e.c = SET_VRING_ADDR /\ e.var \in {"body.flags_undef", "body.desc_unaligned", "body.used_unaligned", "body.avail_unaligned"}
    \/ e.c \in {GET_CONFIG, SET_CONFIG} /\ e.var \in {"body.size0", "body.end_gt", "body.wrap", "body.size_huge", "body.flags_undef", "body.payload_short", "body.payload_long"}
    \/ e.c = SET_VRING_ENABLE /\ e.var = "body.num2"
    \/ e.c \in {SET_VRING_KICK, SET_VRING_CALL, SET_VRING_ERR} /\ e.var \in {"body.nofdbit_with_fd", "body.fdbit_without_fd"}
HostileViol(e) ==
    LET tag == "c=" \o Str(e.c) \o "/" \o e.var IN
    (IF e.res = "panic" THEN {"C05/panic/" \o tag} ELSE {})
    \cup (IF e.ncalls > 0 THEN {"C05/handler-invoked-with-invalid-arguments/c=" \o Str(e.c) \o "/" \o r : r \in CallArgsViol(e.calls[1])} ELSE {})
    \cup (IF e.ncalls > 0 /\ e.c \in FeServed /\ e.nfds # Prescribed(e)
          THEN {"C05/dispatched-with-wrong-descriptor-count/c=" \o Str(e.c) \o "/sent=" \o (IF e.nfds > 2 THEN "many" ELSE Str(e.nfds))} ELSE {})
    \cup (IF e.ncalls > 0 /\ "files" \in DOMAIN e.calls[1] /\ \E i \in 1..Len(e.calls[1].files) :
                (e.calls[1].files[i] \notin ToSet(e.fdids) \/ \E j \in 1..Len(e.calls[1].files) : j # i /\ e.calls[1].files[j] = e.calls[1].files[i])
          THEN {"C09/backend-server/descriptor-delivered-twice-or-unknown/c=" \o Str(e.c)} ELSE {})
    \cup (IF ListedBodyRule(e) /\ (e.ncalls > 0 \/ e.res = "ok") THEN {"C05/invalid-request-accepted/" \o tag} ELSE {})
    \cup (IF e.res \notin {"ok", "panic"} /\ ~e.res_ok /\ e.hang THEN {"C05/hang/" \o tag} ELSE {})

\* C07: the server always offers REPLY_ACK (bit 3), whatever the device offers
OfferViol(e) ==
    IF e.c = GET_PROTOCOL_FEATURES /\ e.h = "ok" /\ e.nout = 1 /\ e.out[1].size = 8 /\ (e.out[1].val[1] \div 8) % 2 = 0
    THEN {"C07/backend/reply-ack-not-offered"} ELSE {}

CrashViol(e) ==
    IF e.res = "panic" THEN {"C05/panic/c=" \o Str(e.c) \o "/var=" \o e.var}
    ELSE IF e.res \notin {"ok"} /\ SubSeq(e.res, 1, 4) = "hang" THEN {"C04/hang/c=" \o Str(e.c)}
    ELSE {}

TVInit == /\ s = SrvInit /\ devPF = FALSE /\ l = 1 /\ viol = {} /\ judged = 0 /\ cur = -1

TVReset == /\ l <= Len(Rec) /\ Rec[l].ev = "reset"
           /\ s' = SrvInit
           /\ devPF' = (VF_PROTOCOL_FEATURES \in ToSet(Rec[l].dev.vf))
           /\ l' = l + 1
           /\ cur' = Rec[l].id
           /\ UNCHANGED <<viol, judged>>

\* C08: a request cut off by end-of-stream: error (clean "disconnected" only before the first byte),
\* nothing dispatched, nothing answered, no hang
CutViol(e) ==
    LET tag == "c=" \o Str(e.c) \o "/at=" \o (IF e.cut = 0 THEN "0" ELSE IF e.cut < HDR_SIZE THEN "header" ELSE IF e.cut = HDR_SIZE THEN "header-end" ELSE "body") IN
    (IF e.ncalls # 0 THEN {"C08/backend/truncated-request-dispatched/" \o tag,
                           \* in terms of C05: the handler was invoked with bytes that were never received
                           "C05/handler-invoked-for-truncated-request/c=" \o Str(e.c)} ELSE {})
    \cup (IF e.nout # 0 /\ ~e.reset THEN {"C08/backend/truncated-request-answered/" \o tag} ELSE {})
    \cup (IF e.res = "ok" THEN {"C08/backend/truncation-not-reported/" \o tag}
          ELSE IF e.res = "panic" THEN {"C05/panic/c=" \o Str(e.c) \o "/var=cut"}
          ELSE IF e.res \notin {"err:Disconnected", "err:PartialMessage", "err:InvalidMessage", "err:SocketBroken", "err:SocketError"}
                  /\ e.res \notin {"err:InactiveOperation", "err:InactiveFeature", "err:InvalidParam", "err:IncorrectFds"}
               THEN {"C08/backend/blocked-on-truncated-stream/" \o tag}
          \* a peer that went away abruptly (connection reset): at a message boundary either a clean disconnect or a broken
          \* socket may be reported, inside a message never a clean disconnect; the reply it left unread is not judged
          ELSE IF e.reset /\ e.cut = 0 THEN {}
          ELSE IF e.cut = 0 /\ e.res # "err:Disconnected" THEN {"C08/backend/boundary-eof-not-disconnected/" \o tag}
          ELSE IF e.cut > 0 /\ e.res = "err:Disconnected" THEN {"C08/backend/mid-message-eof-reported-as-clean-disconnect/" \o tag \o (IF e.reset THEN "/after-reset" ELSE "")}
          ELSE {})

TVReq == /\ l <= Len(Rec) /\ Rec[l].ev = "req"
         /\ LET e == Rec[l]
                a == [c |-> e.c, nr |-> e.nr, h |-> e.h, v |-> ToSet(e.v)]
                exp == SrvExpect(s, a, devPF)
                dev == OutViol(e, exp) \cup DispViol(e, exp) \cup ConsumeViol(e) \cup CrashViol(e) \cup OfferViol(e) \cup CodecViol(e, exp)
            IN IF e.cut >= 0
               THEN /\ viol' = AddViol(viol, CutViol(e), cur)
                    /\ judged' = judged + 1
                    /\ UNCHANGED s
               ELSE IF e.var \in {"valid", "fixed", "max"}
               THEN /\ viol' = AddViol(viol, IF e.seg = <<>> THEN dev \cup HostileViol(e)
                                             ELSE IF dev = {} THEN {}
                                             ELSE {"C08/backend/segmented-request-mishandled/c=" \o Str(e.c) \o "/" \o e.res}, cur)
                    /\ s' = SrvNext(s, a, devPF)
                    /\ judged' = judged + 1
               ELSE /\ viol' = AddViol(viol, HostileViol(e), cur)
                    /\ judged' = judged + 1
                    /\ UNCHANGED s
         /\ l' = l + 1
         /\ UNCHANGED <<devPF, cur>>

TVTeardown == /\ l <= Len(Rec) /\ Rec[l].ev = "teardown"
              /\ viol' = AddViol(viol, TeardownViol(Rec[l], "backend-server"), cur)
              /\ l' = l + 1
              /\ UNCHANGED <<s, devPF, judged, cur>>

\* the process hosting the server was killed by a signal (recorded by the driver): e.g. the double close of a descriptor
\* the library gave away and also kept makes the Rust runtime abort when the application drops its copy
TVCrash == /\ l <= Len(Rec) /\ Rec[l].ev = "crash"
           /\ LET prev == IF l > 1 /\ Rec[l - 1].ev = "req" THEN "after-c=" \o Str(Rec[l - 1].c) \o "/var=" \o Rec[l - 1].var ELSE "no-request"
                  sg == Str(Rec[l].signal) IN
              viol' = AddViol(viol, {"C09/backend-server/process-killed-by-signal-" \o sg \o "-at-or-before-teardown/" \o prev,
                                     "C05/process-killed-by-signal-" \o sg \o "/" \o prev}, cur)
           /\ l' = l + 1
           /\ UNCHANGED <<s, devPF, judged, cur>>

TVNext == TVTeardown \/ TVReset \/ TVReq \/ TVCrash
TVSpec == TVInit /\ [][TVNext]_tvars

Post == PostOK
Report == ReportAt(l, judged, viol)
=============================================================================
