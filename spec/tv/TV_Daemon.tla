------------------------------ MODULE TV_Daemon ------------------------------
(***************************************************************************)
(* Trace validation for C16: the controller commands executed on a real    *)
(* VhostUserDaemon are replayed as actions of DaemonLifecycle (each must   *)
(* be enabled: the recorded run is a behaviour of the model); at the end   *)
(* the observed wait() result, what the peer sees, the restart and the     *)
(* thread count are compared with the model / the statement.               *)
(***************************************************************************)
EXTENDS TVCommon
VARIABLES tpc, err, flag, sock, cpc, peerOpen, consumed, ncallers, peerSends, peerCloses, off, l, viol, judged, cur
tvars == <<tpc, err, flag, sock, cpc, peerOpen, consumed, ncallers, peerSends, peerCloses, off, l, viol, judged, cur>>

Pending == IF peerSends = "flood" THEN "full_reply" ELSE IF consumed THEN "nothing" ELSE peerSends
EndOfStream == sock = "shut" \/ ~peerOpen
\* the spontaneous step of the model: the blocked read returns
AfterRead(t, e, c) ==     \* <<tpc, err, consumed>> after ReadDone if it is enabled
    IF t = "reading" /\ Pending = "full" /\ ~c THEN <<"handling", e, TRUE>>
    ELSE IF t = "reading" /\ (IF c THEN "nothing" ELSE peerSends) # "full" /\ EndOfStream
         THEN <<"final", CASE (IF c THEN "nothing" ELSE peerSends) = "nothing" -> "Disconnected"
                            [] (IF c THEN "nothing" ELSE peerSends) = "part_hdr" -> "PartialMessage" [] OTHER -> "InvalidMessage", c>>
    ELSE <<t, e, c>>

TVInit == /\ tpc = "top" /\ err = "none" /\ flag = FALSE /\ sock = "open" /\ cpc = <<"start", "start", "start">> /\ peerOpen = TRUE /\ consumed = FALSE
          /\ ncallers = 0 /\ peerSends = "nothing" /\ peerCloses = FALSE /\ off = FALSE /\ l = 1 /\ viol = {} /\ judged = 0 /\ cur = -1
TVReset == /\ l <= Len(Rec) /\ Rec[l].ev = "reset"
           /\ tpc' = "top" /\ err' = "none" /\ flag' = FALSE /\ sock' = "open" /\ cpc' = <<"start", "start", "start">> /\ peerOpen' = TRUE /\ consumed' = FALSE
           /\ ncallers' = Rec[l].callers /\ peerSends' = Rec[l].peer /\ peerCloses' = Rec[l].peer_closes /\ off' = FALSE
           /\ cur' = Rec[l].id /\ l' = l + 1 /\ UNCHANGED <<viol, judged>>

\* one controller command = one model action (must be enabled)
TVCmd == /\ l <= Len(Rec) /\ Rec[l].ev = "cmd"
         /\ LET e == Rec[l]
                enabled == CASE e.c = "store" -> cpc[e.a] = "start"
                             [] e.c = "shut" -> cpc[e.a] = "flagged"
                             [] e.c = "peer_close" -> peerOpen
                             [] e.c = "t" -> tpc \in {"top", "replied", "final"}
                             [] e.c = "handler_return" -> tpc = "handling"
                             [] OTHER -> FALSE
                t1 == CASE e.c = "t" /\ tpc = "top" -> "reading" [] e.c = "t" /\ tpc = "replied" -> "top" [] e.c = "t" /\ tpc = "final" -> "exited"
                        [] e.c = "handler_return" -> (IF peerSends = "flood" THEN "writing"
                                                      ELSE IF peerSends = "full_reply" /\ (sock = "shut" \/ ~peerOpen) THEN "final" ELSE "replied")
                        [] OTHER -> tpc
                e1 == IF e.c = "handler_return" /\ peerSends = "full_reply" /\ (sock = "shut" \/ ~peerOpen) THEN "SocketBroken" ELSE err
                sock1 == IF e.c = "shut" \/ (e.c = "t" /\ tpc = "final") THEN "shut" ELSE sock
                po1 == IF e.c = "peer_close" THEN FALSE ELSE peerOpen
            IN /\ off' = (off \/ ~enabled \/ ~e.done)
               /\ flag' = (flag \/ e.c = "store")
               /\ cpc' = IF e.c = "store" THEN [cpc EXCEPT ![e.a] = "flagged"] ELSE IF e.c = "shut" THEN [cpc EXCEPT ![e.a] = "done"] ELSE cpc
               /\ sock' = sock1 /\ peerOpen' = po1
               \* ReadDone fires by itself as soon as it is enabled (evaluated with the new socket / peer state)
               /\ LET r == IF t1 = "reading" /\ Pending \in {"full", "full_reply"} THEN <<"handling", e1, TRUE>>
                           \* the blocked write of a reply fails once the socket is shut down or the peer is gone
                           ELSE IF t1 = "writing" /\ (sock1 = "shut" \/ ~po1) THEN <<"final", "SocketBroken", consumed>>
                           ELSE IF t1 = "reading" /\ (sock1 = "shut" \/ ~po1)
                                THEN <<"final", CASE Pending = "nothing" -> "Disconnected" [] Pending = "part_hdr" -> "PartialMessage" [] OTHER -> "InvalidMessage", consumed>>
                                ELSE <<t1, e1, consumed>> IN
                  /\ tpc' = r[1] /\ err' = r[2] /\ consumed' = r[3]
               /\ viol' = IF ~enabled /\ ~off THEN AddViol(viol, {"C16/recorded-run-is-not-a-behaviour-of-the-model/cmd=" \o e.c}, cur) ELSE viol
         /\ judged' = judged + 1 /\ l' = l + 1 /\ UNCHANGED <<ncallers, peerSends, peerCloses, cur>>

WaitModel == IF err \in {"none", "SocketBroken"} \/ flag THEN "Ok" ELSE "Err"
TVEnd == /\ l <= Len(Rec) /\ Rec[l].ev = "end"
         /\ LET e == Rec[l]
                gotOk == e.wait = "Ok"
                tag == "/callers=" \o Str(ncallers) \o "/peer=" \o peerSends \o (IF peerCloses THEN "+close" ELSE "") IN
            viol' = AddViol(viol,
                (IF e.wait = "hang" THEN {"C16/wait-does-not-return" \o tag} ELSE
                 (IF ncallers >= 1 /\ ~gotOk THEN {"C16/wait-after-shutdown-is-an-error" \o tag \o "/" \o e.wait} ELSE {})
                 \cup (IF ncallers = 0 /\ ~off /\ gotOk # (WaitModel = "Ok") THEN {"C16/wait-without-shutdown/expected=" \o WaitModel \o "/got=" \o e.wait \o tag} ELSE {})
                 \cup (IF ~e.restart_ok THEN {"C16/no-new-connection-after-wait" \o tag} ELSE {})
                 \cup (IF e.second_wait # "Ok" THEN {"C16/repeated-shutdown-and-wait=" \o e.second_wait} ELSE {}))
                \cup (IF e.peer_sees = "no_eof" THEN {"C16/peer-sees-no-end-of-stream" \o tag} ELSE {})
                \cup (IF e.threads_after > e.threads_before THEN {"C16/threads-left-after-drop"} ELSE {}), cur)
         /\ l' = l + 1 /\ UNCHANGED <<tpc, err, flag, sock, cpc, peerOpen, consumed, ncallers, peerSends, peerCloses, off, judged, cur>>
\* the convenience serve(): clean and partial-header disconnects are success, any later cut an error;
\* every worker's exit event is raised whatever the outcome
ServeViol(e) ==
    LET where == IF e.cut = 0 THEN "boundary" ELSE IF e.cut < 12 THEN "partial-header" ELSE IF e.cut < e.len THEN "body" ELSE "after-complete-request"
        wantOk == e.cut < 12 \/ e.cut >= e.len IN
    (IF e.res = "hang" THEN {"C16/serve-does-not-return/" \o where}
     ELSE IF (e.res = "Ok") # wantOk THEN {"C16/serve-result/disconnect-at-" \o where \o "/got=" \o e.res} ELSE {})
    \cup (IF e.workers_left > 0 THEN {"C16/serve-left-worker-threads-running/" \o where} ELSE {})
\* the daemon object dropped while its connection is up (no shutdown request, no wait): its threads go away, the peer sees
\* end-of-stream
DropConnViol(e) ==
    (IF ~e.dropped THEN {"C16/drop-of-a-connected-daemon-does-not-return/peer-sent=" \o e.sent} ELSE {})
    \cup (IF e.threads_after > e.threads_before THEN {"C16/threads-left-after-drop/daemon-dropped-while-connected/peer-sent=" \o e.sent} ELSE {})
    \cup (IF e.peer_sees # "eof" THEN {"C16/peer-sees-no-end-of-stream/daemon-dropped-while-connected/peer-sent=" \o e.sent} ELSE {})
TVOther == /\ l <= Len(Rec) /\ Rec[l].ev \in {"hook", "threads", "serve", "dropconn"} /\ l' = l + 1
           /\ viol' = IF Rec[l].ev = "threads" /\ Rec[l].exit /\ Rec[l].after > Rec[l].before THEN AddViol(viol, {"C16/threads-left-after-drop"}, cur)
                      ELSE IF Rec[l].ev = "serve" THEN AddViol(viol, ServeViol(Rec[l]), cur)
                      ELSE IF Rec[l].ev = "dropconn" THEN AddViol(viol, DropConnViol(Rec[l]), cur) ELSE viol
           /\ UNCHANGED <<tpc, err, flag, sock, cpc, peerOpen, consumed, ncallers, peerSends, peerCloses, off, judged, cur>>
\* the process under test was killed by a signal while this case ran (recorded by the driver; `begin` marks the letter that
\* was in progress): judged like any other observation -- whatever the property, an input that kills the process breaks it
TVCrashAny == /\ l <= Len(Rec) /\ Rec[l].ev \in {"crash", "begin"}
              /\ viol' = IF Rec[l].ev = "crash" THEN AddViol(viol, {"ANY/process-killed-by-signal-" \o Str(Rec[l].signal)}, Rec[l].id) ELSE viol
              /\ l' = l + 1 /\ UNCHANGED <<tpc, err, flag, sock, cpc, peerOpen, consumed, ncallers, peerSends, peerCloses, off, judged, cur>>
TVNext == TVReset \/ TVCmd \/ TVEnd \/ TVOther \/ TVCrashAny
TVSpec == TVInit /\ [][TVNext]_tvars
Post == PostOK
Report == ReportAt(l, judged, viol)
=============================================================================
