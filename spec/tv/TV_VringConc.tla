---------------------------- MODULE TV_VringConc ----------------------------
(***************************************************************************)
(* Trace validation for C12: the events recorded at the hold points of a   *)
(* real daemon stepped through a TLC-generated schedule, judged by the two *)
(* clauses of the property:                                                *)
(*  P1  once the reply to a disabling/stopping message has been sent, the  *)
(*      event handler is not entered for the ring until an enabling or     *)
(*      starting message begins;                                           *)
(*  P2  a kick raised on the ring's descriptor is eventually followed by a *)
(*      handler invocation while the ring is started and enabled (no       *)
(*      wake-up is consumed without being processed); the worker survives. *)
(***************************************************************************)
EXTENDS TVCommon
VARIABLES quiet, lastOff, owed, eaten, wpc, wAtChange, script, late, l, viol, judged, cur, opq
tvars == <<quiet, lastOff, owed, eaten, wpc, wAtChange, script, late, l, viol, judged, cur, opq>>

\* The control messages are served in the order they were sent (opq: sent, not yet answered).  "The reply has been sent"
\* is the daemon thread's own `d.after_request` hook (fired after handle_request() has written the answer), not the moment
\* the test peer happens to read it; an enabling / starting message "begins" when the daemon turns to it, i.e. when it is
\* sent with nothing before it in the queue or when the message before it has been answered.
Off == {"disable", "stop", "reset"}
On == {"enable", "start", "restart"}

RECURSIVE Join(_)
Join(sq) == IF sq = <<>> THEN "" ELSE sq[1] \o (IF Len(sq) > 1 THEN "-" ELSE "") \o Join(Tail(sq))

TVInit == /\ quiet = FALSE /\ lastOff = "" /\ owed = FALSE /\ eaten = FALSE /\ wpc = "wait" /\ wAtChange = "" /\ script = <<>> /\ late = FALSE /\ opq = <<>>
          /\ l = 1 /\ viol = {} /\ judged = 0 /\ cur = -1
TVReset == /\ l <= Len(Rec) /\ Rec[l].ev = "reset"
           /\ quiet' = FALSE /\ lastOff' = "" /\ owed' = FALSE /\ eaten' = FALSE /\ wpc' = "wait" /\ wAtChange' = "" /\ script' = Rec[l].script /\ late' = FALSE /\ opq' = <<>>
           /\ cur' = Rec[l].id /\ l' = l + 1 /\ UNCHANGED <<viol, judged>>

TVEvent == /\ l <= Len(Rec) /\ Rec[l].ev \in {"kick", "begin", "reply", "hook", "dispatch", "skipped"}
           /\ LET e == Rec[l] IN
              /\ LET answered == e.ev = "hook" /\ e.p = "d.after_request" /\ opq # <<>>
                     done == IF answered THEN Head(opq) ELSE ""
                     rest == IF answered THEN Tail(opq) ELSE opq IN
                 /\ opq' = IF e.ev = "begin" THEN Append(opq, e.op) ELSE rest
                 /\ quiet' = CASE e.ev = "begin" /\ opq = <<>> /\ e.op \in On -> FALSE
                               [] answered /\ rest # <<>> /\ Head(rest) \in On -> FALSE
                               [] answered /\ done \in Off -> TRUE
                               [] OTHER -> quiet
                 /\ lastOff' = IF answered /\ done \in Off THEN done ELSE lastOff
              /\ owed' = CASE e.ev = "kick" -> TRUE
                           [] e.ev = "hook" /\ e.p = "c.after_dropkick" -> FALSE
                           [] e.ev = "dispatch" /\ ~quiet -> FALSE     \* served before any disabling reply went out
                           [] OTHER -> owed
              /\ eaten' = CASE e.ev = "kick" -> FALSE
                            [] e.ev = "hook" /\ e.p = "w.after_read" /\ ~e.enabled_seen /\ owed -> TRUE
                            [] OTHER -> eaten
              /\ wpc' = CASE e.ev = "hook" /\ e.p = "w.after_wait" -> "woken"
                          [] e.ev = "hook" /\ e.p = "w.after_read" -> "read"
                          [] e.ev = "hook" /\ e.p = "w.before_dispatch" -> "predispatch"
                          [] e.ev = "hook" /\ e.p \in {"w.before_wait", "w.after_dispatch"} -> "wait"
                          [] OTHER -> wpc
              /\ wAtChange' = IF e.ev = "hook" /\ e.p = "c.after_state" THEN wpc ELSE wAtChange
              \* a kick that was processed late (P1 already reported) is not also reported as never processed
              /\ late' = (late \/ (e.ev = "dispatch" /\ quiet))
              /\ viol' = IF e.ev = "dispatch" /\ quiet
                         THEN AddViol(viol, {"C12/P1/handler-entered-after-" \o lastOff \o "-reply/worker-at-state-change=" \o wAtChange}, cur)
                         ELSE viol
           /\ judged' = judged + 1 /\ l' = l + 1 /\ UNCHANGED <<script, cur>>

TVEnd == /\ l <= Len(Rec) /\ Rec[l].ev = "end"
         /\ LET e == Rec[l] IN
            viol' = AddViol(viol,
                (IF ~e.worker_alive THEN {"C12/P2/worker-thread-terminated/script=" \o Join(script)} ELSE {})
                \cup (IF e.worker_alive /\ e.final_active /\ e.final_has_kick /\ owed /\ ~late
                      THEN {"C12/P2/kick-never-processed/script=" \o Join(script) \o (IF eaten THEN "/wake-up-consumed-while-disabled" ELSE "")} ELSE {})
                \cup (IF e.unanswered > 0 THEN {"C12/control-message-unanswered/script=" \o Join(script)} ELSE {}), cur)
         /\ l' = l + 1 /\ UNCHANGED <<quiet, lastOff, owed, eaten, wpc, wAtChange, script, late, judged, cur, opq>>
TVOther == /\ l <= Len(Rec) /\ Rec[l].ev \in {"threads", "unexpected_wake"} /\ l' = l + 1 /\ UNCHANGED <<quiet, lastOff, owed, eaten, wpc, wAtChange, script, late, viol, judged, cur, opq>>
\* the process under test was killed by a signal while this case ran (recorded by the driver; `begin` marks the letter that
\* was in progress): judged like any other observation -- whatever the property, an input that kills the process breaks it
TVCrashAny == /\ l <= Len(Rec) /\ Rec[l].ev = "crash"
              /\ viol' = IF Rec[l].ev = "crash" THEN AddViol(viol, {"ANY/process-killed-by-signal-" \o Str(Rec[l].signal)}, Rec[l].id) ELSE viol
              /\ l' = l + 1 /\ UNCHANGED <<quiet, lastOff, owed, eaten, wpc, wAtChange, script, late, judged, cur, opq>>
TVNext == TVReset \/ TVEvent \/ TVEnd \/ TVOther \/ TVCrashAny
TVSpec == TVInit /\ [][TVNext]_tvars
Post == PostOK
Report == ReportAt(l, judged, viol)
=============================================================================
