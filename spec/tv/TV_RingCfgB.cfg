SPECIFICATION TVSpec
CONSTANTS NQ = 2
 MAXQ = 256
 Offered = {0, 29, 30, 32}
INVARIANT Report
POSTCONDITION Post
CHECK_DEADLOCK FALSE
