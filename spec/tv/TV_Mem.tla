------------------------------- MODULE TV_Mem -------------------------------
(* Trace validation of the daemon engine against MemTable.tla (C13). *)
EXTENDS MemTable, TVCommon
VARIABLES table, pool, upd, l, viol, judged, cur, dead
tvars == <<table, pool, upd, l, viol, judged, cur, dead>>

Geo(T) == {[gpa |-> pool[r + 1].gpa, size |-> pool[r + 1].size] : r \in T}
Sum4(x, y) == LET c1 == (x[1] + y[1]) \div 65536  c2 == (x[2] + y[2] + c1) \div 65536  c3 == (x[3] + y[3] + c2) \div 65536 IN
              <<(x[1] + y[1]) % 65536, (x[2] + y[2] + c1) % 65536, (x[3] + y[3] + c2) % 65536, (x[4] + y[4] + c3) % 65536>>

UpdateViol(e) ==
    LET lt == e.letter
        \* a region whose user range ends exactly at 2^64 may be refused (TopOpen in MemTable.tla)
        IsTop(r) == "top" \in DOMAIN pool[r + 1] /\ pool[r + 1].top
        \* a descriptor opened read-only cannot back a region whose bytes the backend's writes must reach: refusing it is what the
        \* pinned code does (the shared writable mapping fails); acceptance is left open and then judged by the probes, which
        \* require backend writes to be visible in the file
        RdOnly == "rdonly" \in DOMAIN lt /\ lt.rdonly
        v == CASE e.op = "set_mem_table" -> TopOpen(SetVerdict(lt.rids, lt.badfd), RdOnly \/ \E i \in 1..Len(lt.rids) : IsTop(lt.rids[i]))
               [] e.op = "add_mem_reg" -> TopOpen(AddVerdict(table, lt.rid, lt.badfd), RdOnly \/ IsTop(lt.rid))
               [] OTHER -> RemVerdict(table, lt.rid, lt.size_delta)
        acc == e.status = "ok"
        t2 == IF ~acc THEN table ELSE CASE e.op = "set_mem_table" -> SeqToSet(lt.rids) [] e.op = "add_mem_reg" -> table \cup {lt.rid} [] OTHER -> RemResult(table, lt.rid)
        ups == {c \in ToSet(e.cbs) : c.cb = "update_memory"} IN
    (IF (v = "must_ok" /\ ~acc) \/ (v = "must_fail" /\ acc) THEN {"C13/update-outcome/" \o e.op \o "/" \o v \o "/got=" \o e.status} ELSE {})
    \cup (IF e.updates - upd # (IF acc THEN 1 ELSE 0) THEN {"C13/backend-notified-" \o Str(e.updates - upd) \o "-times/" \o e.op \o "/accepted=" \o Str(acc)} ELSE {})
    \cup (IF acc /\ \E c \in ups : ToSet(c.regions) # Geo(t2) THEN {"C13/memory-handed-to-backend-differs-from-accepted-table/" \o e.op} ELSE {})

ProbeViol(e) ==
    LET want == ProbeExpect(table, e.letter.rid, e.letter.page) IN
    CASE want = "same" -> IF e.out.f2g # "same" \/ e.out.g2f # "same" THEN {"C13/region-in-table-not-backed-by-its-file/f2g=" \o e.out.f2g \o "/g2f=" \o e.out.g2f} ELSE {}
      [] want = "differs" -> IF e.out.f2g = "same" THEN {"C13/region-not-in-table-still-mapped"} ELSE IF e.out.f2g \in {"unmapped", "nomem"} THEN {"C13/table-region-unmapped"} ELSE {}
      [] OTHER -> IF e.out.f2g \notin {"unmapped", "nomem"} THEN {"C13/region-not-in-table-still-mapped"} ELSE {}

AddrViol(e) == IF e.out.mapped # Covers(table, e.letter.page) THEN {"C13/address-mapped=" \o Str(e.out.mapped) \o "/expected=" \o Str(Covers(table, e.letter.page))} ELSE {}

\* translation of frontend virtual addresses (SET_VRING_ADDR)
XlatViol(e) ==
    LET r == e.letter.rid
        \* the available / used ring may lie in another region than the descriptor table
        ra == IF "rid_a" \in DOMAIN e.letter THEN e.letter.rid_a ELSE r
        ru == IF "rid_u" \in DOMAIN e.letter THEN e.letter.rid_u ELSE r
        \* edge = "end": the descriptor table is placed at the first user address past region r, which no region contains
        \* the user range of a region is translatable iff some region of the table has that user range (pool regions 0 and 4
        \* may share it: same guest range and size, another file)
        In(x) == \E r2 \in table : pool[r2 + 1].ua = pool[x + 1].ua /\ pool[r2 + 1].size = pool[x + 1].size
        inT == In(r) /\ In(ra) /\ In(ru) /\ ~("edge" \in DOMAIN e.letter /\ e.letter.edge = "end")
        ring == e.barriers[1].rings[e.q + 1]
        cross == IF ra # r \/ ru # r THEN "/rings-in-different-regions" ELSE "" IN
    IF (e.status = "ok") # inT THEN {"C13/translation/address-in-table=" \o Str(inT) \o "/accepted=" \o Str(e.status = "ok")
                                           \o (IF "edge" \in DOMAIN e.letter THEN "/at-region-" \o e.letter.edge ELSE "") \o cross}
    ELSE IF inT /\ (ring.desc # Sum4(pool[r + 1].gpa, e.letter.odesc) \/ ring.avail # Sum4(pool[ra + 1].gpa, e.letter.oavail)
                    \/ ring.used # Sum4(pool[ru + 1].gpa, e.letter.oused)) THEN {"C13/translation/wrong-guest-address" \o cross}
    ELSE {}

TVInit == table = {} /\ pool = <<>> /\ upd = 0 /\ l = 1 /\ viol = {} /\ judged = 0 /\ cur = -1 /\ dead = FALSE
TVReset == /\ l <= Len(Rec) /\ Rec[l].ev = "reset"
           /\ table' = {} /\ pool' = Rec[l].pool /\ upd' = 0 /\ dead' = FALSE
           /\ cur' = Rec[l].id /\ l' = l + 1 /\ UNCHANGED <<viol, judged>>
TVStep == /\ l <= Len(Rec) /\ Rec[l].ev = "step"
          /\ LET e == Rec[l]
                 isUpd == e.op \in {"set_mem_table", "add_mem_reg", "rem_mem_reg"}
                 lt == e.letter
                 acc == e.status = "ok" IN
             /\ viol' = IF dead /\ e.op \notin {"probe_mem", "probe_addr"} THEN viol
                        ELSE AddViol(viol, CASE isUpd -> UpdateViol(e) [] e.op = "probe_mem" -> ProbeViol(e) [] e.op = "probe_addr" -> AddrViol(e)
                                             [] e.op = "set_vring_addr" -> XlatViol(e)
                                             [] OTHER -> IF e.workers_ok THEN {} ELSE {"C13/worker-thread-terminated"}, cur)
             /\ table' = IF isUpd /\ acc /\ ~dead
                         THEN CASE e.op = "set_mem_table" -> SeqToSet(lt.rids) [] e.op = "add_mem_reg" -> table \cup {lt.rid} [] OTHER -> RemResult(table, lt.rid)
                         ELSE table
             /\ upd' = e.updates
             \* a new connection to the same daemon (handler state persists) makes the session usable again
             /\ dead' = IF e.op = "reconnect" THEN e.status # "ok" ELSE (dead \/ e.status \notin {"ok", "none"})
          /\ judged' = judged + 1 /\ l' = l + 1 /\ UNCHANGED <<pool, cur>>
TVOther == /\ l <= Len(Rec) /\ Rec[l].ev \in {"end", "threads", "begin"} /\ l' = l + 1 /\ UNCHANGED <<table, pool, upd, viol, judged, cur, dead>>
\* the process hosting the daemon was killed by a signal while this history ran (e.g. an access through a mapping that is
\* not backed by the file it should be backed by): recorded by the driver, judged here
TVCrash == /\ l <= Len(Rec) /\ Rec[l].ev = "crash"
           /\ viol' = AddViol(viol, {"C13/process-killed-by-signal-" \o Str(Rec[l].signal) \o "/while-using-the-memory-the-table-describes"}, cur)
           /\ dead' = TRUE /\ l' = l + 1 /\ UNCHANGED <<table, pool, upd, judged, cur>>
TVNext == TVReset \/ TVStep \/ TVOther \/ TVCrash
TVSpec == TVInit /\ [][TVNext]_tvars
Post == PostOK
Report == ReportAt(l, judged, viol)
=============================================================================
