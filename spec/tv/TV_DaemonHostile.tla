-------------------------- MODULE TV_DaemonHostile --------------------------
(* Trace validation of the daemon engine for the daemon part of C05: every well-typed message with adversarial
   values is answered or refused (the daemon ends the connection); no thread of the process panics; no request is
   left without an answer while the connection stays open. *)
EXTENDS DaemonHostile, TVCommon
VARIABLES l, viol, judged, cur, lvl, lastk, cause
tvars == <<l, viol, judged, cur, lvl, lastk, cause>>

Kind(e) == IF "hk" \in DOMAIN e.letter THEN e.letter.hk ELSE e.op
StepViol(e) ==
    (IF Len(e.panics) > 0 THEN {"C05/daemon/panic-at-" \o e.panics[1] \o "/level=" \o lvl \o "/" \o Kind(e)} ELSE {})
    \cup (IF e.status = "timeout" THEN {"C05/daemon/no-answer-and-connection-open/level=" \o lvl \o "/" \o Kind(e)} ELSE {})

TVInit == l = 1 /\ viol = {} /\ judged = 0 /\ cur = -1 /\ lvl = "fresh" /\ lastk = "none" /\ cause = "none"
TVReset == /\ l <= Len(Rec) /\ Rec[l].ev = "reset"
           /\ cur' = Rec[l].id /\ lvl' = Rec[l].level /\ lastk' = "none" /\ cause' = "none" /\ l' = l + 1 /\ UNCHANGED <<viol, judged>>
\* written (and flushed) before a letter is sent: names the letter during which the process died, if it does
TVBegin == /\ l <= Len(Rec) /\ Rec[l].ev = "begin"
           /\ lastk' = Rec[l].hk
           \* a letter that makes the daemon map a file window larger than the file (the first one of the case is remembered)
           /\ cause' = IF cause = "none" /\ Rec[l].why # "" THEN Rec[l].hk \o "/" \o Rec[l].why ELSE cause
           /\ l' = l + 1 /\ UNCHANGED <<viol, judged, cur, lvl>>
\* the process hosting the daemon was killed by a signal (recorded by the driver)
TVCrash == /\ l <= Len(Rec) /\ Rec[l].ev = "crash"
           /\ viol' = AddViol(viol, {"C05/daemon/process-killed-by-signal-" \o Str(Rec[l].signal) \o
                                      (IF cause # "none" THEN "/after=" \o cause ELSE "/level=" \o lvl \o "/during=" \o lastk)}, cur)
           /\ judged' = judged + 1 /\ l' = l + 1 /\ UNCHANGED <<cur, lvl, lastk, cause>>
TVStep == /\ l <= Len(Rec) /\ Rec[l].ev = "step"
          /\ Kind(Rec[l]) \in {a.k : a \in Letters} \cup {"negotiate", "set_mem_table", "set_vring_num", "set_vring_addr", "set_vring_base",
                                                          "set_vring_kick", "set_vring_call", "set_vring_enable", "kick", "use_ring"}
          /\ viol' = AddViol(viol, StepViol(Rec[l]), cur)
          /\ judged' = judged + 1 /\ l' = l + 1 /\ UNCHANGED <<cur, lvl, lastk, cause>>
TVOther == /\ l <= Len(Rec) /\ Rec[l].ev \in {"end", "threads"} /\ l' = l + 1 /\ UNCHANGED <<viol, judged, cur, lvl, lastk, cause>>
TVNext == TVReset \/ TVStep \/ TVBegin \/ TVCrash \/ TVOther
TVSpec == TVInit /\ [][TVNext]_tvars
Post == PostOK
Report == ReportAt(l, judged, viol)
=============================================================================
