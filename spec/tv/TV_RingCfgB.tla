----------------------------- MODULE TV_RingCfgB -----------------------------
(* TV_RingCfg for a device that does not offer VHOST_F_LOG_ALL (the constant Offered differs in the cfg). *)
EXTENDS TV_RingCfg
=============================================================================
