----------------------------- MODULE TV_Sender -----------------------------
(* Trace validation of the sender engine against Sender.tla (C08, sender clause).  One record per message sent by a
   real endpoint under a scripted pattern of partial writes: the recorded results of the attempts (bytes accepted,
   0 = refused) are replayed through the model's state functions; what the independent peer received (bytes, offset
   and count of every batch of descriptors) must be what the model says enters the stream. *)
EXTENDS SenderOps, TVCommon
VARIABLES l, viol, judged
tvars == <<l, viol, judged>>

RECURSIVE ModelOff(_, _, _), ModelFd(_, _, _, _, _)
ModelOff(acc, i, o) == IF i > Len(acc) THEN o ELSE ModelOff(acc, i + 1, NextOff(o, acc[i]))
ModelFd(acc, i, o, f, nf) == IF i > Len(acc) THEN f ELSE ModelFd(acc, i + 1, NextOff(o, acc[i]), NextFdAt(f, o, acc[i], nf), nf)

SendViol(e) ==
    LET who == e.ep \o "/" \o e.op
        mo == ModelOff(e.accepted, 1, 0)
        mf == ModelFd(e.accepted, 1, 0, <<>>, e.ref_nfds)
        shape == IF e.fdoffs = <<>> THEN "none-arrived"
                 ELSE IF Len(e.fdoffs) > 1 THEN "arrived-more-than-once"
                 ELSE IF e.fdoffs[1][1] # 0 THEN "arrived-after-the-first-byte" ELSE "wrong-count"
        retried == \E i \in 1..Len(e.accepted) : e.accepted[i] = 0 IN
    IF ~e.ref_ok \/ ~e.ref_at_first THEN {"C08/sender/" \o who \o "/unscripted-send-already-wrong"}
    ELSE (IF e.res # "ok" THEN {"C08/sender/" \o who \o "/call-" \o (IF e.res = "panic" THEN "panics" ELSE "failed") \o "-under-partial-writes",
                                 \* in terms of C01: the message did not reach the socket as its encoding
                                 "C01/sender/" \o who \o "/message-not-emitted-under-partial-writes"} ELSE {})
      \cup (IF e.res = "ok" /\ (~e.same_bytes \/ e.got_len # e.len \/ mo # e.len)
            THEN {"C08/sender/" \o who \o "/bytes-not-exactly-once-in-order" \o (IF e.is_prefix THEN "/truncated" ELSE ""),
                  "C01/sender/" \o who \o "/bytes-on-the-socket-differ-from-the-encoding"} ELSE {})
      \cup (IF e.res = "ok" /\ e.fdoffs # mf
            THEN {"C08/sender/" \o who \o "/descriptors-" \o shape \o (IF retried THEN "/after-refused-attempt" ELSE "/after-partial-write"),
                  \* the same observation in terms of C01: descriptors travel as ancillary data of the message's first byte
                  "C01/sender/" \o who \o "/descriptors-" \o shape} ELSE {})

TVInit == l = 1 /\ viol = {} /\ judged = 0
TVSend == /\ l <= Len(Rec) /\ Rec[l].ev = "send"
          /\ viol' = AddViol(viol, SendViol(Rec[l]), Rec[l].id)
          /\ judged' = judged + 1 /\ l' = l + 1
TVOther == /\ l <= Len(Rec) /\ Rec[l].ev \in {"reset", "end"} /\ l' = l + 1 /\ UNCHANGED <<viol, judged>>
\* the process under test was killed by a signal while this case ran (recorded by the driver; `begin` marks the letter that
\* was in progress): judged like any other observation -- whatever the property, an input that kills the process breaks it
TVCrashAny == /\ l <= Len(Rec) /\ Rec[l].ev \in {"crash", "begin"}
              /\ viol' = IF Rec[l].ev = "crash" THEN AddViol(viol, {"ANY/process-killed-by-signal-" \o Str(Rec[l].signal)}, Rec[l].id) ELSE viol
              /\ l' = l + 1 /\ UNCHANGED judged
TVNext == TVSend \/ TVOther \/ TVCrashAny
TVSpec == TVInit /\ [][TVNext]_tvars
Post == PostOK
Report == ReportAt(l, judged, viol)
=============================================================================
