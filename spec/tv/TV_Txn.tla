------------------------------- MODULE TV_Txn -------------------------------
(***************************************************************************)
(* Trace validation for C10: the events recorded at the hold points of the *)
(* real endpoints must be a behaviour of TxnAtomicity: a `sent` event of   *)
(* thread t is the action Send(t) (enabled only when no other thread is    *)
(* between its request and its answer), `before_recv` is ReleaseSent(t),   *)
(* `done` is ReleaseRecv(t) / the return of a fire-and-forget call.        *)
(***************************************************************************)
EXTENDS TVCommon

VARIABLES pc, kinds, ep, l, viol, judged, cur, free, flag, eff
tvars == <<pc, kinds, ep, l, viol, judged, cur, free, flag, eff>>

\* eff[t]: the request of t awaits an answer -- "yes" | "no" | "unknown" (written while a setting change was under way)
Awaits(t) == eff[t] = "yes"
Threads == DOMAIN kinds
IsCfg(t) == kinds[t] \in {"cfg0", "cfg1"}
Dyn == \E t \in Threads : IsCfg(t)
CfgPending == \E t \in Threads : IsCfg(t) /\ pc[t] = "waitlock"

TVInit == /\ pc = <<>> /\ kinds = <<>> /\ ep = "" /\ l = 1 /\ viol = {} /\ judged = 0 /\ cur = -1 /\ free = FALSE /\ flag = FALSE /\ eff = <<>>

TVReset == /\ l <= Len(Rec) /\ Rec[l].ev = "reset"
           /\ kinds' = Rec[l].kinds /\ ep' = Rec[l].ep /\ free' = Rec[l].free
           /\ pc' = [t \in 1..Len(Rec[l].kinds) |-> "idle"]
           /\ flag' = (\E i \in 1..Len(Rec[l].kinds) : Rec[l].kinds[i] = "ack")
           /\ eff' = [t \in 1..Len(Rec[l].kinds) |-> IF Rec[l].kinds[t] \in {"reply", "ack"} THEN "yes" ELSE "no"]
           /\ cur' = Rec[l].id /\ l' = l + 1 /\ UNCHANGED <<viol, judged>>

TVStart == /\ l <= Len(Rec) /\ Rec[l].ev = "start"
           /\ pc' = [pc EXCEPT ![Rec[l].t] = "waitlock"]
           /\ l' = l + 1 /\ UNCHANGED <<kinds, ep, viol, judged, cur, free, flag, eff>>

\* Send(t): the request of t appears on the socket
TVSent == /\ l <= Len(Rec) /\ Rec[l].ev = "sent"
          /\ LET t == Rec[l].t
                 busy == {u \in Threads \ {t} : Awaits(u) /\ pc[u] \in {"sent", "recv", "dead"}}
                 open == \E u \in busy : pc[u] = "dead" IN
             /\ viol' = AddViol(viol, IF busy # {} THEN {"C10/" \o ep \o "/request-written-inside-another-transaction" \o
                                                          (IF open THEN "/left-open-by-a-caller-that-died" ELSE "")} ELSE {}, cur)
             /\ pc' = [pc EXCEPT ![t] = "sent"]
             /\ eff' = [eff EXCEPT ![t] = IF Dyn /\ kinds[t] \in {"ack", "ff"}
                                          THEN (IF CfgPending THEN "unknown" ELSE IF flag THEN "yes" ELSE "no") ELSE eff[t]]
          /\ judged' = judged + 1 /\ l' = l + 1 /\ UNCHANGED <<kinds, ep, cur, free, flag>>

TVBeforeRecv == /\ l <= Len(Rec) /\ Rec[l].ev = "before_recv"
                /\ pc' = [pc EXCEPT ![Rec[l].t] = "recv"]
                /\ l' = l + 1 /\ UNCHANGED <<kinds, ep, viol, judged, cur, free, flag, eff>>

\* the answer has been consumed (still under the endpoint lock): the transaction is over
TVReceived == /\ l <= Len(Rec) /\ Rec[l].ev = "received"
              /\ pc' = [pc EXCEPT ![Rec[l].t] = "returning"]
              /\ l' = l + 1 /\ UNCHANGED <<kinds, ep, viol, judged, cur, free, flag, eff>>

\* a caller died (panicked) at its hold point: whatever transaction it had open stays open
TVCrashed == /\ l <= Len(Rec) /\ Rec[l].ev = "crashed"
             /\ pc' = [pc EXCEPT ![Rec[l].t] = "dead"]
             /\ l' = l + 1 /\ UNCHANGED <<kinds, ep, viol, judged, cur, free, flag, eff>>
SomeoneDied == \E u \in Threads : pc[u] = "dead"
TVDone == /\ l <= Len(Rec) /\ Rec[l].ev = "done"
          /\ LET t == Rec[l].t IN
             /\ viol' = IF pc[t] = "dead" THEN viol ELSE
                        \* after a caller died inside the endpoint, the other clones may be refused (the lock is poisoned): not judged
                        AddViol(viol, (IF ~Rec[l].ok /\ ~SomeoneDied THEN {"C10/" \o ep \o "/call-failed/" \o kinds[t]} ELSE {})
                                       \cup (IF Rec[l].ok /\ ~Rec[l].own THEN {"C10/" \o ep \o "/answer-of-another-request"} ELSE {})
                                       \* the request asked for an answer, the call returned without having read it: the answer is
                                       \* left on the shared socket for whoever reads next
                                       \cup (IF ~IsCfg(t) /\ Rec[l].ok /\ eff[t] = "yes" /\ pc[t] # "returning"
                                             THEN {"C10/" \o ep \o "/returned-without-consuming-its-answer/" \o kinds[t]} ELSE {}), cur)
             /\ pc' = [pc EXCEPT ![t] = IF pc[t] = "dead" THEN "dead" ELSE IF free THEN "waitlock" ELSE "done"]
             /\ flag' = IF IsCfg(t) THEN kinds[t] = "cfg1" ELSE flag
          /\ judged' = judged + 1 /\ l' = l + 1 /\ UNCHANGED <<kinds, ep, cur, free, eff>>

TVPeer == /\ l <= Len(Rec) /\ Rec[l].ev = "peer"
          /\ l' = l + 1 /\ UNCHANGED <<pc, kinds, ep, viol, judged, cur, free, flag, eff>>

TVEnd == /\ l <= Len(Rec) /\ Rec[l].ev = "end"
         /\ viol' = AddViol(viol, IF Rec[l].hang THEN {"C10/" \o ep \o "/calls-do-not-complete"} ELSE {}, cur)
         /\ l' = l + 1 /\ UNCHANGED <<pc, kinds, ep, judged, cur, free, flag, eff>>

\* the process under test was killed by a signal while this case ran (recorded by the driver; `begin` marks the letter that
\* was in progress): judged like any other observation -- whatever the property, an input that kills the process breaks it
TVCrashAny == /\ l <= Len(Rec) /\ Rec[l].ev \in {"crash", "begin"}
              /\ viol' = IF Rec[l].ev = "crash" THEN AddViol(viol, {"ANY/process-killed-by-signal-" \o Str(Rec[l].signal)}, Rec[l].id) ELSE viol
              /\ l' = l + 1 /\ UNCHANGED <<pc, kinds, ep, judged, cur, free, flag, eff>>
TVNext == TVCrashed \/ TVReset \/ TVStart \/ TVSent \/ TVBeforeRecv \/ TVReceived \/ TVDone \/ TVPeer \/ TVEnd \/ TVCrashAny
TVSpec == TVInit /\ [][TVNext]_tvars
Post == PostOK
Report == ReportAt(l, judged, viol)
=============================================================================
