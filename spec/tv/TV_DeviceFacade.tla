--------------------------- MODULE TV_DeviceFacade ---------------------------
(* Trace validation of the daemon engine against DeviceFacade.tla (X03). *)
EXTENDS DeviceFacade, TVCommon
VARIABLES s, nq, l, viol, judged, cur
tvars == <<s, nq, l, viol, judged, cur>>

LE(b, i) == b[i] + 256 * b[i + 1] + 65536 * b[i + 2]           \* values below 2^24 only
AllZero(b) == \A i \in 1..Len(b) : b[i] = 0
CbName(k) == IF k = "gpu_set_socket" THEN "set_gpu_socket" ELSE k
Calls(e, k) == SelectSeq(e.dcbs, LAMBDA c : c.cb = CbName(k))

\* the arguments the device callback saw are those of the request
ArgViol(e, k, c) ==
    LET o == e.out.sent IN
    CASE k = "get_config" -> IF c.off # o.off \/ c.size # o.size THEN {"args"} ELSE {}
      [] k = "set_config" -> IF c.off # o.off \/ c.data # o.data THEN {"args"} ELSE {}
      [] k = "get_shared_object" -> IF c.uuid # o.uuid THEN {"args"} ELSE {}
      [] k = "set_device_state_fd" -> IF c.dir # o.dir \/ c.phase # o.phase THEN {"args"} ELSE IF c.got # o.file THEN {"file"} ELSE {}
      [] OTHER -> {}

\* the reply carries what the device returned
ValueViol(e, k, h, c) ==
    LET r == e.out.reply  n == e.out.reply_len  fds == e.out.reply_fds IN
    CASE k = "get_config" ->
           IF n # 12 + e.out.sent.size \/ LE(r, 1) # e.out.sent.off \/ LE(r, 5) # e.out.sent.size THEN {"config-reply-header"}
           ELSE IF SubSeq(r, 13, n) # c.ret THEN {"config-payload-differs-from-device-data"} ELSE {}
      [] k = "get_shared_object" -> IF n # 0 \/ fds # <<c.file>> THEN {"shared-object-file"} ELSE {}
      [] k = "set_device_state_fd" ->
           IF n # 8 \/ r[1] # 0 THEN {"state-fd-status"}
           ELSE IF h = "file" THEN (IF r[2] % 2 # 0 \/ fds # <<c.file>> THEN {"state-fd-channel"} ELSE {})
           ELSE (IF r[2] % 2 # 1 \/ fds # <<>> THEN {"state-fd-no-channel-flag"} ELSE {})
      [] k = "check_device_state" -> IF n # 8 \/ ~AllZero(r) THEN {"check-status"} ELSE {}
      [] k = "get_shmem_config" -> IF n # 2056 \/ LE(r, 1) # 3 \/ r[10] # 16 \/ r[21] # 2 \/ r[26] # 112 THEN {"shmem-config"} ELSE {}
      [] k = "get_queue_num" -> IF n # 8 \/ LE(r, 1) # nq \/ ~AllZero(SubSeq(r, 4, 8)) THEN {"queue-num"} ELSE {}
      [] k = "get_max_mem_slots" -> IF n # 8 \/ AllZero(r) THEN {"max-mem-slots"} ELSE {}
      [] OTHER -> {}

FailureViol(e, k) ==
    LET r == e.out.reply  n == e.out.reply_len  fds == e.out.reply_fds IN
    CASE k = "get_config" -> IF n # 12 \/ LE(r, 5) # 0 THEN {"config-failure-encoding"} ELSE {}
      [] k = "get_shared_object" -> IF n # 0 \/ fds # <<>> THEN {"shared-object-failure-encoding"} ELSE {}
      [] k = "set_device_state_fd" -> IF n # 8 \/ r[1] = 0 \/ fds # <<>> THEN {"state-fd-failure-encoding"} ELSE {}
      [] k = "check_device_state" -> IF n # 8 \/ AllZero(r) THEN {"check-failure-encoding"} ELSE {}
      [] OTHER -> {}

DevViol(e) ==
    LET k == e.letter.k  h == e.letter.h
        want == Obs(s, k, h)
        calls == Calls(e, k)
        ncall == IF Called(s, k) THEN 1 ELSE 0
        got == IF e.status = "ok" THEN (IF HasReply(k) THEN "reply" ELSE "ack") ELSE e.status
        wantst == IF want \in {"value", "failure"} THEN "reply" ELSE want
        pre == "X03/" \o k \o "/script=" \o h \o "/adapter=" IN
    (IF Len(calls) # ncall THEN {"device-callback-invoked-" \o Str(Len(calls)) \o "-times/expected=" \o Str(ncall)}
     ELSE IF ncall = 1 THEN ArgViol(e, k, calls[1]) ELSE {})
    \cup (IF got # wantst THEN {"frontend-observes=" \o got \o "/expected=" \o want}
          ELSE IF want = "value" THEN ValueViol(e, k, h, IF Len(calls) > 0 THEN calls[1] ELSE [none |-> 0])
          ELSE IF want = "failure" THEN FailureViol(e, k) ELSE {})
    \cup (IF k = "gpu_set_socket" /\ ncall = 1 /\ Len(calls) = 1 /\ e.out.gpu_linked # "yes" THEN {"gpu-proxy-not-connected-to-the-supplied-socket"} ELSE {})

TVInit == s = DfInit /\ nq = 0 /\ l = 1 /\ viol = {} /\ judged = 0 /\ cur = <<-1, "">>
TVReset == /\ l <= Len(Rec) /\ Rec[l].ev = "reset"
           /\ s' = DfInit /\ nq' = Rec[l].nq /\ cur' = <<Rec[l].id, Rec[l].adapter>> /\ l' = l + 1 /\ UNCHANGED <<viol, judged>>
TVStep == /\ l <= Len(Rec) /\ Rec[l].ev = "step"
          /\ LET e == Rec[l] IN
             /\ e.op \in {"negotiate", "dev", "reconnect"}
             /\ viol' = AddViol(viol, IF e.op = "dev"
                                      THEN {"X03/" \o e.letter.k \o "/script=" \o e.letter.h \o "/adapter=" \o cur[2] \o "/" \o x : x \in DevViol(e)}
                                      ELSE IF ~e.workers_ok THEN {"X03/worker-thread-terminated"} ELSE {}, cur[1])
             /\ s' = CASE e.op = "negotiate" -> DfNegotiate(s, ToSet(e.letter.pf))
                       [] e.op = "reconnect" -> DfReconnect(s)
                       [] OTHER -> DfNext(s, e.letter.k, e.letter.h)
          /\ judged' = judged + 1 /\ l' = l + 1 /\ UNCHANGED <<nq, cur>>
TVOther == /\ l <= Len(Rec) /\ Rec[l].ev \in {"end", "threads"} /\ l' = l + 1 /\ UNCHANGED <<s, nq, viol, judged, cur>>
\* the process under test was killed by a signal while this case ran (recorded by the driver; `begin` marks the letter that
\* was in progress): judged like any other observation -- whatever the property, an input that kills the process breaks it
TVCrashAny == /\ l <= Len(Rec) /\ Rec[l].ev \in {"crash", "begin"}
              /\ viol' = IF Rec[l].ev = "crash" THEN AddViol(viol, {"ANY/process-killed-by-signal-" \o Str(Rec[l].signal)}, Rec[l].id) ELSE viol
              /\ l' = l + 1 /\ UNCHANGED <<s, nq, judged, cur>>
TVNext == TVReset \/ TVStep \/ TVOther \/ TVCrashAny
TVSpec == TVInit /\ [][TVNext]_tvars
Post == PostOK
Report == ReportAt(l, judged, viol)
=============================================================================
