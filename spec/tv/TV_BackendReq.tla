---------------------------- MODULE TV_BackendReq ----------------------------
(***************************************************************************)
(* Trace validation of engine "bereq" against BackendReqChannel.tla.       *)
(*  C18  handler invoked once with equal arguments / same file; proxy      *)
(*       result and acknowledgement value follow the handler's result      *)
(*  C07  proxy refuses shared-object / shmem requests until enabled        *)
(*  C06  proxy accepts only the matching ack; the request server survives  *)
(*       arbitrary bytes and dispatches only well-formed requests          *)
(*  C01  bytes of backend-initiated requests and of their acks             *)
(*  C08  segmentation / truncation on the request server                   *)
(***************************************************************************)
EXTENDS BackendReqChannel, WireFormat, TVCommon

VARIABLES st, l, viol, judged, cur
tvars == <<st, l, viol, judged, cur>>

ArgKeysBe(k) == IF k \in {6, 7, 8} THEN {"uuid"} ELSE {"shmid", "fd_offset", "shm_offset", "len", "flags"}

KTag(e) == "k=" \o Str(e.k) \o "/r=" \o e.r

CallViol(e) ==
    IF e.ncalls # 1 THEN {"C18/handler-calls=" \o Str(e.ncalls) \o "/" \o KTag(e)}
    ELSE LET c == e.calls[1] IN
         (IF c.k # e.k THEN {"C18/wrong-handler-operation/k=" \o Str(e.k)} ELSE {})
         \cup {"C18/argument-differs/k=" \o Str(e.k) \o "/" \o f : f \in {f \in ArgKeysBe(e.k) : f \notin DOMAIN c.args \/ c.args[f] # e.args[f]}}
         \cup (IF e.k \in {8, 9} /\ c.files # <<e.lent>>
               THEN {"C18/file-differs/k=" \o Str(e.k),
                     \* in terms of C09: what the handler was lent during the call is not the descriptor that arrived
                     "C09/frontend-server/lent-descriptor-is-not-the-received-file-during-the-call/k=" \o Str(e.k)} ELSE {})
         \cup (IF e.k \notin {8, 9} /\ c.files # <<>> THEN {"C18/unexpected-file/k=" \o Str(e.k)} ELSE {})

\* the proxy call succeeded (whatever value it carries: "succeeds iff the handler returned zero" is about success)
ResOK(e) == e.res_ok
ResIsOk(e) == e.res_ok

PairViol(e) ==
    LET x == BeExpect(st, e.k, e.r) IN
    IF e.res = "panic" THEN {"C06/panic/proxy/k=" \o Str(e.k)}
    ELSE IF ~x.wire
    THEN (IF e.sent # 0 THEN {"C07/proxy/disabled-request-sent/k=" \o Str(e.k)} ELSE {})
         \cup (IF ResIsOk(e) THEN {"C07/proxy/disabled-request-succeeded/k=" \o Str(e.k)} ELSE {})
         \cup (IF e.ncalls # 0 THEN {"C07/proxy/disabled-request-reached-handler/k=" \o Str(e.k)} ELSE {})
    ELSE (IF e.hang THEN {"C18/hang/" \o KTag(e) \o "/ra=" \o Str(st.ra)} ELSE
          (IF e.sent # 1 THEN {"C18/requests-written=" \o Str(e.sent) \o "/" \o KTag(e)} ELSE {})
          \cup CallViol(e)
          \cup (IF x.ok # ResOK(e) THEN {"C18/proxy-result/" \o KTag(e) \o "/ra=" \o Str(st.ra) \o "/got=" \o (IF ResIsOk(e) THEN "ok" ELSE "err")} ELSE {})
          \cup (IF ~e.lent_ok THEN {"C09/proxy/lent-descriptor-closed/k=" \o Str(e.k)} ELSE {}))

RawPeerViol(e) ==
    LET x == BeExpect(st, e.k, e.r) IN
    IF e.res = "panic" THEN {"C06/panic/proxy/k=" \o Str(e.k)}
    ELSE IF e.res = "stuck" THEN {"C06/proxy/hang-on-bad-ack/" \o e.peer, "C10/be/call-never-returns-even-after-the-connection-is-gone/k=" \o Str(e.k)}
    ELSE IF ~x.wire
    THEN (IF e.nwire # 0 \/ e.leftover # 0 THEN {"C07/proxy/disabled-request-sent/k=" \o Str(e.k)} ELSE {})
         \cup (IF ResIsOk(e) THEN {"C07/proxy/disabled-request-succeeded/k=" \o Str(e.k)} ELSE {})
    ELSE IF e.nwire # 1 \/ e.leftover # 0 THEN {"C01/proxy/messages-on-wire=" \o Str(e.nwire) \o "/k=" \o Str(e.k)}
    ELSE LET m == e.wire[1] body == BeBody(e.k, e.args) IN
         (IF m.c # e.k THEN {"C01/proxy/request-code/k=" \o Str(e.k)} ELSE {})
         \cup (IF m.flags # ReqFlags(st.ra) THEN {"C01/proxy/header-flags=" \o Str(m.flags) \o "/k=" \o Str(e.k)} ELSE {})
         \cup (IF m.size # Len(body) \/ m.bytes # body THEN {"C01/proxy/payload-bytes/k=" \o Str(e.k)} ELSE {})
         \cup (IF m.nfds # BeFds(e.k) \/ ~m.fd_first THEN {"C01/proxy/descriptors/k=" \o Str(e.k)} ELSE {})
         \cup (IF BeFds(e.k) = 1 /\ m.fdids # <<e.lent>> THEN {"C01/proxy/descriptor-identity/k=" \o Str(e.k)} ELSE {})
         \cup (IF e.peer = "auto"
               THEN (IF e.hang THEN {"C18/hang/" \o KTag(e)} ELSE
                     IF x.ok # ResOK(e) THEN {"C18/proxy-result/" \o KTag(e) \o "/ra=" \o Str(st.ra) \o "/got=" \o (IF ResIsOk(e) THEN "ok" ELSE "err")} ELSE {})
               ELSE IF st.ra /\ e.peer # "silent" /\ ResIsOk(e) THEN {"C06/proxy/accepted-bad-ack/" \o e.peer \o "/k=" \o Str(e.k)}
               ELSE IF st.ra /\ e.peer # "silent" /\ e.hang THEN {"C06/proxy/hang-on-bad-ack/" \o e.peer} ELSE {})

ExpectedAckVal(e) ==
    CASE e.r = "zero" -> <<0, 0, 0, 0>>
      [] e.r = "nonzero" -> e.hv.val
      [] e.r = "errno" -> NegLimbs(e.hv.errno)
      [] OTHER -> NegLimbs(22)

RawSrvViol(e) ==
    IF e.res = "panic" THEN {"C06/panic/request-server/var=" \o e.var}
    ELSE IF e.cut >= 0
    THEN (IF e.ncalls # 0 THEN {"C08/frontend-server/truncated-request-dispatched/k=" \o Str(e.k)} ELSE {})
         \cup (IF ResIsOk(e) THEN {"C08/frontend-server/truncation-not-reported/k=" \o Str(e.k)} ELSE {})
         \cup (IF e.hang THEN {"C08/frontend-server/blocked-on-truncated-stream/k=" \o Str(e.k)} ELSE {})
         \cup (IF e.cut = 0 /\ e.res # "err:Disconnected" THEN {"C08/frontend-server/boundary-eof-not-disconnected"} ELSE {})
         \cup (IF e.cut > 0 /\ e.res = "err:Disconnected" THEN {"C08/frontend-server/mid-message-eof-reported-as-clean-disconnect"} ELSE {})
    ELSE IF e.var = "random" THEN {}
    ELSE IF e.var # "valid"
    THEN (IF e.ncalls # 0 THEN {"C06/request-server/malformed-request-dispatched/var=" \o e.var \o "/k=" \o Str(e.k)} ELSE {})
         \cup (IF e.hang THEN {"C06/request-server/hang/var=" \o e.var} ELSE {})
    ELSE LET dev ==
            CallViol(e)
            \cup (IF e.hang THEN {"C18/request-server-hang/" \o KTag(e)} ELSE {})
            \cup (LET a == BeSrvAck(st.hra, e.nr, e.r) IN
                  IF a = "none" THEN (IF e.nout # 0 \/ e.leftover # 0 THEN {"C18/unexpected-ack/" \o KTag(e) \o "/nr=" \o Str(e.nr)} ELSE {})
                  ELSE IF e.nout # 1 \/ e.leftover # 0 THEN {"C18/ack-count=" \o Str(e.nout) \o "/" \o KTag(e)}
                  ELSE LET m == e.out[1] IN
                       (IF m.c # e.k \/ m.flags # FLAG_VERSION + FLAG_REPLY \/ m.size # 8 \/ m.nfds # 0
                        THEN {"C01/request-server/ack-header/k=" \o Str(e.k)} ELSE {})
                       \* (also in terms of C01: the payload of the acknowledgement is not the encoding of the handler's result)
                       \cup (IF m.val # ExpectedAckVal(e) THEN {"C18/ack-value/" \o KTag(e), "C01/request-server/ack-payload/" \o KTag(e)} ELSE {}))
         IN IF e.seg = <<>> THEN dev
            ELSE IF dev = {} THEN {} ELSE {"C08/frontend-server/segmented-request-mishandled/k=" \o Str(e.k) \o "/" \o e.res}

TVInit == /\ st = BeInit /\ l = 1 /\ viol = {} /\ judged = 0 /\ cur = -1

TVReset == /\ l <= Len(Rec) /\ Rec[l].ev = "reset"
           /\ st' = BeInit /\ cur' = Rec[l].id /\ l' = l + 1
           /\ UNCHANGED <<viol, judged>>

TVFlag == /\ l <= Len(Rec) /\ Rec[l].ev = "flag"
          /\ st' = [st EXCEPT ![Rec[l].f] = Rec[l].b] /\ l' = l + 1
          /\ UNCHANGED <<viol, judged, cur>>

TVReq == /\ l <= Len(Rec) /\ Rec[l].ev = "breq"
         /\ LET e == Rec[l] IN
            viol' = AddViol(viol, CASE e.mode = "pair" -> PairViol(e)
                                    [] e.mode = "rawpeer" -> RawPeerViol(e)
                                    [] OTHER -> RawSrvViol(e), cur)
         /\ judged' = judged + 1 /\ l' = l + 1
         /\ UNCHANGED <<st, cur>>

TVTeardown == /\ l <= Len(Rec) /\ Rec[l].ev = "teardown"
              /\ viol' = AddViol(viol, TeardownViol(Rec[l], "backend-req-channel"), cur)
              /\ l' = l + 1
              /\ UNCHANGED <<st, judged, cur>>

\* the process under test was killed by a signal while this case ran (recorded by the driver; `begin` marks the letter that
\* was in progress): judged like any other observation -- whatever the property, an input that kills the process breaks it
TVCrashAny == /\ l <= Len(Rec) /\ Rec[l].ev \in {"crash", "begin"}
              /\ viol' = IF Rec[l].ev = "crash" THEN AddViol(viol, {"ANY/process-killed-by-signal-" \o Str(Rec[l].signal)}, Rec[l].id) ELSE viol
              /\ l' = l + 1 /\ UNCHANGED <<st, judged, cur>>
TVNext == TVTeardown \/ TVReset \/ TVFlag \/ TVReq \/ TVCrashAny
TVSpec == TVInit /\ [][TVNext]_tvars
Post == PostOK
Report == ReportAt(l, judged, viol)
=============================================================================
