----------------------------- MODULE TV_Session -----------------------------
(***************************************************************************)
(* Trace validation of engine "session" (real Frontend <-> real            *)
(* BackendReqHandler with a scripted recording handler).                   *)
(*  C02: accepted call => handler invoked exactly once, same operation,    *)
(*       equal arguments / payload / files; rejected call => nothing sent. *)
(*  C03: handler success => same values back; failure/unusable => error,   *)
(*       in bounded time (no hang), never success.                         *)
(*  C07 (frontend side): gated call before negotiation => error, nothing   *)
(*       on the wire.                                                      *)
(***************************************************************************)
EXTENDS Session, TVCommon

VARIABLES fe, srv, devPF, l, viol, judged, cur
tvars == <<fe, srv, devPF, l, viol, judged, cur>>

HandlerName(op) == IF op = "set_backend_request_fd" THEN "set_backend_req_fd" ELSE op

ArgKeys(op, cls) ==
    CASE op \in {"set_features", "set_protocol_features"} -> {"v"}
      [] op \in {"set_vring_num", "set_vring_base", "set_vring_enable"} -> {"index", "v"}
      [] op \in {"get_vring_base", "set_vring_kick", "set_vring_call", "set_vring_err"} -> {"index"}
      [] op = "set_vring_addr" -> {"index", "flags", "desc", "used", "avail", "log"}
      [] op \in {"set_mem_table", "add_mem_region", "remove_mem_region"} -> {"regions"}
      [] op = "get_config" -> {"offset", "size", "flags"}
      [] op = "set_config" -> {"offset", "size", "flags", "payload"}
      [] op = "get_shared_object" -> {"uuid"}
      [] op \in {"get_inflight_fd", "set_inflight_fd"} -> {"mmap_size", "mmap_offset", "num_queues", "queue_size"}
      [] op = "set_log_base" -> {"mmap_size", "mmap_offset"}
      [] op = "set_device_state_fd" -> {"direction", "phase"}
      [] OTHER -> {}

\* operations whose lent memfd must arrive as the same open file
FileOps == {"set_mem_table", "add_mem_region", "set_inflight_fd", "set_log_base", "set_device_state_fd"}

\* C02 ----------------------------------------------------------------------
C02Viol(e, fx, o) ==
    LET tag == e.op \o "/" \o e.cls IN
    IF fx.act = "reject"
    THEN (IF e.sent # 0 THEN {"C02/rejected-call-reached-wire/" \o tag} ELSE {})
         \cup (IF e.ncalls # 0 THEN {"C02/rejected-call-reached-handler/" \o tag} ELSE {})
         \cup (IF e.res = "ok" THEN {"C02/invalid-call-accepted/" \o tag} ELSE {})
    ELSE IF ~o.called
         THEN (IF e.ncalls # 0 THEN {"C02/unexpected-handler-call/" \o tag} ELSE {})
              \cup (IF e.op = "set_log_fd" THEN {"C02/call-never-reaches-handler/set_log_fd"}
                    ELSE IF e.op = "set_log_base" THEN {"C02/call-never-reaches-handler/set_log_base/legacy-form"} ELSE {})
         ELSE IF e.ncalls # 1 THEN {"C02/handler-calls=" \o Str(e.ncalls) \o "/" \o tag}
         ELSE LET c == e.calls[1] IN
              (IF c.op # HandlerName(e.op) THEN {"C02/wrong-handler-operation/" \o tag} ELSE {})
              \cup {"C02/argument-differs/" \o tag \o "/" \o k : k \in {k \in ArgKeys(e.op, e.cls) :
                        k \notin DOMAIN c \/ k \notin DOMAIN e.args \/ c[k] # e.args[k]}}
              \cup (IF e.op \in FileOps /\ ("files" \notin DOMAIN c \/ c.files # e.fdids)
                    THEN {"C02/file-differs/" \o tag} ELSE {})
              \cup (IF ~e.lent_ok THEN {"C02/lent-descriptor-closed/" \o tag} ELSE {})

\* C07 (frontend) -------------------------------------------------------------
C07Viol(e, gated) ==
    IF gated
    THEN (IF e.sent # 0 THEN {"C07/frontend/gated-call-reached-wire/" \o e.op} ELSE {})
         \cup (IF e.res = "ok" THEN {"C07/frontend/gated-call-succeeded/" \o e.op} ELSE {})
    ELSE {}

\* C03 ----------------------------------------------------------------------
RetOK(e) ==
    CASE e.op = "get_features" -> e.ret.v = e.hv.features
      [] e.op = "get_protocol_features" -> e.ret.v = e.hv.proto
      [] e.op = "get_queue_num" -> e.ret.v = e.hv.queue_num
      [] e.op = "get_vring_base" -> e.ret.v = e.hv.vring_base
      [] e.op = "get_max_mem_slots" -> e.ret.v = e.hv.max_mem_slots
      [] e.op = "get_config" -> e.ret.payload = e.hv.config_payload
      [] e.op = "get_shared_object" -> e.ret.file = e.hv.ret_file
      [] e.op = "get_inflight_fd" -> /\ e.ret.file = e.hv.ret_file
                                      /\ <<e.ret.mmap_size, e.ret.mmap_offset, e.ret.num_queues, e.ret.queue_size>> = e.hv.inflight
      [] e.op = "set_device_state_fd" -> e.ret.file = e.hv.ret_file
      [] e.op = "get_shmem_config" -> e.ret.nregions = 2
      [] OTHER -> TRUE

C03Viol(e, fx, o) ==
    LET tag == e.op \o (IF e.op = "set_log_base" /\ LogBaseForm(fe, e.cls) = "legacy" THEN "/legacy-form" ELSE "")
               \o "/h=" \o e.h \o (IF e.shape = "" THEN "" ELSE "/" \o e.shape) IN
    IF fx.act = "reject" \/ ~o.called \/ fx.await = "none" THEN
        (IF e.hang THEN {"C03/hang/" \o tag} ELSE {})
    ELSE IF e.hang THEN {"C03/hang/" \o tag}
    ELSE IF HandlerFailed(e.op, e.h, e.shape)
         THEN (IF e.res = "ok" THEN {"C03/false-success/" \o tag} ELSE {})
         ELSE IF e.res # "ok" THEN {"C03/false-failure/" \o tag}
              ELSE IF ~RetOK(e) THEN {"C03/wrong-value/" \o tag} ELSE {}

TVInit == /\ fe = FeInit /\ srv = SrvInit /\ devPF = FALSE /\ l = 1 /\ viol = {} /\ judged = 0 /\ cur = -1

TVReset == /\ l <= Len(Rec) /\ Rec[l].ev = "reset"
           /\ fe' = FeInit /\ srv' = SrvInit
           /\ devPF' = (VF_PROTOCOL_FEATURES \in ToSet(Rec[l].dev.vf))
           /\ cur' = Rec[l].id /\ l' = l + 1
           /\ UNCHANGED <<viol, judged>>

TVFlags == /\ l <= Len(Rec) /\ Rec[l].ev = "flags"
           /\ fe' = [fe EXCEPT !.nr = Rec[l].nr]
           /\ l' = l + 1
           /\ UNCHANGED <<srv, devPF, viol, judged, cur>>

TVCall == /\ l <= Len(Rec) /\ Rec[l].ev = "call"
          /\ LET e == Rec[l]
                 v == ToSet(e.v)
                 fx == FeExpect(fe, e.op, e.cls, v)
                 o == SessOutcome(fe, srv, devPF, e.op, e.cls, v, e.h, e.shape)
                 gated == e.cls \notin LocalRejectClasses(e.op) /\ ~FeGateOK(fe, e.op, e.cls)
                 crash == (IF e.res = "panic" THEN {"C06/panic/frontend/" \o e.op} ELSE {})
                          \* whatever the call does (sent, refused, in whichever wire form): a descriptor lent to it stays open
                          \cup (IF ~e.lent_ok THEN {"C09/frontend/lent-descriptor-closed/" \o e.op \o "/" \o e.cls,
                                                    "C02/lent-descriptor-closed/" \o e.op \o "/" \o e.cls} ELSE {})
             IN /\ viol' = AddViol(viol, C02Viol(e, fx, o) \cup C07Viol(e, gated) \cup C03Viol(e, fx, o) \cup crash, cur)
                /\ fe' = SessNextFe(fe, e.op, e.cls, v, devPF, e.res = "ok")
                /\ srv' = SessNextSrv(fe, srv, devPF, e.op, e.cls, v, e.h)
          /\ judged' = judged + 1 /\ l' = l + 1
          /\ UNCHANGED <<devPF, cur>>

\* the process under test was killed by a signal while this case ran (recorded by the driver; `begin` marks the letter that
\* was in progress): judged like any other observation -- whatever the property, an input that kills the process breaks it
TVCrashAny == /\ l <= Len(Rec) /\ Rec[l].ev \in {"crash", "begin"}
              /\ viol' = IF Rec[l].ev = "crash" THEN AddViol(viol, {"ANY/process-killed-by-signal-" \o Str(Rec[l].signal)}, Rec[l].id) ELSE viol
              /\ l' = l + 1 /\ UNCHANGED <<fe, srv, devPF, judged, cur>>
\* C09 over the whole session: after both endpoints are gone nothing they received, and nothing the handler handed over for
\* transmission, is still open
TVTeardown == /\ l <= Len(Rec) /\ Rec[l].ev = "teardown"
              /\ viol' = AddViol(viol, TeardownViol(Rec[l], "session"), cur)
              /\ l' = l + 1
              /\ UNCHANGED <<fe, srv, devPF, judged, cur>>
TVNext == TVReset \/ TVFlags \/ TVCall \/ TVCrashAny \/ TVTeardown
TVSpec == TVInit /\ [][TVNext]_tvars
Post == PostOK
Report == ReportAt(l, judged, viol)
=============================================================================
