------------------------------- MODULE TV_Gpu -------------------------------
(* Trace validation of engine "gpu" (real GpuBackend proxy <-> independent raw peer): C01, C06. *)
EXTENDS GpuChannel, TVCommon
VARIABLES l, viol, judged, cur
tvars == <<l, viol, judged, cur>>

WireViol(e) ==
    IF e.nwire # 1 \/ e.leftover # 0 THEN {"C01/gpu/messages-on-wire=" \o Str(e.nwire) \o "/" \o e.op}
    ELSE LET m == e.wire[1] body == GpuFixedBody(e.op, e.args) IN
         (IF m.c # GpuCode(e.op) THEN {"C01/gpu/request-code/" \o e.op} ELSE {})
         \cup (IF m.flags # 0 THEN {"C01/gpu/header-flags=" \o Str(m.flags) \o "/" \o e.op} ELSE {})
         \cup (IF m.size # Len(body) + e.dlen THEN {"C01/gpu/size-field/" \o e.op} ELSE {})
         \cup (IF m.bytes # body THEN {"C01/gpu/payload-bytes/" \o e.op} ELSE {})
         \cup (IF m.dlen # e.dlen \/ ~e.data_ok THEN {"C01/gpu/data-payload/" \o e.op} ELSE {})
         \cup (IF m.nfds # (IF e.fd THEN 1 ELSE 0) \/ ~m.fd_first THEN {"C01/gpu/descriptors/" \o e.op} ELSE {})
         \cup (IF e.fd /\ m.fdids # <<e.lent>> THEN {"C01/gpu/descriptor-identity/" \o e.op} ELSE {})

ReplyViol(e) ==
    IF e.res = "panic" THEN {"C06/panic/gpu/" \o e.op \o "/" \o e.peer}
    \* the call did not return even after its connection was shut down: it is not waiting for the peer, it is stuck on itself
    ELSE IF e.res = "stuck" THEN {"C06/gpu/hang-on-bad-reply/" \o e.op \o "/" \o e.peer, "C10/gpu/call-never-returns-even-after-the-connection-is-gone/" \o e.op}
    ELSE IF e.peer = "auto"
    THEN (IF e.hang THEN {"C06/gpu/hang-on-correct-reply/" \o e.op}
          ELSE IF e.res # "ok" THEN {"C01/gpu/conformant-exchange-failed/" \o e.op}
          ELSE IF GpuAwaits(e.op) /\ e.dec # e.enc THEN {"C01/gpu/decoded-value-differs/" \o e.op} ELSE {})
    ELSE IF ~GpuAwaits(e.op) \/ e.peer = "silent" THEN {}
    ELSE IF e.res = "ok" THEN {"C06/gpu/accepted-bad-reply/" \o e.op \o "/" \o e.peer}
    ELSE IF e.hang THEN {"C06/gpu/hang-on-bad-reply/" \o e.op \o "/" \o e.peer}
    ELSE {}

TVInit == l = 1 /\ viol = {} /\ judged = 0 /\ cur = -1
TVReset == /\ l <= Len(Rec) /\ Rec[l].ev = "reset" /\ cur' = Rec[l].id /\ l' = l + 1 /\ UNCHANGED <<viol, judged>>
TVCall == /\ l <= Len(Rec) /\ Rec[l].ev = "gcall"
          \* a call that panicked or never returned has no recorded arguments: only its outcome is judged
          /\ viol' = AddViol(viol, (IF Rec[l].res \in {"panic", "stuck"} THEN {} ELSE WireViol(Rec[l])) \cup ReplyViol(Rec[l]), cur)
          /\ judged' = judged + 1 /\ l' = l + 1 /\ UNCHANGED cur
TVTeardown == /\ l <= Len(Rec) /\ Rec[l].ev = "teardown"
              /\ viol' = AddViol(viol, TeardownViol(Rec[l], "gpu-proxy"), cur)
              /\ l' = l + 1
              /\ UNCHANGED <<judged, cur>>

\* the process under test was killed by a signal while this case ran (recorded by the driver; `begin` marks the letter that
\* was in progress): judged like any other observation -- whatever the property, an input that kills the process breaks it
TVCrashAny == /\ l <= Len(Rec) /\ Rec[l].ev \in {"crash", "begin"}
              /\ viol' = IF Rec[l].ev = "crash" THEN AddViol(viol, {"ANY/process-killed-by-signal-" \o Str(Rec[l].signal)}, Rec[l].id) ELSE viol
              /\ l' = l + 1 /\ UNCHANGED <<judged, cur>>
TVNext == TVTeardown \/ TVReset \/ TVCall \/ TVCrashAny
TVSpec == TVInit /\ [][TVNext]_tvars
Post == PostOK
Report == ReportAt(l, judged, viol)
=============================================================================
