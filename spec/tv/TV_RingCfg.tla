----------------------------- MODULE TV_RingCfg -----------------------------
(* Trace validation of the daemon engine against RingConfig.tla (C14). *)
EXTENDS RingConfig, TVCommon
VARIABLES s, pool, memsel, addr, l, viol, judged, cur, dead, stopped
tvars == <<s, pool, memsel, addr, l, viol, judged, cur, dead, stopped>>

Sum4(x, y) == LET c1 == (x[1] + y[1]) \div 65536  c2 == (x[2] + y[2] + c1) \div 65536  c3 == (x[3] + y[3] + c2) \div 65536 IN
              <<(x[1] + y[1]) % 65536, (x[2] + y[2] + c1) % 65536, (x[3] + y[3] + c2) % 65536, (x[4] + y[4] + c3) % 65536>>
\* limbs of a mask given as a set of bit numbers
MaskLimbs(S) == [i \in 1..4 |-> LET RECURSIVE Acc(_)
                                   Acc(k) == IF k = 16 THEN 0 ELSE (IF (16 * (i - 1) + k) \in S THEN 2 ^ k ELSE 0) + Acc(k + 1)
                               IN Acc(0)]
N4(n) == <<n % 65536, n \div 65536, 0, 0>>

Letter(e) ==
    LET lt == e.letter IN
    [op |-> e.op, q |-> e.q,
     n |-> IF e.op \in {"set_vring_num", "set_vring_base"} \/ (e.op = "set_vring_addr" /\ "n" \in DOMAIN lt) THEN lt.n[1] ELSE 0,
     bits |-> IF "bits" \in DOMAIN lt THEN ToSet(lt.bits) ELSE {},
     fd |-> IF "fd" \in DOMAIN lt THEN lt.fd ELSE "",
     usedIdx |-> IF "used_idx" \in DOMAIN lt THEN lt.used_idx ELSE 0]

Snapshot(e, q) ==          \* ring q as the backend sees it (single worker owning every ring)
    e.barriers[1].rings[q + 1]

RingViol(e, s2, addr2) ==
    UNION {LET r == Snapshot(e, q) IN
           (IF r.size # s2.size[q] THEN {"C14/ring-size-differs/after=" \o e.op} ELSE {})
           \cup (IF r.next_avail # s2.avail[q] THEN {"C14/next-avail-differs/after=" \o e.op} ELSE {})
           \cup (IF s2.addrSet[q] /\ r.next_used # s2.used[q] THEN {"C14/next-used-differs/after=" \o e.op} ELSE {})
           \cup (IF r.event_idx # s2.eventIdx THEN {"C14/queue-event-idx-differs/after=" \o e.op} ELSE {})
           \cup (IF s2.addrSet[q] /\ <<r.desc, r.avail, r.used>> # addr2[q] THEN {"C14/ring-addresses-differ/after=" \o e.op} ELSE {})
           : q \in Rings}

CbVal(e, name) == {c.v : c \in {c \in ToSet(e.cbs) : c.cb = name}}

LetterViol(e, a, ok) ==
    CASE a.op = "get_vring_base" /\ ok -> IF e.out.num # N4(s.avail[a.q]) THEN {"C14/get-vring-base-value"} ELSE {}
      [] a.op = "set_features" /\ ok ->
            (IF CbVal(e, "acked_features") # {MaskLimbs(a.bits)} THEN {"C14/features-delivered-to-backend-differ"} ELSE {})
            \cup (IF CbVal(e, "set_event_idx") # {N4(IF EVENT_IDX \in a.bits THEN 1 ELSE 0)} THEN {"C14/event-idx-not-delivered-to-backend"} ELSE {})
      [] a.op = "set_features" /\ ~ok -> IF CbVal(e, "acked_features") # {} THEN {"C14/rejected-features-delivered-to-backend"} ELSE {}
      [] a.op = "brfd" /\ ok ->
            (IF ~e.out.got_backend THEN {"C14/backend-request-channel-not-handed-over"} ELSE {})
            \cup (IF e.out.so_sent # (18 \in s.apf) THEN {"C14/channel-shared-object-setting/negotiated=" \o Str(18 \in s.apf)} ELSE {})
            \cup (IF e.out.sh_sent # (21 \in s.apf) THEN {"C14/channel-shmem-setting/negotiated=" \o Str(21 \in s.apf)} ELSE {})
            \cup (IF (e.out.so_sent /\ e.out.so_need_reply # (3 \in s.apf)) \/ (e.out.sh_sent /\ e.out.sh_need_reply # (3 \in s.apf))
                  THEN {"C14/channel-reply-ack-setting/negotiated=" \o Str(3 \in s.apf)} ELSE {})
      [] a.op = "use_ring" ->
            LET q == a.q  cc == e.out.call_counts  n == Len(cc) IN
            IF ~s.addrSet[q] \/ s.size[q] # 256 \/ stopped[q] THEN {}
            ELSE (IF e.ndispatch # 1 THEN {"C14/use-ring/dispatches=" \o Str(e.ndispatch)} ELSE
                  (IF ToSet(e.out.changed_files) # {memsel} THEN {"C14/used-ring-written-to-wrong-memory"} ELSE {})
                  \cup (IF e.out.used_by_file[memsel + 1][3] + 256 * e.out.used_by_file[memsel + 1][4] # (s.used[q] + 1) % 65536
                        THEN {"C14/used-index-in-guest-memory"} ELSE {})
                  \cup (IF s.call[q] > 0 /\ (n = 0 \/ cc[n] # 1) THEN {"C14/latest-call-descriptor-not-signalled"} ELSE {})
                  \cup (IF \E i \in 1..n : cc[i] # 0 /\ (i # n \/ s.call[q] = 0) THEN {"C14/stale-or-absent-call-descriptor-signalled"} ELSE {}))
      [] OTHER -> {}

TVInit == /\ s = RcInit /\ pool = <<>> /\ memsel = 0 /\ addr = [q \in Rings |-> <<>>] /\ l = 1 /\ viol = {} /\ judged = 0 /\ cur = -1 /\ dead = FALSE /\ stopped = [q \in Rings |-> FALSE]
TVReset == /\ l <= Len(Rec) /\ Rec[l].ev = "reset"
           /\ s' = RcInit /\ pool' = Rec[l].pool /\ memsel' = 0 /\ addr' = [q \in Rings |-> <<>>] /\ dead' = FALSE /\ stopped' = [q \in Rings |-> FALSE]
           /\ cur' = Rec[l].id /\ l' = l + 1 /\ UNCHANGED <<viol, judged>>
TVStep == /\ l <= Len(Rec) /\ Rec[l].ev = "step"
          /\ LET e == Rec[l] IN
             \* (add_mem_reg / reconnect: the refused update of the prefix and the new connection after it -- C13 judges those)
             IF e.op \in {"negotiate", "set_vring_kick", "kick", "add_mem_reg", "reconnect"}
             THEN /\ s' = IF e.op = "negotiate" THEN [s EXCEPT !.acked = ToSet(e.letter.feats), !.apf = ToSet(e.letter.pf), !.featuresSet = TRUE,
                                                                !.eventIdx = EVENT_IDX \in ToSet(e.letter.feats)] ELSE s
                  /\ UNCHANGED <<memsel, addr, viol, judged, dead, stopped>>
             ELSE LET a == Letter(e)
                      a2 == IF e.op = "set_mem_table" THEN [a EXCEPT !.n = e.letter.rids[1]] ELSE a
                      v == (IF e.op = "brfd" /\ 5 \notin s.apf THEN "must_fail" ELSE RcVerdict(s, a2))
                      ok == e.status = "ok"
                      s2 == IF e.op = "use_ring" /\ s.addrSet[a.q] /\ ~stopped[a.q] /\ e.ndispatch = 1 THEN [s EXCEPT !.used[a.q] = (s.used[a.q] + 1) % 65536] ELSE RcApply(s, a2)
                      ms2 == IF e.op = "set_mem_table" /\ ok THEN e.letter.rids[1] ELSE memsel
                      addr2 == IF e.op = "set_vring_addr" /\ ok /\ a.q \in Rings
                               THEN [addr EXCEPT ![a.q] = <<Sum4(pool[memsel + 1].gpa, e.letter.odesc), Sum4(pool[memsel + 1].gpa, e.letter.oavail),
                                                          Sum4(pool[memsel + 1].gpa, e.letter.oused)>>]
                               ELSE addr IN
                  /\ viol' = IF dead THEN viol
                             ELSE AddViol(viol, (IF (v = "must_ok") # ok
                                                 THEN {"C14/" \o e.op \o "/" \o v \o "/got=" \o e.status \o
                                                       (IF e.op = "set_vring_num" THEN "/n=" \o (IF a.n = 0 THEN "0" ELSE IF a.n > MAXQ THEN "over-max" ELSE IF IsPow2(a.n) THEN "pow2" ELSE "not-pow2")
                                                        ELSE IF a.q \notin Rings /\ e.op # "set_features" THEN "/ring-index-out-of-range" ELSE "")}
                                                 ELSE {})
                                                \cup LetterViol(e, a2, ok)
                                                \cup (IF e.workers_ok /\ Len(e.barriers) >= 1 /\ ok = (v = "must_ok") THEN RingViol(e, s2, addr2) ELSE {}), cur)
                  /\ s' = s2 /\ memsel' = ms2 /\ addr' = addr2
                  /\ stopped' = [q \in Rings |-> stopped[q] \/ (e.op = "get_vring_base" /\ ok /\ a.q = q)]
                  /\ dead' = (dead \/ ~e.workers_ok \/ e.status \notin {"ok", "none"})
                  /\ judged' = judged + 1
          /\ l' = l + 1 /\ UNCHANGED <<pool, cur>>
TVOther == /\ l <= Len(Rec) /\ Rec[l].ev \in {"end", "threads"} /\ l' = l + 1 /\ UNCHANGED <<s, pool, memsel, addr, viol, judged, cur, dead, stopped>>
\* the process under test was killed by a signal while this case ran (recorded by the driver; `begin` marks the letter that
\* was in progress): judged like any other observation -- whatever the property, an input that kills the process breaks it
TVCrashAny == /\ l <= Len(Rec) /\ Rec[l].ev \in {"crash", "begin"}
              /\ viol' = IF Rec[l].ev = "crash" THEN AddViol(viol, {"ANY/process-killed-by-signal-" \o Str(Rec[l].signal)}, Rec[l].id) ELSE viol
              /\ l' = l + 1 /\ UNCHANGED <<s, pool, memsel, addr, judged, cur, dead, stopped>>
TVNext == TVReset \/ TVStep \/ TVOther \/ TVCrashAny
TVSpec == TVInit /\ [][TVNext]_tvars
Post == PostOK
Report == ReportAt(l, judged, viol)
=============================================================================
