----------------------------- MODULE GpuChannel -----------------------------
(***************************************************************************)
(* The vhost-user-gpu channel as used by the GpuBackend proxy: requests    *)
(* with flags 0 (no version field on this channel), replies with only the  *)
(* REPLY bit; some requests always have a reply, the others never.         *)
(***************************************************************************)
EXTENDS Catalog, WireFormat

GpuOps == {"get_protocol_features", "set_protocol_features", "get_display_info", "get_edid", "set_scanout",
           "update_scanout", "set_dmabuf_scanout", "set_dmabuf_scanout2", "update_dmabuf_scanout",
           "cursor_pos", "cursor_pos_hide", "cursor_update"}

GpuCode(op) ==
    CASE op = "get_protocol_features" -> 1 [] op = "set_protocol_features" -> 2 [] op = "get_display_info" -> 3
      [] op = "cursor_pos" -> 4 [] op = "cursor_pos_hide" -> 5 [] op = "cursor_update" -> 6 [] op = "set_scanout" -> 7
      [] op = "update_scanout" -> 8 [] op = "set_dmabuf_scanout" -> 9 [] op = "update_dmabuf_scanout" -> 10
      [] op = "get_edid" -> 11 [] op = "set_dmabuf_scanout2" -> 12

GpuAwaits(op) == GpuCode(op) \in GpuHasReply

\* fixed part of the request body: a list of 32-bit fields (64-bit for the protocol-feature mask and
\* the dmabuf modifier, which is the 11th field of DMABUF_SCANOUT2)
GpuFixedBody(op, a) ==
    CASE op = "set_protocol_features" -> U64(a.v)
      [] op = "get_edid" -> U32(a.scanout_id)
      [] op \in {"get_protocol_features", "get_display_info"} -> <<>>
      [] op = "set_dmabuf_scanout2" ->
            Flatten([i \in 1..10 |-> U32(a.f[i])]) \o U64(a.f[11])
      [] OTHER -> Flatten([i \in 1..Len(a.f) |-> U32(a.f[i])])

GpuCarriesData(op) == op \in {"update_scanout", "cursor_update"}
GpuMayCarryFd(op) == op \in {"set_dmabuf_scanout", "set_dmabuf_scanout2"}
=============================================================================
