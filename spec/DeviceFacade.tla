---------------------------- MODULE DeviceFacade ----------------------------
(***************************************************************************)
(* The daemon as a facade in front of a device backend: the optional,      *)
(* device-level requests of the protocol (configuration space, shared      *)
(* objects, GPU socket, device state transfer, shared-memory configuration,*)
(* queue count, memory slots, inflight descriptors) travel                 *)
(*   wire -> request server (gate by acknowledged protocol feature)        *)
(*        -> VhostUserHandler -> adapter (Arc / Mutex / RwLock)            *)
(*        -> device callback -> result -> reply / in-band failure / ack    *)
(* and the daemon ends the connection after any request that fails         *)
(* without an in-band failure encoding.  Beyond the listed properties;     *)
(* shaped after backend_req_handler.rs (dispatch), handler.rs              *)
(* (pass-through methods, "not supported" inflight requests), backend.rs   *)
(* (the three adapters) and lib.rs (the daemon thread).                    *)
(***************************************************************************)
EXTENDS Catalog

Kinds == {"get_config", "set_config", "get_shared_object", "gpu_set_socket", "set_device_state_fd",
          "check_device_state", "get_shmem_config", "get_queue_num", "get_max_mem_slots",
          "get_inflight_fd", "set_inflight_fd"}

Code(k) ==
    CASE k = "get_config" -> GET_CONFIG             [] k = "set_config" -> SET_CONFIG
      [] k = "get_shared_object" -> GET_SHARED_OBJECT [] k = "gpu_set_socket" -> GPU_SET_SOCKET
      [] k = "set_device_state_fd" -> SET_DEVICE_STATE_FD
      [] k = "check_device_state" -> CHECK_DEVICE_STATE
      [] k = "get_shmem_config" -> GET_SHMEM_CONFIG [] k = "get_queue_num" -> GET_QUEUE_NUM
      [] k = "get_max_mem_slots" -> GET_MAX_MEM_SLOTS
      [] k = "get_inflight_fd" -> GET_INFLIGHT_FD   [] k = "set_inflight_fd" -> SET_INFLIGHT_FD

\* outcomes a device callback can be scripted to produce
Scripts(k) ==
    CASE k \in {"get_queue_num", "get_max_mem_slots", "get_inflight_fd", "set_inflight_fd"} -> {"ok"}
      [] k = "set_device_state_fd" -> {"ok", "file", "fail"}
      [] OTHER -> {"ok", "fail"}

\* requests the daemon's own handler answers without asking the device
Internal(k) == k \in {"get_queue_num", "get_max_mem_slots"}
\* requests the daemon's handler refuses whatever was negotiated (it offers no way to serve them)
Unsupported(k) == k \in {"get_inflight_fd", "set_inflight_fd"}

\* pf: protocol features acknowledged on the current connection (bit numbers); dead: the daemon has stopped serving it
DfInit == [pf |-> {}, dead |-> FALSE]

HasReply(k) == Code(k) \in FeHasReply
AckDue(s, k) == ~HasReply(k) /\ PF_REPLY_ACK \in s.pf
Gated(s, k) == FeGate(Code(k)) # -1 /\ FeGate(Code(k)) \notin s.pf

\* is the device callback invoked (exactly once, with the arguments of the request)?
Called(s, k) == ~s.dead /\ ~Gated(s, k) /\ ~Unsupported(k) /\ ~Internal(k)

\* what the frontend observes:
\*   "value"    a reply carrying the device's (or the daemon's) value
\*   "failure"  the reply that encodes a failure in band
\*   "ack" / "nack"   the acknowledgement (or, without REPLY_ACK, a following round trip that is answered)
\*   "closed"   no answer, the daemon ends the connection
Obs(s, k, h) ==
    IF s.dead \/ Gated(s, k) THEN "closed"
    ELSE IF Unsupported(k) THEN (IF AckDue(s, k) THEN "nack" ELSE "closed")
    ELSE IF Internal(k) THEN "value"
    ELSE IF HasReply(k) THEN
         (IF h # "fail" THEN "value" ELSE IF Code(k) \in FeInBandFailure THEN "failure" ELSE "closed")
    ELSE (IF h # "fail" THEN "ack" ELSE IF AckDue(s, k) THEN "nack" ELSE "closed")

\* the connection survives everything that was answered with a reply or a positive acknowledgement
DfNext(s, k, h) == IF Obs(s, k, h) \in {"closed", "nack"} THEN [s EXCEPT !.dead = TRUE] ELSE s
DfNegotiate(s, set) == IF s.dead THEN s ELSE [s EXCEPT !.pf = set]
DfReconnect(s) == DfInit

\* the families of acknowledged sets the bounded instances use
DevBits == {PF_MQ, PF_REPLY_ACK, PF_CONFIG, PF_INFLIGHT_SHMFD, PF_CONFIGURE_MEM_SLOTS, PF_SHARED_OBJECT,
            PF_DEVICE_STATE, PF_SHMEM}
=============================================================================
