------------------------------ MODULE TVCommon ------------------------------
(***************************************************************************)
(* Shared plumbing of the trace-validation specifications: the recorded    *)
(* trace (ndjson, path in environment variable TRACE), accumulation of     *)
(* deviation signatures, acceptance postcondition.                         *)
(***************************************************************************)
EXTENDS Integers, Sequences, FiniteSets, TLC, Json, IOUtils

Rec == ndJsonDeserialize(IOEnv.TRACE)

ToSet(seq) == {seq[i] : i \in 1..Len(seq)}
IsZero(limbs) == \A i \in 1..Len(limbs) : limbs[i] = 0
Str(x) == ToString(x)

\* add signatures not seen before, remembering the trace (case id) that showed them first
AddViol(viol, sigs, id) ==
    viol \cup {[sig |-> x, id |-> id] : x \in {y \in sigs : \A v \in viol : v.sig # y}}

\* C09: at teardown of a connection nothing the library received may stay open, and nothing that
\* was open before may have been closed by it
TeardownViol(e, eng) ==
    (IF e.nleaked > 0 THEN {"C09/" \o eng \o "/descriptor-leaked-after-teardown"} ELSE {})
    \cup (IF e.nlost > 0 THEN {"C09/" \o eng \o "/foreign-descriptor-closed"} ELSE {})

\* printed once, from the state that has consumed the whole trace
ReportAt(l, judged, viol) ==
    (l = Len(Rec) + 1) => PrintT(<<"TVVIOL", ToJson([judged |-> judged, viol |-> viol])>>)

\* every record must have been consumed by exactly one step
PostOK ==
    /\ PrintT(<<"TVRESULT", ToJson([events |-> Len(Rec), consumed |-> TLCGet("stats").diameter - 1])>>)
    /\ TLCGet("stats").diameter - 1 = Len(Rec)
=============================================================================
