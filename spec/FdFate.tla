------------------------------- MODULE FdFate -------------------------------
(***************************************************************************)
(* Fate of the descriptors a running daemon receives for its rings (C09,   *)
(* daemon part): every ring has a kick, a call and an error slot; a        *)
(* descriptor received for a slot occupies it (handed over to the ring)    *)
(* until it is replaced (SET_VRING_KICK/CALL/ERR again, with or without a  *)
(* new descriptor), dropped by GET_VRING_BASE (kick and call), or the      *)
(* daemon is dropped; a descriptor that came with a refused request is     *)
(* closed at once.  The slots belong to the daemon's handler and survive   *)
(* the connection.  Whatever occupies no slot must be closed: "held by the *)
(* daemon" is observable as the number of descriptors of this process,     *)
(* other than the test's own copies, that refer to the same open file.     *)
(* Shaped after handler.rs set_vring_kick/call/err, get_vring_base and     *)
(* vring.rs set_kick/set_call/set_err.                                     *)
(***************************************************************************)
EXTENDS Naturals, Sequences, FiniteSets

CONSTANT NQ                      \* rings of the device
Rings == 0..(NQ - 1)
Roles == {"kick", "call", "err"}
\* what kind of file the descriptor refers to: an eventfd (what a VMM sends), either end of a pipe (readable only /
\* writable only), a socket, a memory file; "none" = the request carries the no-descriptor flag
KickKinds == {"eventfd", "pipe_r", "pipe_w", "sock"}          \* kinds that can be polled
AllKinds == KickKinds \cup {"memfd"}

\* slot: ring x role -> [tok, kind] (tok 0 = empty); tokens are numbered in the order in which they are sent
Empty == [tok |-> 0, kind |-> "none"]
FfInit == [slot |-> [q \in Rings |-> [r \in Roles |-> Empty]], sent |-> 0, dead |-> FALSE]

\* letters: [op |-> "set", role, q, kind] | [op |-> "base", q] | [op |-> "reconnect"] ; q may lie outside the device
Refused(s, a) == a.op \in {"set", "base"} /\ a.q \notin Rings
FfNext(s, a) ==
    IF a.op = "reconnect" THEN [s EXCEPT !.dead = FALSE]
    ELSE IF s.dead THEN s
    ELSE IF a.op = "set" THEN
         LET tok == IF a.kind = "none" THEN Empty ELSE [tok |-> s.sent + 1, kind |-> a.kind]
             s1 == [s EXCEPT !.sent = IF a.kind = "none" THEN @ ELSE @ + 1] IN
         IF Refused(s, a) THEN [s1 EXCEPT !.dead = TRUE]                 \* the descriptor that came along is closed
         ELSE [s1 EXCEPT !.slot[a.q][a.role] = tok]                      \* the previous occupant is closed
    ELSE \* "base": GET_VRING_BASE stops the ring and lets go of its kick and call descriptors
         IF Refused(s, a) THEN [s EXCEPT !.dead = TRUE]
         ELSE [s EXCEPT !.slot[a.q]["kick"] = Empty, !.slot[a.q]["call"] = Empty]

Held(s) == {s.slot[q][r].tok : q \in Rings, r \in Roles} \ {0}
\* is token t (1..s.sent) held by the daemon?
IsHeld(s, t) == t \in Held(s)

=============================================================================
