------------------------------ MODULE DirtyLog ------------------------------
(***************************************************************************)
(* Dirty-page logging of a vhost-user daemon (C15).  Guest memory is a set *)
(* of page-aligned regions (absolute 4 KiB page ranges); the shared log is *)
(* a window of S bytes: bit (page mod 8) of byte (page div 8) belongs to   *)
(* guest page `page`.                                                       *)
(***************************************************************************)
EXTENDS Integers, Sequences, FiniteSets

\* pool of candidate regions (absolute page ranges): two adjacent regions sharing log byte 0,
\* one in byte 1, one straddling bytes 1 and 2, one far (byte 4)
DPoolLo == <<3, 5, 9, 14, 33>>
DPoolHi == <<5, 7, 12, 18, 35>>
DPool == 0..4
DLo(r) == DPoolLo[r + 1]
DHi(r) == DPoolHi[r + 1]
MaxPage(T) == IF T = {} THEN -1 ELSE CHOOSE p \in {DHi(r) - 1 : r \in T} : \A r \in T : DHi(r) - 1 <= p

\* SET_LOG_BASE with a window of S bytes over table T
LogFits(T, S) == MaxPage(T) < 8 * S
LogVerdict(T, S) == IF S >= 1 /\ LogFits(T, S) THEN "must_ok" ELSE "must_fail"

\* ... at byte offset `off` of the log file: a window that is too small is refused wherever it lies; whether a window that
\* does not start on a page boundary of the file is accepted at all is left open (the protocol text does not say) -- if it
\* is, everything else holds for it as for any other window
LogVerdictAt(T, S, off) == IF LogVerdict(T, S) = "must_fail" THEN "must_fail" ELSE IF off % 4096 # 0 THEN "open" ELSE "must_ok"

\* pages touched by a write of n >= 1 bytes starting at byte address a (absolute)
Pages(a, n) == {p \in (a \div 4096)..((a + n - 1) \div 4096) : TRUE}
\* bits a write must set: the pages it touched, provided logging is on for them
ExpectedBits(on, a, n) == IF on /\ n >= 1 THEN Pages(a, n) ELSE {}
=============================================================================
