------------------------------ MODULE MemTable ------------------------------
(***************************************************************************)
(* Guest memory table of the daemon (C13).  A pool of candidate regions    *)
(* over an abstract page universe: region r occupies guest pages           *)
(* [lo[r], hi[r]) and is backed by its own file.  The table is the set of  *)
(* regions of the successful operations; a failed update changes nothing.  *)
(***************************************************************************)
EXTENDS Integers, Sequences, FiniteSets

\* the pool used by the bounded model and by the harness (page numbers):
\*   0: [0,2)   1: [2,4) adjacent to 0   2: [1,3) overlaps 0 and 1   3: [8,10) far   4: [0,2) duplicate range, other file
\*   5: [4,6) adjacent to 1 -- 0, 1, 5 are three regions in a row (in half of the concrete pools they are also adjacent in the
\*      frontend's address space, which is when an implementation may be tempted to merge their translation entries)
PoolLo == <<0, 2, 1, 8, 0, 4>>
PoolHi == <<2, 4, 3, 10, 2, 6>>
Pool == 0..5
Lo(r) == PoolLo[r + 1]
Hi(r) == PoolHi[r + 1]
Overlap(a, b) == Lo(a) < Hi(b) /\ Lo(b) < Hi(a)
Covers(T, p) == \E r \in T : Lo(r) <= p /\ p < Hi(r)

\* outcome classes of an update: "must_ok" | "must_fail" | "open"
SetVerdict(L, bad) ==      \* L: sequence of distinct-or-not region ids
    IF bad \/ \E i, j \in 1..Len(L) : i # j /\ (L[i] = L[j] \/ Overlap(L[i], L[j])) THEN "must_fail"
    ELSE IF \A i \in 1..(Len(L) - 1) : Lo(L[i]) < Lo(L[i + 1]) THEN "must_ok"
    ELSE "open"                                   \* a legal but unsorted table
AddVerdict(T, r, bad) == IF bad \/ \E x \in T : Overlap(x, r) THEN "must_fail" ELSE "must_ok"
\* A region whose user (frontend virtual) range ends exactly at 2^64 -- its last byte is the last byte of the address space --
\* is a legal geometry ("user ranges anywhere in 64-bit space"); the pinned code refuses it (its end is not representable),
\* which the statement permits because only the regions of successful operations make up the table.  Acceptance is therefore
\* left open for such a region, and an accepted one is translated and probed like any other.
TopOpen(v, top) == IF v = "must_ok" /\ top THEN "open" ELSE v
SameRange(a, b) == Lo(a) = Lo(b) /\ Hi(a) = Hi(b)
\* removing a region that is not in the table but has exactly the guest range of one that is (other user
\* address / file): the statement does not say which fields identify a region -- left open
RemVerdict(T, r, sizeDelta) == IF sizeDelta # 0 THEN "must_fail"
                               ELSE IF r \in T THEN "must_ok"
                               ELSE IF \E x \in T : SameRange(x, r) THEN "open" ELSE "must_fail"
RemResult(T, r) == T \ {x \in T : SameRange(x, r)}

SeqToSet(L) == {L[i] : i \in 1..Len(L)}
\* what a probe of pool region r at its own guest range must see through the backend's memory
ProbeExpect(T, r, page) == IF r \in T THEN "same"
                           ELSE IF Covers(T, page) THEN "differs"      \* another region's file is mapped there
                           ELSE "unmapped"
=============================================================================
