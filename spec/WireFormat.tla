----------------------------- MODULE WireFormat -----------------------------
(***************************************************************************)
(* Byte-level encoding of vhost-user messages, from the protocol document: *)
(* 12-byte header (request, flags, size; little-endian on the supported    *)
(* hosts) followed by the payload laid out field by field.  Values arrive  *)
(* from traces as four 16-bit limbs (least significant first) or as small  *)
(* naturals; bytes are naturals 0..255.                                    *)
(***************************************************************************)
EXTENDS Catalog

Lo(x) == x % 256
Hi(x) == x \div 256
LimbBytes(l) == <<Lo(l[1]), Hi(l[1]), Lo(l[2]), Hi(l[2]), Lo(l[3]), Hi(l[3]), Lo(l[4]), Hi(l[4])>>
U64(l) == LimbBytes(l)
U32(l) == SubSeq(LimbBytes(l), 1, 4)
N32(n) == <<Lo(n % 65536), Hi(n % 65536), Lo(n \div 65536), Hi(n \div 65536)>>   \* n < 2^31
N16(n) == <<Lo(n), Hi(n)>>
N64(n) == N32(n) \o <<0, 0, 0, 0>>
Zeros(k) == [i \in 1..k |-> 0]

RECURSIVE Flatten(_)
Flatten(ss) == IF ss = <<>> THEN <<>> ELSE Head(ss) \o Flatten(Tail(ss))

Region(r) == U64(r.gpa) \o U64(r.size) \o U64(r.ua) \o U64(r.off)

\* Body of the request a frontend operation emits. `a` = the call's arguments.
\* form: for set_log_base "shmfd" | "legacy".
FeBody(op, a, form) ==
    CASE op \in {"set_features", "set_protocol_features"} -> U64(a.v)
      [] op \in {"set_vring_num", "set_vring_base", "set_vring_enable"} -> N32(a.index) \o U32(a.v)
      [] op = "get_vring_base" -> N32(a.index) \o Zeros(4)
      [] op = "set_vring_addr" -> N32(a.index) \o N32(a.flags) \o U64(a.desc) \o U64(a.used) \o U64(a.avail) \o U64(a.log)
      [] op \in {"set_vring_kick", "set_vring_call", "set_vring_err"} -> N64(a.index)
      [] op = "set_mem_table" -> N32(a.n) \o Zeros(4) \o Flatten([i \in 1..Len(a.regions) |-> Region(a.regions[i])])
      [] op \in {"add_mem_region", "remove_mem_region"} -> Zeros(8) \o Region(a.regions[1])
      [] op \in {"get_config", "set_config"} -> U32(a.offset) \o U32(a.size) \o N32(a.flags) \o a.pbytes
      [] op = "get_shared_object" -> a.ubytes
      [] op \in {"get_inflight_fd", "set_inflight_fd"} ->
            U64(a.mmap_size) \o U64(a.mmap_offset) \o N16(a.num_queues) \o N16(a.queue_size)   \* + 4 bytes of padding
      [] op = "set_log_base" -> IF form = "shmfd" THEN U64(a.mmap_size) \o U64(a.mmap_offset) ELSE U64(a.base)
      [] op = "set_device_state_fd" -> N32(a.direction) \o N32(a.phase)
      [] OTHER -> <<>>

\* bytes of the body that the document leaves unspecified (struct padding at the tail)
FeBodyPadding(op) == IF op \in {"get_inflight_fd", "set_inflight_fd"} THEN 4 ELSE 0

\* descriptors the request carries
FeFdCount(op, a, form) ==
    CASE op = "set_mem_table" -> a.n
      [] op \in {"set_vring_kick", "set_vring_call", "set_vring_err", "set_log_fd", "set_backend_request_fd",
                 "set_inflight_fd", "add_mem_region", "set_device_state_fd"} -> 1
      [] op = "set_log_base" -> IF form = "shmfd" THEN 1 ELSE 0
      [] OTHER -> 0

\* Body of the reply the backend request server writes for request c (arguments a), given the
\* values hv the handler produced; ok = handler succeeded; withFile = it returned a descriptor.
\* Returns <<>> where the document does not fix the body (SET_LOG_BASE) -- callers skip those.
ConfigPayload(fill, n) == [i \in 1..n |-> (fill + i - 1) % 256]
FeReplyBody(c, a, hv, ok, withFile) ==
    CASE c = GET_FEATURES -> U64(hv.features)
      [] c = GET_PROTOCOL_FEATURES -> U64(hv.proto)
      [] c = GET_QUEUE_NUM -> U64(hv.queue_num)
      [] c = GET_MAX_MEM_SLOTS -> U64(hv.max_mem_slots)
      [] c = GET_VRING_BASE -> N32(a.index) \o U32(hv.vring_base)
      [] c = GET_CONFIG -> IF ok THEN U32(a.offset) \o U32(a.size) \o N32(a.flags) \o ConfigPayload(hv.config_fill, a.plen)
                           ELSE U32(a.offset) \o Zeros(4) \o N32(a.flags)
      [] c = GET_INFLIGHT_FD -> U64(hv.inflight[1]) \o U64(hv.inflight[2]) \o N16(hv.inflight[3]) \o N16(hv.inflight[4])
      [] c = SET_DEVICE_STATE_FD -> IF ~ok THEN N64(257) ELSE IF withFile THEN N64(0) ELSE N64(256)
      [] c = CHECK_DEVICE_STATE -> IF ok THEN N64(0) ELSE <<>>      \* any non-zero value signals failure
      [] c = GET_SHMEM_CONFIG -> N32(Len(hv.shmem)) \o Zeros(4) \o Flatten([i \in 1..Len(hv.shmem) |-> U64(hv.shmem[i])])
                                 \o Zeros(8 * (256 - Len(hv.shmem)))
      [] OTHER -> <<>>
FeReplyJudgedBytes(c, ok) == c \in {GET_FEATURES, GET_PROTOCOL_FEATURES, GET_QUEUE_NUM, GET_MAX_MEM_SLOTS, GET_VRING_BASE, GET_CONFIG,
                                    GET_INFLIGHT_FD, SET_DEVICE_STATE_FD, GET_SHMEM_CONFIG} \/ (c = CHECK_DEVICE_STATE /\ ok)
FeReplyFds(c, ok, withFile) ==
    CASE c \in {GET_INFLIGHT_FD, GET_SHARED_OBJECT} -> IF ok THEN 1 ELSE 0
      [] c = SET_DEVICE_STATE_FD -> IF ok /\ withFile THEN 1 ELSE 0
      [] OTHER -> 0

\* backend -> frontend requests
BeBody(k, a) ==
    IF k \in {6, 7, 8} THEN a.ubytes
    ELSE <<a.shmid>> \o Zeros(7) \o U64(a.fd_offset) \o U64(a.shm_offset) \o U64(a.len) \o U64(a.flags)

\* two's complement of a small positive number as 64-bit limbs: 2^64 - n, 0 < n < 65536
NegLimbs(n) == <<65536 - n, 65535, 65535, 65535>>

ReqFlags(nr) == FLAG_VERSION + (IF nr THEN FLAG_NEED_REPLY ELSE 0)
=============================================================================
