----------------------------- MODULE SenderOps -----------------------------
(* State functions of one sendmsg() attempt of Sender.tla (shared with the trace specification). *)
EXTENDS Naturals, Sequences
Range(a, n) == [i \in 1..n |-> a + i]
\* o bytes were accepted so far; the socket accepts k more; f = descriptor batches that have entered the stream
NextOff(o, k) == o + k
NextFdAt(f, o, k, nf) == IF k > 0 /\ o = 0 /\ nf > 0 THEN Append(f, <<0, nf>>) ELSE f
=============================================================================
