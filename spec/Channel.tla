------------------------------- MODULE Channel -------------------------------
(***************************************************************************)
(* A unix stream socket as the receivers of this library see it: a message *)
(* of L = 12 + size bytes arrives as an arbitrary sequence of non-empty    *)
(* segments (descriptors ride on the segment holding the first byte), and  *)
(* the stream may end (EOF) after any number of bytes.  The receiver       *)
(* (request servers, reply readers) recovers the message boundary from the *)
(* header alone.  Properties C08 (framing) and the descriptor part of C09. *)
(***************************************************************************)
EXTENDS Catalog

CONSTANT L          \* total length of the message on the wire (header + declared size)

VARIABLES got,      \* bytes delivered to the receiver so far
          pc,       \* "hdr" | "body" | "dispatched" | "disconnected" | "error"
          open,     \* the sender has not closed yet
          dispatches

chvars == <<got, pc, open, dispatches>>

ChInit == got = 0 /\ pc = (IF L = HDR_SIZE THEN "hdr" ELSE "hdr") /\ open = TRUE /\ dispatches = 0

\* the receiver's progress after k more bytes have arrived
Advance(g) == IF g < HDR_SIZE THEN "hdr" ELSE IF g < L THEN "body" ELSE "dispatched"

Deliver(k) == /\ open /\ pc \in {"hdr", "body"} /\ k >= 1 /\ got + k <= L
              /\ got' = got + k
              /\ pc' = Advance(got + k)
              /\ dispatches' = dispatches + (IF got + k = L THEN 1 ELSE 0)
              /\ UNCHANGED open

Eof == /\ open /\ pc \in {"hdr", "body"}
       /\ open' = FALSE
       /\ pc' = IF got = 0 THEN "disconnected" ELSE "error"
       /\ UNCHANGED <<got, dispatches>>

ChNext == (\E k \in 1..L : Deliver(k)) \/ Eof
ChSpec == ChInit /\ [][ChNext]_chvars

\* C08 on the model, for every segmentation and every cut point:
DispatchOnlyWhenComplete == (dispatches > 0) => got = L
AtMostOnce == dispatches <= 1
CleanDisconnectOnlyAtBoundary == (pc = "disconnected") => got = 0
TruncationIsError == (~open /\ got > 0 /\ got < L) => pc = "error"
NeverStuck == (pc \in {"hdr", "body"}) => open      \* a closed stream never leaves the receiver waiting
=============================================================================
