-------------------------- MODULE FrontendEndpoint --------------------------
(***************************************************************************)
(* The frontend endpoint (struct Frontend): per API operation              *)
(*   local validation -> feature gate -> send request ->                   *)
(*   (await reply | await ack | return at once) -> result.                 *)
(* Reference model for C02 (locally rejected calls put nothing on the      *)
(* wire), C07 (frontend side), C03/C06 (what a call waits for).            *)
(*                                                                         *)
(* State: vfPF  backend offered VHOST_USER_F_PROTOCOL_FEATURES (last        *)
(*              successful get_features)                                    *)
(*        avfPF frontend acknowledged it (set_features value /\ offered)    *)
(*        apf   protocol features passed to set_protocol_features           *)
(*        nr    NEED_REPLY requested through set_hdr_flags                  *)
(***************************************************************************)
EXTENDS Catalog, TLC

FeInit == [vfPF |-> FALSE, avfPF |-> FALSE, apf |-> {}, nr |-> FALSE]

\* operation -> request code it emits
OpCode(op) ==
    CASE op = "get_features" -> GET_FEATURES            [] op = "set_features" -> SET_FEATURES
      [] op = "set_owner" -> SET_OWNER                  [] op = "reset_owner" -> RESET_OWNER
      [] op = "set_mem_table" -> SET_MEM_TABLE          [] op = "set_log_base" -> SET_LOG_BASE
      [] op = "set_log_fd" -> SET_LOG_FD                [] op = "set_vring_num" -> SET_VRING_NUM
      [] op = "set_vring_addr" -> SET_VRING_ADDR        [] op = "set_vring_base" -> SET_VRING_BASE
      [] op = "get_vring_base" -> GET_VRING_BASE        [] op = "set_vring_kick" -> SET_VRING_KICK
      [] op = "set_vring_call" -> SET_VRING_CALL        [] op = "set_vring_err" -> SET_VRING_ERR
      [] op = "get_protocol_features" -> GET_PROTOCOL_FEATURES
      [] op = "set_protocol_features" -> SET_PROTOCOL_FEATURES
      [] op = "get_queue_num" -> GET_QUEUE_NUM          [] op = "reset_device" -> RESET_DEVICE
      [] op = "set_vring_enable" -> SET_VRING_ENABLE    [] op = "get_config" -> GET_CONFIG
      [] op = "set_config" -> SET_CONFIG                [] op = "set_backend_request_fd" -> SET_BACKEND_REQ_FD
      [] op = "get_shared_object" -> GET_SHARED_OBJECT  [] op = "get_inflight_fd" -> GET_INFLIGHT_FD
      [] op = "set_inflight_fd" -> SET_INFLIGHT_FD      [] op = "get_max_mem_slots" -> GET_MAX_MEM_SLOTS
      [] op = "add_mem_region" -> ADD_MEM_REG           [] op = "remove_mem_region" -> REM_MEM_REG
      [] op = "get_shmem_config" -> GET_SHMEM_CONFIG    [] op = "set_device_state_fd" -> SET_DEVICE_STATE_FD
      [] op = "check_device_state" -> CHECK_DEVICE_STATE

FeOps == {"get_features", "set_features", "set_owner", "reset_owner", "set_mem_table", "set_log_base",
          "set_log_fd", "set_vring_num", "set_vring_addr", "set_vring_base", "get_vring_base",
          "set_vring_kick", "set_vring_call", "set_vring_err", "get_protocol_features",
          "set_protocol_features", "get_queue_num", "reset_device", "set_vring_enable", "get_config",
          "set_config", "set_backend_request_fd", "get_shared_object", "get_inflight_fd",
          "set_inflight_fd", "get_max_mem_slots", "add_mem_region", "remove_mem_region",
          "get_shmem_config", "set_device_state_fd", "check_device_state"}

\* argument classes the API must reject locally (C02): anything else is "ok" / a valid variant
LocalRejectClasses(op) ==
    CASE op = "set_mem_table" -> {"empty", "toomany", "zero_size", "neg_fd"}
      [] op \in {"set_vring_num", "set_vring_base", "get_vring_base", "set_vring_kick",
                 "set_vring_call", "set_vring_err", "set_vring_enable"} -> {"q_oob"}
      [] op = "set_vring_addr" -> {"q_oob", "flags_undef"}
      [] op = "get_config" -> {"size0", "end_gt", "wrap"}
      [] op = "set_config" -> {"size0", "end_gt", "toolong"}
      [] op = "get_shared_object" -> {"nil", "max"}
      [] op = "set_inflight_fd" -> {"size0", "nq0", "qs0", "neg_fd"}
      [] op = "add_mem_region" -> {"zero_size", "neg_fd"}
      [] op = "remove_mem_region" -> {"zero_size"}
      [] OTHER -> {}

\* Frontend-side gate of an operation (C07).  cls "legacy" of set_log_base is the ungated form.
FeGateOK(st, op, cls) ==
    LET c == OpCode(op) IN
    /\ (op \in {"get_protocol_features", "set_protocol_features"} => st.vfPF)
    /\ (op = "set_vring_enable" => st.avfPF)
    /\ (FeGateFrontendExtra(c) # -1 => FeGateFrontendExtra(c) \in st.apf)
    /\ (FeGate(c) # -1 /\ op # "set_log_base" => FeGate(c) \in st.apf)

\* For set_log_base: the descriptor-carrying form is emitted only with LOG_SHMFD acknowledged
\* and a region given; otherwise the legacy u64 form (a different, ungated message) is sent.
LogBaseForm(st, cls) == IF cls = "shmfd" /\ PF_LOG_SHMFD \in st.apf THEN "shmfd" ELSE "legacy"

\* What the call does:  act "reject" (error, nothing on the wire) | "send";
\* await "reply" | "ack" | "none"
FeExpect(st, op, cls, v) ==
    IF cls \in LocalRejectClasses(op) \/ ~FeGateOK(st, op, cls)
    THEN [act |-> "reject", await |-> "none"]
    ELSE LET c == OpCode(op)
             apf2 == IF op = "set_protocol_features" THEN v ELSE st.apf
         IN IF op = "set_log_base"
            THEN [act |-> "send", await |-> IF LogBaseForm(st, cls) = "shmfd" THEN "reply"
                                            ELSE IF st.nr /\ PF_REPLY_ACK \in apf2 THEN "ack" ELSE "none"]
            ELSE IF c \in FeHasReply THEN [act |-> "send", await |-> "reply"]
            ELSE [act |-> "send", await |-> IF st.nr /\ PF_REPLY_ACK \in apf2 THEN "ack" ELSE "none"]

\* State after the call.  rvPF: the get_features reply carried PF; ok: the call returned success.
FeNext(st, op, cls, v, rvPF, ok) ==
    IF FeExpect(st, op, cls, v).act = "reject" THEN st
    ELSE CASE op = "get_features" /\ ok -> [st EXCEPT !.vfPF = rvPF]
           [] op = "set_features" -> [st EXCEPT !.avfPF = (VF_PROTOCOL_FEATURES \in v) /\ st.vfPF]
           [] op = "set_protocol_features" -> [st EXCEPT !.apf = v]
           [] OTHER -> st

=============================================================================
