------------------------------- MODULE Sender -------------------------------
(***************************************************************************)
(* The sending side of a unix stream socket as every endpoint of the       *)
(* library uses it (Endpoint::send_iovec_all): a message of L bytes with   *)
(* NF descriptors is handed to sendmsg(); the socket accepts k bytes of    *)
(* what is offered, 0 <= k <= remaining.  k = 0 is EAGAIN / EINTR: nothing *)
(* is transferred, not even the descriptors.  The loop goes on with the    *)
(* rest.  Descriptors are offered with an attempt iff no byte has been     *)
(* accepted so far; the kernel attaches them to the first byte of the part *)
(* it accepts.  Property C08, sender clause.                               *)
(***************************************************************************)
EXTENDS SenderOps

CONSTANTS L,     \* length of the message (header + body + payload)
          NF     \* descriptors that belong to it

VARIABLES off,   \* bytes accepted so far
          wire,  \* positions 1..L of the message's bytes in the order they entered the stream
          fdAt,  \* <<stream offset, count>> of every batch of descriptors that entered the stream
          done
svars == <<off, wire, fdAt, done>>

SInit == off = 0 /\ wire = <<>> /\ fdAt = <<>> /\ done = FALSE
Attempt(k) == /\ ~done /\ off < L /\ k \in 0..(L - off)
              /\ off' = NextOff(off, k)
              /\ wire' = wire \o Range(off, k)
              /\ fdAt' = NextFdAt(fdAt, off, k, NF)
              /\ UNCHANGED done
Finish == /\ ~done /\ off = L /\ done' = TRUE /\ UNCHANGED <<off, wire, fdAt>>
SNext == (\E k \in 0..L : Attempt(k)) \/ Finish
SSpec == SInit /\ [][SNext]_svars /\ WF_svars(Finish)

\* C08 on the model, for every pattern of partial writes and retries
PrefixAlways == wire = Range(0, Len(wire))
ExactlyOnceInOrder == done => wire = Range(0, L)
FdsWithFirstByteOnly == done => fdAt = (IF NF > 0 THEN << <<0, NF>> >> ELSE <<>>)
NeverBeyond == off <= L
=============================================================================
