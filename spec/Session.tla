------------------------------- MODULE Session -------------------------------
(***************************************************************************)
(* FrontendEndpoint || BackendServer over one connection, with a scripted  *)
(* handler.  One frontend call is one atomic step of the composition (the  *)
(* concurrency of several callers is the subject of TxnAtomicity).         *)
(* Decides C02, C03 and the frontend half of C07 on the model and gives    *)
(* the stimuli for the real Frontend <-> BackendReqHandler pair.           *)
(***************************************************************************)
EXTENDS FrontendEndpoint, BackendServer

\* unusable-result shapes of a succeeding handler
UnusableShapes(op) ==
    CASE op = "get_config" -> {"wronglen"}
      [] op = "get_queue_num" -> {"big"}
      [] OTHER -> {}

\* Does the handler outcome (h, shape) count as a failure the caller must see as an error?
HandlerFailed(op, h, shape) == h = "fail" \/ shape \in UnusableShapes(op)

\* Outcome of call (op, cls, v) with scripted handler outcome h:
\*   wire     request put on the wire?
\*   called   handler invoked?
\*   result   "ok" | "err" | "hang" (the caller waits for something the server never writes)
\*            | "stray" (the server writes something nobody reads)
SessOutcome(fe, srv, devPF, op, cls, v, h, shape) ==
    LET fx == FeExpect(fe, op, cls, v) IN
    IF fx.act = "reject" THEN [wire |-> FALSE, called |-> FALSE, result |-> "err"]
    ELSE LET c == IF op = "set_log_base" /\ LogBaseForm(fe, cls) = "legacy" THEN 0 ELSE OpCode(op)
             a == [c |-> c, nr |-> fe.nr, h |-> IF HandlerFailed(op, h, shape) /\ shape \notin {"wronglen", "big"} THEN "fail" ELSE h, v |-> v]
             sx == IF c = 0 THEN [disp |-> "reject", out |-> "none"] ELSE SrvExpect(srv, a, devPF)
             failed == HandlerFailed(op, h, shape)
         IN [wire |-> TRUE, called |-> sx.disp = "dispatch",
             result |->
               CASE fx.await = "reply" /\ sx.out = "reply" -> IF failed THEN "err" ELSE "ok"
                 [] fx.await = "reply" /\ sx.out = "none" -> "hang"
                 [] fx.await = "ack" /\ sx.out = "ack0" -> "ok"
                 [] fx.await = "ack" /\ sx.out = "nack" -> "err"
                 [] fx.await = "ack" /\ sx.out = "none" -> "hang"
                 [] fx.await = "none" /\ sx.out = "none" -> "ok"
                 [] fx.await = "none" -> "stray"
                 [] OTHER -> "err"]

SessNextFe(fe, op, cls, v, rvPF, ok) == FeNext(fe, op, cls, v, rvPF, ok)
SessNextSrv(fe, srv, devPF, op, cls, v, h) ==
    IF FeExpect(fe, op, cls, v).act = "reject" \/ (op = "set_log_base" /\ LogBaseForm(fe, cls) = "legacy") THEN srv
    ELSE SrvNext(srv, [c |-> OpCode(op), nr |-> fe.nr, h |-> h, v |-> v], devPF)
=============================================================================
