------------------------------ MODULE Catalog ------------------------------
(***************************************************************************)
(* Message catalogue of the vhost-user protocol, transcribed from the      *)
(* vhost-user specification (docs/interop/vhost-user.rst of QEMU) and the  *)
(* vhost-user-gpu specification -- NOT from the Rust structs.              *)
(*                                                                         *)
(* Three channels:                                                         *)
(*   "fe"  frontend -> backend requests  (codes 1..44)                     *)
(*   "be"  backend  -> frontend requests (codes 1..10)                     *)
(*   "gpu" GPU backend -> frontend       (codes 1..12)                     *)
(*                                                                         *)
(* Feature sets are modelled as sets of bit numbers.                       *)
(***************************************************************************)
EXTENDS Integers, Sequences, FiniteSets

\* ---- virtio feature bits that matter to the transport -------------------
VF_LOG_ALL           == 26
VF_PROTOCOL_FEATURES == 30
VF_EVENT_IDX         == 29   \* VIRTIO_RING_F_EVENT_IDX

\* ---- protocol feature bit numbers ---------------------------------------
PF_MQ                  == 0
PF_LOG_SHMFD           == 1
PF_RARP                == 2
PF_REPLY_ACK           == 3
PF_MTU                 == 4
PF_BACKEND_REQ         == 5
PF_CROSS_ENDIAN        == 6
PF_CRYPTO_SESSION      == 7
PF_PAGEFAULT           == 8
PF_CONFIG              == 9
PF_BACKEND_SEND_FD     == 10
PF_HOST_NOTIFIER       == 11
PF_INFLIGHT_SHMFD      == 12
PF_RESET_DEVICE        == 13
PF_INBAND_NOTIFICATIONS == 14
PF_CONFIGURE_MEM_SLOTS == 15
PF_STATUS              == 16
PF_XEN_MMAP            == 17
PF_SHARED_OBJECT       == 18
PF_DEVICE_STATE        == 19
PF_GET_VRING_BASE_INFLIGHT == 20
PF_SHMEM               == 21

\* ---- header flag bits ----------------------------------------------------
FLAG_VERSION    == 1     \* bits 0..1 carry the version, which is 1
FLAG_REPLY      == 4
FLAG_NEED_REPLY == 8

MAX_MSG_SIZE == 4096
MAX_FDS      == 32
HDR_SIZE     == 12

\* ---- frontend request codes ---------------------------------------------
GET_FEATURES == 1            SET_FEATURES == 2
SET_OWNER == 3               RESET_OWNER == 4
SET_MEM_TABLE == 5           SET_LOG_BASE == 6
SET_LOG_FD == 7              SET_VRING_NUM == 8
SET_VRING_ADDR == 9          SET_VRING_BASE == 10
GET_VRING_BASE == 11         SET_VRING_KICK == 12
SET_VRING_CALL == 13         SET_VRING_ERR == 14
GET_PROTOCOL_FEATURES == 15  SET_PROTOCOL_FEATURES == 16
GET_QUEUE_NUM == 17          SET_VRING_ENABLE == 18
SEND_RARP == 19              NET_SET_MTU == 20
SET_BACKEND_REQ_FD == 21     IOTLB_MSG == 22
SET_VRING_ENDIAN == 23       GET_CONFIG == 24
SET_CONFIG == 25             CREATE_CRYPTO_SESSION == 26
CLOSE_CRYPTO_SESSION == 27   POSTCOPY_ADVISE == 28
POSTCOPY_LISTEN == 29        POSTCOPY_END == 30
GET_INFLIGHT_FD == 31        SET_INFLIGHT_FD == 32
GPU_SET_SOCKET == 33         RESET_DEVICE == 34
VRING_KICK == 35             GET_MAX_MEM_SLOTS == 36
ADD_MEM_REG == 37            REM_MEM_REG == 38
SET_STATUS == 39             GET_STATUS == 40
GET_SHARED_OBJECT == 41      SET_DEVICE_STATE_FD == 42
CHECK_DEVICE_STATE == 43     GET_SHMEM_CONFIG == 44

FeCodes == 1..44

\* Requests this library serves (default feature set: no postcopy, no xen).
\* The others are parsed as headers but have no handler.
FeServed == {1,2,3,4,5,6,8,9,10,11,12,13,14,15,16,17,18,21,24,25,31,32,33,34,36,37,38,41,42,43,44}

\* Requests for which the protocol defines a reply message.
FeHasReply == {GET_FEATURES, GET_PROTOCOL_FEATURES, GET_QUEUE_NUM, GET_VRING_BASE,
               GET_CONFIG, GET_INFLIGHT_FD, GET_MAX_MEM_SLOTS, GET_SHARED_OBJECT,
               SET_DEVICE_STATE_FD, CHECK_DEVICE_STATE, GET_SHMEM_CONFIG, SET_LOG_BASE,
               POSTCOPY_ADVISE, GET_STATUS}

\* Replies with an in-band failure encoding (the reply is sent also when the handler fails).
FeInBandFailure == {GET_CONFIG, GET_SHARED_OBJECT, SET_DEVICE_STATE_FD, CHECK_DEVICE_STATE}

\* Size of the fixed body of each served request / reply (bytes); "var" handled separately.
\* u64 = 8; vring state = 8; vring addr = 40; memory hdr = 8; region = 32; single region = 40;
\* config hdr = 12; inflight = 24 (u64,u64,u16,u16 + 4 tail padding); log = 16;
\* device state = 8; shared msg (uuid) = 16; shmem config = 8 + 256*8.
FeReqBodySize(c) ==
    CASE c \in {GET_FEATURES, SET_OWNER, RESET_OWNER, GET_PROTOCOL_FEATURES, GET_QUEUE_NUM,
                RESET_DEVICE, GET_MAX_MEM_SLOTS, CHECK_DEVICE_STATE, GET_SHMEM_CONFIG,
                SET_BACKEND_REQ_FD, GPU_SET_SOCKET, SET_LOG_FD} -> 0
      [] c \in {SET_FEATURES, SET_PROTOCOL_FEATURES, SET_VRING_KICK, SET_VRING_CALL,
                SET_VRING_ERR} -> 8
      [] c \in {SET_VRING_NUM, SET_VRING_BASE, GET_VRING_BASE, SET_VRING_ENABLE} -> 8
      [] c = SET_VRING_ADDR -> 40
      [] c \in {ADD_MEM_REG, REM_MEM_REG} -> 40
      [] c \in {GET_INFLIGHT_FD, SET_INFLIGHT_FD} -> 24
      [] c = SET_LOG_BASE -> 16
      [] c = SET_DEVICE_STATE_FD -> 8
      [] c = GET_SHARED_OBJECT -> 16
      [] OTHER -> 0        \* variable-size bodies: SET_MEM_TABLE, GET_CONFIG, SET_CONFIG

FeReplyBodySize(c) ==
    CASE c \in {GET_FEATURES, GET_PROTOCOL_FEATURES, GET_QUEUE_NUM, GET_MAX_MEM_SLOTS,
                SET_DEVICE_STATE_FD, CHECK_DEVICE_STATE} -> 8
      [] c = GET_VRING_BASE -> 8
      [] c = GET_INFLIGHT_FD -> 24
      [] c = GET_SHARED_OBJECT -> 0
      [] c = GET_SHMEM_CONFIG -> 2056
      [] c = SET_LOG_BASE -> 16      \* payload not fixed by the document; see DESIGN C01
      [] OTHER -> 0                  \* GET_CONFIG: 12 + size

\* Protocol feature (bit number) that gates a request; -1 = none.
FeGate(c) ==
    CASE c = GET_QUEUE_NUM -> PF_MQ
      [] c \in {GET_CONFIG, SET_CONFIG} -> PF_CONFIG
      [] c = SET_BACKEND_REQ_FD -> PF_BACKEND_REQ
      [] c \in {GET_INFLIGHT_FD, SET_INFLIGHT_FD} -> PF_INFLIGHT_SHMFD
      [] c \in {GET_MAX_MEM_SLOTS, ADD_MEM_REG, REM_MEM_REG} -> PF_CONFIGURE_MEM_SLOTS
      [] c = RESET_DEVICE -> PF_RESET_DEVICE
      [] c = GET_SHARED_OBJECT -> PF_SHARED_OBJECT
      [] c = GET_SHMEM_CONFIG -> PF_SHMEM
      [] c = SET_LOG_BASE -> PF_LOG_SHMFD       \* the descriptor-carrying form
      [] c \in {POSTCOPY_ADVISE, POSTCOPY_LISTEN, POSTCOPY_END} -> PF_PAGEFAULT
      [] OTHER -> -1

\* SET_VRING_ENABLE is tied to the virtio feature VHOST_USER_F_PROTOCOL_FEATURES.
FeNeedsVirtioPF(c) == c = SET_VRING_ENABLE

\* Gates the frontend endpoint applies in addition (statement of C07).
FeGateFrontendExtra(c) ==
    CASE c \in {SET_DEVICE_STATE_FD, CHECK_DEVICE_STATE} -> PF_DEVICE_STATE
      [] OTHER -> -1

\* The bits that gate something (for exhaustive subset enumeration).
GatingBits == {PF_MQ, PF_LOG_SHMFD, PF_REPLY_ACK, PF_BACKEND_REQ, PF_CONFIG, PF_INFLIGHT_SHMFD,
               PF_RESET_DEVICE, PF_CONFIGURE_MEM_SLOTS, PF_SHARED_OBJECT, PF_DEVICE_STATE,
               PF_SHMEM, PF_PAGEFAULT}

\* Number of descriptors a request must carry: <<min, max>>.
FeFds(c) ==
    CASE c = SET_MEM_TABLE -> <<1, 32>>
      [] c \in {SET_VRING_KICK, SET_VRING_CALL, SET_VRING_ERR} -> <<0, 1>>  \* by bit 8 of payload
      [] c \in {SET_LOG_BASE, SET_LOG_FD, SET_BACKEND_REQ_FD, SET_INFLIGHT_FD, ADD_MEM_REG,
                SET_DEVICE_STATE_FD, GPU_SET_SOCKET} -> <<1, 1>>
      [] OTHER -> <<0, 0>>

\* ---- backend -> frontend requests ---------------------------------------
BE_IOTLB_MSG == 1            BE_CONFIG_CHANGE_MSG == 2
BE_VRING_HOST_NOTIFIER_MSG == 3   BE_VRING_CALL == 4
BE_VRING_ERR == 5            BE_SHARED_OBJECT_ADD == 6
BE_SHARED_OBJECT_REMOVE == 7 BE_SHARED_OBJECT_LOOKUP == 8
BE_SHMEM_MAP == 9            BE_SHMEM_UNMAP == 10
BeCodes == 1..10
BeServed == {2, 6, 7, 8, 9, 10}
BeReqBodySize(c) == CASE c \in {6,7,8} -> 16 [] c \in {9,10} -> 40 [] OTHER -> 0
BeFds(c) == IF c \in {BE_SHARED_OBJECT_LOOKUP, BE_SHMEM_MAP} THEN 1 ELSE 0
BeGateFlag(c) == CASE c \in {6,7,8} -> "shared_object" [] c \in {9,10} -> "shmem" [] OTHER -> "none"

\* ---- GPU channel ----------------------------------------------------------
GPU_GET_PROTOCOL_FEATURES == 1  GPU_SET_PROTOCOL_FEATURES == 2
GPU_GET_DISPLAY_INFO == 3       GPU_CURSOR_POS == 4
GPU_CURSOR_POS_HIDE == 5        GPU_CURSOR_UPDATE == 6
GPU_SCANOUT == 7                GPU_UPDATE == 8
GPU_DMABUF_SCANOUT == 9         GPU_DMABUF_UPDATE == 10
GPU_GET_EDID == 11              GPU_DMABUF_SCANOUT2 == 12
GpuCodes == 1..12
GpuHasReply == {GPU_GET_PROTOCOL_FEATURES, GPU_GET_DISPLAY_INFO, GPU_DMABUF_UPDATE, GPU_GET_EDID}
GpuReqBodySize(c) ==
    CASE c \in {1, 3} -> 0 [] c = 2 -> 8 [] c \in {4, 5} -> 12 [] c = 6 -> 20
      [] c = 7 -> 12 [] c = 8 -> 20 [] c = 9 -> 40 [] c = 10 -> 20 [] c = 11 -> 4 [] c = 12 -> 48
      [] OTHER -> 0
GpuReplyBodySize(c) ==
    CASE c = 1 -> 8 [] c = 3 -> 24 + 16 * 24 [] c = 10 -> 0 [] c = 11 -> 24 + 8 + 1024 [] OTHER -> 0

=============================================================================
