---------------------------- MODULE DaemonHostile ----------------------------
(***************************************************************************)
(* C05, daemon part: sequences of well-typed control messages whose field  *)
(* values are adversarial, sent to a running VhostUserDaemon.              *)
(*                                                                         *)
(* What the statement asks of every step does not depend on the values:    *)
(* the daemon answers or reports an error (for a daemon: it ends the       *)
(* connection), it never panics, overflows or hangs.  The model therefore  *)
(* only tracks how far the device has been set up legitimately (the        *)
(* set-up level decides which code paths a hostile value can reach) and    *)
(* enumerates the letters; the values are classes over the 64-bit lattice. *)
(***************************************************************************)
EXTENDS Naturals, Sequences, FiniteSets

Levels == <<"fresh", "negotiated", "memory", "ring">>

\* value classes (instantiated by the driver: boundary values of the 64/32/16-bit ranges and values relative
\* to the one legitimately mapped region)
U64C  == {"zero", "one", "page-1", "page", "2^31", "2^32-1", "2^32", "2^63-1", "2^63", "top-page", "max", "random"}
IdxC  == {"first", "last", "nq", "255", "max32"}
NumC  == {"zero", "one", "three", "max", "max+1", "65535", "65536", "max32"}
AddrC == {"in", "unaligned", "last-bytes", "end", "before", "zero", "2^63", "top-16", "max"}
FlagC == {"none", "log", "undefined"}
\* ("mapped": the value the one legitimately mapped region has in that field -- a descriptor that agrees with an existing region in
\*  some fields and not in others reaches the code that looks regions up)
RegC  == [gpa : {"zero", "page", "2^63", "top-2pages", "top-page", "mapped"}, size : {"zero", "page", "beyond-file", "2^63", "max-page", "mapped"},
          ua : {"page", "mid", "2^63", "top-2pages", "top-page", "mapped"}, off : {"zero", "page", "2^63", "top-page"}]
CfgC  == [off : {"zero", "in", "end-1", "end", "max32"}, size : {"zero", "one", "window", "window+1", "max32"}]

L(k, f) == [k |-> k, f |-> f]
Letters ==
         {L("set_vring_num", [idx |-> i, v |-> n]) : i \in IdxC, n \in NumC}
    \cup {L("set_vring_base", [idx |-> i, v |-> n]) : i \in IdxC, n \in NumC}
    \cup {L("get_vring_base", [idx |-> i]) : i \in IdxC}
    \cup {L("set_vring_enable", [idx |-> i, v |-> n]) : i \in IdxC, n \in {"zero", "one", "three", "max32"}}
    \cup {L("set_vring_addr", [idx |-> i, flags |-> fl, desc |-> d, used |-> u, avail |-> a]) :
              i \in {"first", "nq"}, fl \in FlagC, d \in AddrC, u \in AddrC, a \in AddrC}
    \cup {L(k, [idx |-> i, nofd |-> b, fd |-> f]) : k \in {"set_vring_kick", "set_vring_call", "set_vring_err"},
              i \in {"first", "last", "nq", "127", "255"}, b \in BOOLEAN, f \in BOOLEAN}
    \cup {L("set_features", [v |-> x]) : x \in U64C}
    \cup {L("set_protocol_features", [v |-> x]) : x \in U64C}
    \cup {L("set_mem_table", [n |-> n, r |-> r]) : n \in {1, 2}, r \in RegC}
    \cup {L("add_mem_reg", [r |-> r]) : r \in RegC}
    \cup {L("rem_mem_reg", [r |-> r]) : r \in RegC}
    \cup {L("set_log_base", [size |-> s, off |-> o]) : s \in U64C, o \in U64C}
    \cup {L("get_config", c) : c \in CfgC}
    \cup {L("set_config", c) : c \in CfgC}
    \cup {L("get_inflight_fd", [size |-> s, off |-> o, nq |-> n, qs |-> q]) : s \in {"zero", "page", "max"}, o \in {"zero", "max"},
              n \in {"zero", "one", "65535"}, q \in {"zero", "one", "65535"}}
    \cup {L("set_inflight_fd", [size |-> s, off |-> o, nq |-> n, qs |-> q]) : s \in {"zero", "page", "max"}, o \in {"zero", "page", "max"},
              n \in {"zero", "one", "65535"}, q \in {"zero", "one", "65535"}}
    \cup {L("kick", [idx |-> "first"]), L("use_ring", [idx |-> "first"])}

\* What the property asks of each letter, whatever its values: an answer (ok) or a refusal (error; the daemon then
\* ends the connection) -- never a panic, a killed process, or silence on an open connection.
Outcomes == {"ok", "error"}
=============================================================================
