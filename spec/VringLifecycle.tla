--------------------------- MODULE VringLifecycle ---------------------------
(***************************************************************************)
(* Ring life-cycle of a vhost-user daemon as the protocol prescribes it    *)
(* (sequential view: one control letter at a time, the worker runs to      *)
(* quiescence in between).  Reference model of C11.                        *)
(*                                                                         *)
(* Per ring q:                                                             *)
(*   started[q]  set by receipt of a kick descriptor, cleared by            *)
(*               GET_VRING_BASE (which also drops kick and call)            *)
(*   enabled[q]  set for all rings by SET_FEATURES without PROTOCOL_FEATURES*)
(*               otherwise only by SET_VRING_ENABLE; cleared by             *)
(*               SET_VRING_ENABLE(0) and RESET_DEVICE                       *)
(*   kick[q]     "none" | "obj": the ring holds a kick descriptor           *)
(*   pend[q]     a kick was raised on the ring's current descriptor and     *)
(*               has not been delivered yet                                 *)
(*   stale[q]    a kick was pending on a descriptor at the moment the ring  *)
(*               let go of it (whether the worker had already been woken by *)
(*               it is not determined: dispatches of that ring are not      *)
(*               judged from then on); a kick raised on such a descriptor   *)
(*               *afterwards* must reach nobody                             *)
(* pfAcked: VHOST_USER_F_PROTOCOL_FEATURES acknowledged by SET_FEATURES     *)
(***************************************************************************)
EXTENDS Integers, Sequences, FiniteSets, TLC

CONSTANT NQ
Rings == 0..(NQ - 1)

LcInit == [started |-> [q \in Rings |-> FALSE], enabled |-> [q \in Rings |-> FALSE],
           kick |-> [q \in Rings |-> "none"], pend |-> [q \in Rings |-> FALSE],
           stale |-> [q \in Rings |-> FALSE], pfAcked |-> FALSE]

Active(s, q) == s.started[q] /\ s.enabled[q]
Due(s) == {q \in Rings : Active(s, q) /\ s.kick[q] = "obj" /\ s.pend[q]}

\* state after control letter a (before delivery)
LcApply(s, a) ==
    CASE a.op = "set_features" ->
            [s EXCEPT !.pfAcked = a.pf,
                      !.enabled = IF a.pf THEN s.enabled ELSE [q \in Rings |-> TRUE]]
      [] a.op = "set_vring_kick" /\ a.fd = "new" ->
            [s EXCEPT !.kick[a.q] = "obj", !.started[a.q] = TRUE,
                      !.stale[a.q] = s.stale[a.q] \/ s.pend[a.q], !.pend[a.q] = FALSE]
      [] a.op = "set_vring_kick" /\ a.fd = "same" -> s
      [] a.op = "set_vring_kick" /\ a.fd = "none" ->
            [s EXCEPT !.kick[a.q] = "none", !.stale[a.q] = s.stale[a.q] \/ s.pend[a.q], !.pend[a.q] = FALSE]
      [] a.op = "set_vring_call" -> s
      [] a.op = "set_vring_enable" -> IF s.pfAcked THEN [s EXCEPT !.enabled[a.q] = a.en] ELSE s
      [] a.op = "get_vring_base" ->
            [s EXCEPT !.started[a.q] = FALSE, !.kick[a.q] = "none",
                      !.stale[a.q] = s.stale[a.q] \/ s.pend[a.q], !.pend[a.q] = FALSE]
      [] a.op = "reset_device" -> [s EXCEPT !.enabled = [q \in Rings |-> FALSE], !.pfAcked = FALSE]
      [] a.op = "kick" /\ a.which = "cur" -> IF s.kick[a.q] = "obj" THEN [s EXCEPT !.pend[a.q] = TRUE] ELSE s
      \* a kick raised on a descriptor the ring no longer holds (replaced by another one, dropped by SET_VRING_KICK without a
      \* descriptor or by GET_VRING_BASE) reaches nobody: the ring does not poll it any more
      [] a.op = "kick" /\ a.which \in {"old", "dropped"} -> s
      [] OTHER -> s

\* does the letter succeed (ack 0)?  SET_VRING_ENABLE needs the acknowledged feature.
LcOk(s, a) == a.op = "set_vring_enable" => s.pfAcked

\* delivery to quiescence: every due ring is dispatched, its pending kick consumed
LcDeliver(s) == [s EXCEPT !.pend = [q \in Rings |-> IF q \in Due(s) THEN FALSE ELSE s.pend[q]]]

LcStep(s, a) == LcDeliver(LcApply(s, a))
LcDispatched(s, a) == Due(LcApply(s, a))

\* property-level invariants of the model itself
\* (a) after delivery nothing is due; (b) a kick pending on an inactive ring is retained
Quiescent(s) == Due(s) = {}
=============================================================================
