-------------------------------- MODULE Limbs --------------------------------
(***************************************************************************)
(* 64-bit (and 32-bit) unsigned values as sequences of 16-bit limbs, least *)
(* significant first: TLC integers are 32-bit, wire values are not.        *)
(***************************************************************************)
EXTENDS Integers, Sequences

B == 65536
L64(a, b, c, d) == <<a, b, c, d>>
LZero == <<0, 0, 0, 0>>
LIsZero(x) == \A i \in 1..Len(x) : x[i] = 0
LAllOnes(x) == \A i \in 1..Len(x) : x[i] = B - 1

\* carry out of limb i when adding x and y (i = 0: no carry in)
RECURSIVE Carry(_, _, _)
Carry(x, y, i) == IF i = 0 THEN 0 ELSE (x[i] + y[i] + Carry(x, y, i - 1)) \div B
\* x + y does not fit in Len(x) limbs
AddOverflows(x, y) == Carry(x, y, Len(x)) = 1
\* limbs of (x + y) mod 2^(16*Len)
Sum(x, y) == [i \in 1..Len(x) |-> (x[i] + y[i] + Carry(x, y, i - 1)) % B]
\* x + y = 2^(16*Len) exactly
SumIsExactlyTop(x, y) == AddOverflows(x, y) /\ LIsZero(Sum(x, y))

\* x - y for x >= y (borrow chain)
RECURSIVE Borrow(_, _, _)
Borrow(x, y, i) == IF i = 0 THEN 0 ELSE IF x[i] - y[i] - Borrow(x, y, i - 1) < 0 THEN 1 ELSE 0
Diff(x, y) == [i \in 1..Len(x) |-> (x[i] - y[i] - Borrow(x, y, i - 1) + B) % B]

RECURSIVE LeqFrom(_, _, _)
LeqFrom(x, y, i) == IF i = 0 THEN TRUE
                    ELSE IF x[i] < y[i] THEN TRUE ELSE IF x[i] > y[i] THEN FALSE ELSE LeqFrom(x, y, i - 1)
Leq(x, y) == LeqFrom(x, y, Len(x))

Low(x, m) == x[1] % m              \* x mod m for m a power of two <= 65536
\* bit k of x set?
Bit(x, k) == (x[(k \div 16) + 1] \div (2 ^ (k % 16))) % 2 = 1
\* no bit other than those in allowed (set of bit numbers) is set
OnlyBits(x, allowed) == \A k \in 0..(16 * Len(x) - 1) : Bit(x, k) => k \in allowed
=============================================================================
