---------------------------- MODULE RoutingOpsAp ----------------------------
(***************************************************************************)
(* The routing functions of Routing.tla with Apalache type annotations     *)
(* (masks as a function 1..nt -> Set(Int) instead of a sequence).  TLC     *)
(* checks in MC_Routing that they agree with Routing.tla on every bounded  *)
(* configuration, so the two cannot drift apart.                           *)
(***************************************************************************)
EXTENDS Integers, FiniteSets

\* @type: (Int -> Set(Int), Int, Int) => Int;
ApOwner(m, nt, q) == IF \E t \in 1..nt : q \in m[t]
                     THEN CHOOSE t \in 1..nt : q \in m[t] /\ \A u \in 1..nt : u < t => q \notin m[u]
                     ELSE 0
\* @type: (Set(Int), Int) => Int;
ApRank(mask, q) == Cardinality({p \in mask : p < q})
\* @type: (Set(Int), Int) => Set(Int);
ApSliceOf(mask, n) == {q \in mask : q < n}
\* @type: (Set(Int), Int, Int) => Int;
ApQueueOf(mask, n, e) == IF \E q \in ApSliceOf(mask, n) : ApRank(mask, q) = e
                         THEN CHOOSE q \in ApSliceOf(mask, n) : ApRank(mask, q) = e ELSE -1
=============================================================================
