--------------------------- MODULE DaemonLifecycle ---------------------------
(***************************************************************************)
(* Life-cycle of the daemon thread of VhostUserDaemon (C16): the thread    *)
(* serving one connection, N shutdown callers (each: store the flag, then  *)
(* shut the socket down), the peer (idle, part of a message sent, closed), *)
(* and the classification done by wait().                                   *)
(*                                                                         *)
(* Thread pc: "top" (d.before_request) -> "reading" (blocked in the header *)
(* read) -> "handling" (inside the handler) -> "replied" (d.after_request) *)
(* -> "top" ...; on an error "final" (d.before_final_shutdown) -> "exited". *)
(* With a peer that floods the daemon with requests and never reads the    *)
(* answers (PeerSends = "flood") the thread ends up blocked in the write   *)
(* of a reply ("writing"); only the socket being shut down (or the peer    *)
(* going away) gets it out of there.  In that scenario the shutdown        *)
(* callers act once the thread is blocked.                                 *)
(***************************************************************************)
EXTENDS Integers, Sequences, FiniteSets, TLC

CONSTANTS Callers,     \* set of shutdown callers, e.g. 1..2
          PeerSends,   \* what the peer has put on the socket: "nothing" | "part_hdr" | "hdr_only" | "full" (a complete
                       \* request without reply) | "full_reply" (a complete request that has a reply) | "flood" (requests
                       \* with replies without end, none of the replies is ever read)
          PeerCloses   \* does the peer close its end (after sending that)?

VARIABLES tpc, err, flag, sock, cpc, peerOpen, consumed, sched
vars == <<tpc, err, flag, sock, cpc, peerOpen, consumed, sched>>

Init == /\ tpc = "top" /\ err = "none" /\ flag = FALSE /\ sock = "open"
        /\ cpc = [c \in Callers |-> "start"] /\ peerOpen = TRUE /\ consumed = FALSE /\ sched = <<>>

Cmd(c) == sched' = Append(sched, c)
EndOfStream == sock = "shut" \/ ~peerOpen
Flood == PeerSends = "flood"
Pending == IF Flood THEN "full_reply" ELSE IF consumed THEN "nothing" ELSE PeerSends

\* ---- shutdown callers --------------------------------------------------------------------
Store(c) == /\ cpc[c] = "start" /\ (Flood => tpc \in {"writing", "final", "exited"}) /\ flag' = TRUE /\ cpc' = [cpc EXCEPT ![c] = "flagged"] /\ Cmd(<<"store", c>>)
            /\ UNCHANGED <<tpc, err, sock, peerOpen, consumed>>
Shut(c) == /\ cpc[c] = "flagged" /\ sock' = "shut" /\ cpc' = [cpc EXCEPT ![c] = "done"] /\ Cmd(<<"shut", c>>)
           /\ UNCHANGED <<tpc, err, flag, peerOpen, consumed>>

\* ---- peer ----------------------------------------------------------------------------------
PeerClose == /\ PeerCloses /\ peerOpen /\ peerOpen' = FALSE /\ Cmd(<<"peer_close", 0>>)
             /\ UNCHANGED <<tpc, err, flag, sock, cpc, consumed>>

\* ---- daemon thread ---------------------------------------------------------------------------
Enter == /\ tpc = "top" /\ tpc' = "reading" /\ Cmd(<<"t", 0>>) /\ UNCHANGED <<err, flag, sock, cpc, peerOpen, consumed>>

\* the blocked read returns: a complete request, or end of stream somewhere
ReadDone ==
    /\ tpc = "reading"
    /\ \/ /\ Pending \in {"full", "full_reply"} /\ tpc' = "handling" /\ consumed' = TRUE /\ UNCHANGED err
       \/ /\ Pending \notin {"full", "full_reply"} /\ EndOfStream
          /\ err' = CASE Pending = "nothing" -> "Disconnected" [] Pending = "part_hdr" -> "PartialMessage" [] OTHER -> "InvalidMessage"
          /\ tpc' = "final" /\ UNCHANGED consumed
    /\ UNCHANGED <<flag, sock, cpc, peerOpen, sched>>

\* the handler returns and the reply, if the request has one, is written (fails on a shut socket)
Reply == /\ tpc = "handling"
         /\ IF Flood THEN tpc' = "writing" /\ UNCHANGED err
            ELSE IF PeerSends = "full_reply" /\ (sock = "shut" \/ ~peerOpen) THEN tpc' = "final" /\ err' = "SocketBroken" ELSE tpc' = "replied" /\ UNCHANGED err
         /\ Cmd(<<"handler_return", 0>>)
         /\ UNCHANGED <<flag, sock, cpc, peerOpen, consumed>>
\* the blocked write of a reply fails once the socket has been shut down or the peer is gone
WriteDone == /\ tpc = "writing" /\ EndOfStream /\ tpc' = "final" /\ err' = "SocketBroken"
             /\ UNCHANGED <<flag, sock, cpc, peerOpen, consumed, sched>>
Loop == /\ tpc = "replied" /\ tpc' = "top" /\ Cmd(<<"t", 0>>) /\ UNCHANGED <<err, flag, sock, cpc, peerOpen, consumed>>
Final == /\ tpc = "final" /\ tpc' = "exited" /\ sock' = "shut" /\ Cmd(<<"t", 0>>) /\ UNCHANGED <<err, flag, cpc, peerOpen, consumed>>

Next == (\E c \in Callers : Store(c) \/ Shut(c)) \/ PeerClose \/ Enter \/ ReadDone \/ Reply \/ WriteDone \/ Loop \/ Final
Spec == Init /\ [][Next]_vars /\ WF_vars(Enter \/ ReadDone \/ Reply \/ WriteDone \/ Loop \/ Final) /\ \A c \in Callers : WF_vars(Store(c) \/ Shut(c))

\* ---- wait() -----------------------------------------------------------------------------------
WaitResult == IF err \in {"none", "SocketBroken"} \/ flag THEN "Ok" ELSE "Err"
SomeShutdownDone == \E c \in Callers : cpc[c] = "done"
AllCallersDone == \A c \in Callers : cpc[c] = "done"
Finished == tpc = "exited" /\ AllCallersDone /\ (PeerCloses => ~peerOpen)

\* C16: after a completed shutdown request the thread exits (no way to stay blocked) and wait() says Ok
ShutdownThenOk == (tpc = "exited" /\ SomeShutdownDone) => WaitResult = "Ok"
NoShutdownDisconnectIsErr == (tpc = "exited" /\ Callers = {} /\ err \notin {"none", "SocketBroken"}) => WaitResult = "Err"
PeerSeesEof == tpc = "exited" => sock = "shut"
ExitsAfterShutdown == (SomeShutdownDone /\ tpc # "handling") ~> (tpc = "exited" \/ tpc = "handling")
=============================================================================
