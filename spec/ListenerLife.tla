---------------------------- MODULE ListenerLife ----------------------------
(***************************************************************************)
(* Life-cycle of the listening side of a vhost-user connection             *)
(* (connection.rs `Listener`, vhost_user/backend.rs `BackendListener`):    *)
(* a socket path in the file system, up to two listener objects that were  *)
(* created on it (by `Listener::new(path, unlink)` -- which owns the path  *)
(* and removes it when dropped -- or adopted from an already bound socket, *)
(* which does not), their blocking mode and their queues of pending        *)
(* connections.  Beyond the listed properties.  The model says what the    *)
(* code does, including the quirk that dropping a path-owning listener     *)
(* removes whatever is at the path by then (e.g. the socket of a listener  *)
(* created later with unlink = true).                                      *)
(***************************************************************************)
EXTENDS Naturals, Sequences

Slots == {1, 2}
NoL == [live |-> FALSE, owns |-> FALSE, nb |-> FALSE, gen |-> 0, q |-> <<>>]
\* fs: what is at the path: "absent" | "file" | "sock" (gen tells which bind created it)
LsInit == [fs |-> [kind |-> "absent", gen |-> 0], L |-> [i \in Slots |-> NoL], gens |-> 0, clients |-> 0]

\* the live listener a connect by path reaches, 0 if none
Target(s) == IF s.fs.kind = "sock" /\ \E i \in Slots : s.L[i].live /\ s.L[i].gen = s.fs.gen
             THEN CHOOSE i \in Slots : s.L[i].live /\ s.L[i].gen = s.fs.gen ELSE 0

\* letters: [op, i, f] -- op in new / adopt / plant / connect / accept / baccept / nonblock / drop ; f = flag (unlink resp. mode)
Enabled(s, a) ==
    CASE a.op \in {"new", "adopt"} -> ~s.L[a.i].live /\ (a.op = "adopt" => s.fs.kind = "absent")
      [] a.op = "plant" -> s.fs.kind = "absent"
      [] a.op = "connect" -> TRUE
      [] a.op \in {"accept", "baccept"} -> s.L[a.i].live /\ (s.L[a.i].q # <<>> \/ s.L[a.i].nb)   \* an empty blocking accept would not return
      [] a.op \in {"nonblock", "drop"} -> s.L[a.i].live
      [] OTHER -> FALSE

\* what the caller observes
Result(s, a) ==
    CASE a.op = "new" -> IF s.fs.kind # "absent" /\ ~a.f THEN "err" ELSE "ok"
      [] a.op = "connect" -> IF Target(s) # 0 THEN "ok" ELSE "err"
      [] a.op \in {"accept", "baccept"} -> IF s.L[a.i].q # <<>> THEN "some" ELSE "none"
      [] OTHER -> "ok"
\* the connection an accept yields (0 = none)
Accepted(s, a) == IF a.op \in {"accept", "baccept"} /\ s.L[a.i].q # <<>> THEN Head(s.L[a.i].q) ELSE 0

LsNext(s, a) ==
    CASE a.op \in {"new", "adopt"} ->
           IF Result(s, a) = "err" THEN s
           ELSE [s EXCEPT !.gens = @ + 1, !.fs = [kind |-> "sock", gen |-> s.gens + 1],
                          !.L[a.i] = [live |-> TRUE, owns |-> a.op = "new", nb |-> FALSE, gen |-> s.gens + 1, q |-> <<>>]]
      [] a.op = "plant" -> [s EXCEPT !.fs = [kind |-> "file", gen |-> 0]]
      [] a.op = "connect" ->
           IF Target(s) = 0 THEN s
           ELSE [s EXCEPT !.clients = @ + 1, !.L[Target(s)].q = Append(@, s.clients + 1)]
      [] a.op \in {"accept", "baccept"} -> IF s.L[a.i].q = <<>> THEN s ELSE [s EXCEPT !.L[a.i].q = Tail(@)]
      [] a.op = "nonblock" -> [s EXCEPT !.L[a.i].nb = a.f]
      [] a.op = "drop" -> [s EXCEPT !.L[a.i] = NoL,
                                    !.fs = IF s.L[a.i].owns THEN [kind |-> "absent", gen |-> 0] ELSE @]
      [] OTHER -> s

PathExists(s) == s.fs.kind # "absent"

Letters == [op : {"new", "nonblock"}, i : Slots, f : BOOLEAN]
           \cup [op : {"adopt", "accept", "baccept", "drop"}, i : Slots, f : {FALSE}]
           \cup [op : {"plant", "connect"}, i : {0}, f : {FALSE}]
=============================================================================
