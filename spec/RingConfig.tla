------------------------------ MODULE RingConfig ------------------------------
(***************************************************************************)
(* Ring configuration and feature negotiation as they must reach the       *)
(* queues and the backend of a daemon (C14).  NQ rings, maximum size MAXQ. *)
(* Offered features: a set of bit numbers; ring index classes include      *)
(* out-of-range indexes.                                                   *)
(***************************************************************************)
EXTENDS Integers, Sequences, FiniteSets

CONSTANTS NQ, MAXQ, Offered
Rings == 0..(NQ - 1)
EVENT_IDX == 29
PF == 30

IsPow2(n) == n \in {1, 2, 4, 8, 16, 32, 64, 128, 256, 512, 1024, 2048, 4096, 8192, 16384, 32768}

RcInit == [size |-> [q \in Rings |-> MAXQ], avail |-> [q \in Rings |-> 0], used |-> [q \in Rings |-> 0],
           addrSet |-> [q \in Rings |-> FALSE], eventIdx |-> FALSE, acked |-> {}, featuresSet |-> FALSE,
           apf |-> {}, call |-> [q \in Rings |-> 0], hasMem |-> FALSE, memGen |-> 0]

\* verdict of a letter: "must_ok" | "must_fail"
RcVerdict(s, a) ==
    CASE a.op \in {"set_vring_num", "set_vring_base", "get_vring_base", "set_vring_addr", "set_vring_call", "set_vring_kick"} /\ a.q \notin Rings -> "must_fail"
      [] a.op = "set_vring_num" -> IF a.n >= 1 /\ a.n <= MAXQ /\ IsPow2(a.n) THEN "must_ok" ELSE "must_fail"
      \* a.n = 1: the descriptor table is placed at the first user address past the mapped region ("just outside")
      [] a.op = "set_vring_addr" -> IF s.hasMem /\ a.n = 0 THEN "must_ok" ELSE "must_fail"
      [] a.op = "set_features" -> IF a.bits \subseteq Offered THEN "must_ok" ELSE "must_fail"
      [] OTHER -> "must_ok"

RcApply(s, a) ==
    IF RcVerdict(s, a) = "must_fail" THEN s
    ELSE CASE a.op = "set_vring_num" -> [s EXCEPT !.size[a.q] = a.n]
           [] a.op = "set_vring_base" -> [s EXCEPT !.avail[a.q] = a.n]
           [] a.op = "set_vring_addr" -> [s EXCEPT !.addrSet[a.q] = TRUE, !.used[a.q] = a.usedIdx]
           [] a.op = "set_features" -> [s EXCEPT !.acked = a.bits, !.featuresSet = TRUE, !.eventIdx = EVENT_IDX \in a.bits]
           [] a.op = "set_protocol_features" -> [s EXCEPT !.apf = a.bits]
           [] a.op = "set_vring_call" -> [s EXCEPT !.call[a.q] = IF a.fd = "none" THEN 0 ELSE s.call[a.q] + 1]
           [] a.op = "get_vring_base" -> [s EXCEPT !.call[a.q] = 0]
           [] a.op = "set_mem_table" -> [s EXCEPT !.hasMem = TRUE, !.memGen = s.memGen + 1]
           [] OTHER -> s

\* what the backend's queue q must look like
RingView(s, q) == [size |-> s.size[q], next_avail |-> s.avail[q], next_used |-> s.used[q], event_idx |-> s.eventIdx]
=============================================================================
