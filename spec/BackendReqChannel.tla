------------------------- MODULE BackendReqChannel -------------------------
(***************************************************************************)
(* Backend-initiated requests: the Backend proxy (backend side) and the    *)
(* FrontendReqHandler server (frontend side) over their own socket.        *)
(* Reference model for C18 and the proxy parts of C06 / C07.               *)
(*                                                                         *)
(* Proxy state: ra (reply-ack negotiated), so (shared objects enabled),    *)
(* sh (shared memory enabled).  Server state: hra (reply-ack negotiated).  *)
(***************************************************************************)
EXTENDS Catalog, TLC

BeKinds == {BE_SHARED_OBJECT_ADD, BE_SHARED_OBJECT_REMOVE, BE_SHARED_OBJECT_LOOKUP, BE_SHMEM_MAP, BE_SHMEM_UNMAP}

\* handler result classes: value 0, a non-zero value, an error carrying an errno, an error without
BeResults == {"zero", "nonzero", "errno", "noerrno"}

BeInit == [ra |-> FALSE, so |-> FALSE, sh |-> FALSE, hra |-> FALSE]

BeEnabled(st, k) == IF k \in {6, 7, 8} THEN st.so ELSE st.sh

\* What the channel does for request kind k whose handler yields result class r:
\*   wire     the proxy writes the request
\*   called   the application's handler is invoked (exactly once)
\*   ack      "none" | "value" (the handler's value) | "negerrno" | "neginval"
\*   ok       the proxy call returns success
BeExpect(st, k, r) ==
    IF ~BeEnabled(st, k) THEN [wire |-> FALSE, called |-> FALSE, ack |-> "none", ok |-> FALSE]
    ELSE IF ~st.ra THEN [wire |-> TRUE, called |-> TRUE, ack |-> "none", ok |-> TRUE]
    ELSE [wire |-> TRUE, called |-> TRUE,
          ack |-> CASE r \in {"zero", "nonzero"} -> "value" [] r = "errno" -> "negerrno" [] OTHER -> "neginval",
          ok |-> r = "zero"]

\* Server alone (raw peer sends request k with/without NEED_REPLY to the FrontendReqHandler):
BeSrvAck(hra, needReply, r) ==
    IF ~(hra /\ needReply) THEN "none"
    ELSE CASE r \in {"zero", "nonzero"} -> "value" [] r = "errno" -> "negerrno" [] OTHER -> "neginval"

\* a consistent application configures both ends from the same negotiation:
\* the proxy must not await acknowledgements the server will not write
Consistent(st) == st.ra => st.hra
=============================================================================
