--------------------------- MODULE BackendServer ---------------------------
(***************************************************************************)
(* The backend request server (BackendReqHandler::handle_request): one     *)
(* step = read one request, gate it, call the handler, write reply / ack / *)
(* nothing.  This is the reference protocol model of properties C04, C07   *)
(* (backend side) and the dispatch part of C05.                            *)
(*                                                                         *)
(* State (what the server remembers of the negotiation):                   *)
(*   vfPF   the device offered VHOST_USER_F_PROTOCOL_FEATURES in the last   *)
(*          successful GET_FEATURES                                         *)
(*   avfPF  the frontend acknowledged VHOST_USER_F_PROTOCOL_FEATURES        *)
(*   apf    acknowledged protocol feature bits                              *)
(***************************************************************************)
EXTENDS Catalog, TLC

SrvInit == [vfPF |-> FALSE, avfPF |-> FALSE, apf |-> {}]

\* A request letter: c code, nr NEED_REPLY flag, h handler outcome ("ok"/"fail"),
\* v value bits (SET_FEATURES / SET_PROTOCOL_FEATURES), devpf: device offers PF (GET_FEATURES)
ReplyAck(s) == s.vfPF /\ PF_REPLY_ACK \in s.apf

GateOK(s, c) ==
    /\ (FeGate(c) = -1 \/ FeGate(c) \in s.apf)
    /\ (FeNeedsVirtioPF(c) => s.avfPF)

\* Negotiation state after request a has been dispatched (handler outcome does not matter:
\* the statement of C07 leaves a failed SET_FEATURES open; stimuli keep these handlers succeeding).
SrvUpd(s, a, devPF) ==
    CASE a.c = GET_FEATURES /\ a.h = "ok" -> [s EXCEPT !.vfPF = devPF]
      [] a.c = SET_FEATURES -> [s EXCEPT !.avfPF = VF_PROTOCOL_FEATURES \in a.v]
      [] a.c = SET_PROTOCOL_FEATURES -> [s EXCEPT !.apf = a.v]
      [] OTHER -> s

\* What the protocol prescribes for a valid request a in state s:
\*   disp  "dispatch" (handler called exactly once) | "reject" (no handler call)
\*   out   "reply" | "ack0" | "nack" | "none"       (for "reject": nothing that claims success)
SrvExpect(s, a, devPF) ==
    IF a.c \notin FeServed \/ ~GateOK(s, a.c)
    THEN [disp |-> "reject", out |-> "none"]
    ELSE IF a.c \in FeHasReply
         THEN [disp |-> "dispatch",
               out  |-> IF a.h = "ok" \/ a.c \in FeInBandFailure THEN "reply" ELSE "none"]
         ELSE [disp |-> "dispatch",
               out  |-> IF a.nr /\ ReplyAck(SrvUpd(s, a, devPF))
                        THEN (IF a.h = "ok" THEN "ack0" ELSE "nack")
                        ELSE "none"]

SrvNext(s, a, devPF) ==
    IF a.c \notin FeServed \/ ~GateOK(s, a.c) THEN s ELSE SrvUpd(s, a, devPF)

\* Does request a require something on the wire (the frontend will wait for it)?
SrvAnswers(s, a, devPF) == SrvExpect(s, a, devPF).out # "none"

=============================================================================
