----------------------------- MODULE KernBackend -----------------------------
(***************************************************************************)
(* The kernel vhost / vhost-net / vhost-vsock / vhost-vDPA backends: for   *)
(* each operation the ioctl the Linux UAPI defines (direction, type 0xAF,  *)
(* number, argument size) and the bytes of its argument.  Transcribed from *)
(* <linux/vhost.h> and <linux/vhost_types.h>; cross-checked at run time    *)
(* with the numbers a C program compiled against this system's header      *)
(* prints (TV_Kern, "uapi" events).                                        *)
(*                                                                         *)
(* State: acked = acknowledged backend features (selects the IOTLB layout) *)
(***************************************************************************)
EXTENDS WireFormat, Limbs

NONE == 0  W == 1  R == 2  RW == 3
Ioctl(name) ==
    CASE name = "VHOST_GET_FEATURES" -> [dir |-> R, nr |-> 0, size |-> 8]
      [] name = "VHOST_SET_FEATURES" -> [dir |-> W, nr |-> 0, size |-> 8]
      [] name = "VHOST_SET_OWNER" -> [dir |-> NONE, nr |-> 1, size |-> 0]
      [] name = "VHOST_RESET_OWNER" -> [dir |-> NONE, nr |-> 2, size |-> 0]
      [] name = "VHOST_SET_MEM_TABLE" -> [dir |-> W, nr |-> 3, size |-> 8]
      [] name = "VHOST_SET_LOG_BASE" -> [dir |-> W, nr |-> 4, size |-> 8]
      [] name = "VHOST_SET_LOG_FD" -> [dir |-> W, nr |-> 7, size |-> 4]
      [] name = "VHOST_SET_VRING_NUM" -> [dir |-> W, nr |-> 16, size |-> 8]
      [] name = "VHOST_SET_VRING_ADDR" -> [dir |-> W, nr |-> 17, size |-> 40]
      [] name = "VHOST_SET_VRING_BASE" -> [dir |-> W, nr |-> 18, size |-> 8]
      [] name = "VHOST_GET_VRING_BASE" -> [dir |-> RW, nr |-> 18, size |-> 8]
      [] name = "VHOST_SET_VRING_KICK" -> [dir |-> W, nr |-> 32, size |-> 8]
      [] name = "VHOST_SET_VRING_CALL" -> [dir |-> W, nr |-> 33, size |-> 8]
      [] name = "VHOST_SET_VRING_ERR" -> [dir |-> W, nr |-> 34, size |-> 8]
      [] name = "VHOST_SET_BACKEND_FEATURES" -> [dir |-> W, nr |-> 37, size |-> 8]
      [] name = "VHOST_GET_BACKEND_FEATURES" -> [dir |-> R, nr |-> 38, size |-> 8]
      [] name = "VHOST_NET_SET_BACKEND" -> [dir |-> W, nr |-> 48, size |-> 8]
      [] name = "VHOST_VSOCK_SET_GUEST_CID" -> [dir |-> W, nr |-> 96, size |-> 8]
      [] name = "VHOST_VSOCK_SET_RUNNING" -> [dir |-> W, nr |-> 97, size |-> 4]
      [] name = "VHOST_VDPA_GET_DEVICE_ID" -> [dir |-> R, nr |-> 112, size |-> 4]
      [] name = "VHOST_VDPA_GET_STATUS" -> [dir |-> R, nr |-> 113, size |-> 1]
      [] name = "VHOST_VDPA_SET_STATUS" -> [dir |-> W, nr |-> 114, size |-> 1]
      [] name = "VHOST_VDPA_GET_CONFIG" -> [dir |-> R, nr |-> 115, size |-> 8]
      [] name = "VHOST_VDPA_SET_CONFIG" -> [dir |-> W, nr |-> 116, size |-> 8]
      [] name = "VHOST_VDPA_SET_VRING_ENABLE" -> [dir |-> W, nr |-> 117, size |-> 8]
      [] name = "VHOST_VDPA_GET_VRING_NUM" -> [dir |-> R, nr |-> 118, size |-> 2]
      [] name = "VHOST_VDPA_SET_CONFIG_CALL" -> [dir |-> W, nr |-> 119, size |-> 4]
      [] name = "VHOST_VDPA_GET_IOVA_RANGE" -> [dir |-> R, nr |-> 120, size |-> 16]
      [] name = "VHOST_VDPA_GET_CONFIG_SIZE" -> [dir |-> R, nr |-> 121, size |-> 4]
      [] name = "VHOST_VDPA_GET_AS_NUM" -> [dir |-> R, nr |-> 122, size |-> 4]
      [] name = "VHOST_VDPA_GET_VRING_GROUP" -> [dir |-> RW, nr |-> 123, size |-> 8]
      [] name = "VHOST_VDPA_SET_GROUP_ASID" -> [dir |-> W, nr |-> 124, size |-> 8]
      [] name = "VHOST_VDPA_SUSPEND" -> [dir |-> NONE, nr |-> 125, size |-> 0]
      [] name = "VHOST_VDPA_GET_VQS_COUNT" -> [dir |-> R, nr |-> 128, size |-> 4]
      [] name = "VHOST_VDPA_GET_GROUP_NUM" -> [dir |-> R, nr |-> 129, size |-> 4]

IoctlNames == {"VHOST_GET_FEATURES", "VHOST_SET_FEATURES", "VHOST_SET_OWNER", "VHOST_RESET_OWNER", "VHOST_SET_MEM_TABLE",
    "VHOST_SET_LOG_BASE", "VHOST_SET_LOG_FD", "VHOST_SET_VRING_NUM", "VHOST_SET_VRING_ADDR", "VHOST_SET_VRING_BASE",
    "VHOST_GET_VRING_BASE", "VHOST_SET_VRING_KICK", "VHOST_SET_VRING_CALL", "VHOST_SET_VRING_ERR", "VHOST_SET_BACKEND_FEATURES",
    "VHOST_GET_BACKEND_FEATURES", "VHOST_NET_SET_BACKEND", "VHOST_VSOCK_SET_GUEST_CID", "VHOST_VSOCK_SET_RUNNING",
    "VHOST_VDPA_GET_DEVICE_ID", "VHOST_VDPA_GET_STATUS", "VHOST_VDPA_SET_STATUS", "VHOST_VDPA_GET_CONFIG", "VHOST_VDPA_SET_CONFIG",
    "VHOST_VDPA_SET_VRING_ENABLE", "VHOST_VDPA_GET_VRING_NUM", "VHOST_VDPA_SET_CONFIG_CALL", "VHOST_VDPA_GET_IOVA_RANGE",
    "VHOST_VDPA_GET_CONFIG_SIZE", "VHOST_VDPA_GET_AS_NUM", "VHOST_VDPA_GET_VRING_GROUP", "VHOST_VDPA_SET_GROUP_ASID",
    "VHOST_VDPA_SUSPEND", "VHOST_VDPA_GET_VQS_COUNT", "VHOST_VDPA_GET_GROUP_NUM"}

\* _IOC(dir, 0xAF, nr, size) as <<low 16 bits, high 16 bits>>
Req(i) == <<175 * 256 + i.nr, i.dir * 16384 + i.size>>

\* operation -> the ioctl it must issue
OpIoctl(op) ==
    CASE op = "get_features" -> "VHOST_GET_FEATURES"          [] op = "set_features" -> "VHOST_SET_FEATURES"
      [] op = "set_owner" -> "VHOST_SET_OWNER"                [] op = "reset_owner" -> "VHOST_RESET_OWNER"
      [] op = "set_mem_table" -> "VHOST_SET_MEM_TABLE"        [] op = "set_log_base" -> "VHOST_SET_LOG_BASE"
      [] op = "set_log_fd" -> "VHOST_SET_LOG_FD"              [] op = "set_vring_num" -> "VHOST_SET_VRING_NUM"
      [] op = "set_vring_addr" -> "VHOST_SET_VRING_ADDR"      [] op = "set_vring_base" -> "VHOST_SET_VRING_BASE"
      [] op = "get_vring_base" -> "VHOST_GET_VRING_BASE"      [] op = "set_vring_kick" -> "VHOST_SET_VRING_KICK"
      [] op = "set_vring_call" -> "VHOST_SET_VRING_CALL"      [] op = "set_vring_err" -> "VHOST_SET_VRING_ERR"
      [] op = "set_backend_features" -> "VHOST_SET_BACKEND_FEATURES"
      [] op = "get_backend_features" -> "VHOST_GET_BACKEND_FEATURES"
      [] op = "net_set_backend" -> "VHOST_NET_SET_BACKEND"
      [] op = "vsock_set_guest_cid" -> "VHOST_VSOCK_SET_GUEST_CID"
      [] op \in {"vsock_start", "vsock_stop"} -> "VHOST_VSOCK_SET_RUNNING"
      [] op = "vdpa_get_device_id" -> "VHOST_VDPA_GET_DEVICE_ID"    [] op = "vdpa_get_status" -> "VHOST_VDPA_GET_STATUS"
      [] op = "vdpa_set_status" -> "VHOST_VDPA_SET_STATUS"          [] op = "vdpa_get_config" -> "VHOST_VDPA_GET_CONFIG"
      [] op = "vdpa_set_config" -> "VHOST_VDPA_SET_CONFIG"          [] op = "vdpa_set_vring_enable" -> "VHOST_VDPA_SET_VRING_ENABLE"
      [] op = "vdpa_get_vring_num" -> "VHOST_VDPA_GET_VRING_NUM"    [] op = "vdpa_set_config_call" -> "VHOST_VDPA_SET_CONFIG_CALL"
      [] op = "vdpa_get_iova_range" -> "VHOST_VDPA_GET_IOVA_RANGE"  [] op = "vdpa_get_config_size" -> "VHOST_VDPA_GET_CONFIG_SIZE"
      [] op = "vdpa_get_vqs_count" -> "VHOST_VDPA_GET_VQS_COUNT"    [] op = "vdpa_get_group_num" -> "VHOST_VDPA_GET_GROUP_NUM"
      [] op = "vdpa_get_as_num" -> "VHOST_VDPA_GET_AS_NUM"          [] op = "vdpa_get_vring_group" -> "VHOST_VDPA_GET_VRING_GROUP"
      [] op = "vdpa_set_group_asid" -> "VHOST_VDPA_SET_GROUP_ASID"  [] op = "vdpa_suspend" -> "VHOST_VDPA_SUSPEND"
      [] OTHER -> "none"

KernOps == {"get_features", "set_features", "set_owner", "reset_owner", "set_mem_table", "set_log_base", "set_log_fd",
            "set_vring_num", "set_vring_addr", "set_vring_base", "get_vring_base", "set_vring_kick", "set_vring_call", "set_vring_err"}
NetOps == {"net_set_backend"}
VsockOps == {"vsock_set_guest_cid", "vsock_start", "vsock_stop"}
VdpaOps == {"get_backend_features", "set_backend_features", "vdpa_get_device_id", "vdpa_get_status", "vdpa_set_status",
            "vdpa_get_config", "vdpa_set_config", "vdpa_set_vring_enable", "vdpa_get_vring_num", "vdpa_set_config_call",
            "vdpa_get_iova_range", "vdpa_get_config_size", "vdpa_get_vqs_count", "vdpa_get_group_num", "vdpa_get_as_num",
            "vdpa_get_vring_group", "vdpa_set_group_asid", "vdpa_suspend", "iotlb_send", "vdpa_dma_map", "vdpa_dma_unmap",
            "iotlb_parse_v1", "iotlb_parse_v2"}

\* Calls refused before any ioctl is issued (C19): ring configuration / table-size classes
RefusedLocally(op, cls) ==
    \/ op = "set_vring_addr" /\ cls \in {"size0", "npot", "over_max", "log_flag_no_addr"}
    \/ op = "set_mem_table" /\ cls \in {"empty", "n256"}
    \/ op = "set_log_base" /\ cls = "with_region"

\* guest address -> host address through the region table of the trace (kernel backends)
Contains(r, a) == Leq(r.gpa, a) /\ ~Leq(Sum(r.gpa, r.size), a)
HostAddr(regions, a) ==
    LET i == CHOOSE i \in 1..Len(regions) : Contains(regions[i], a) IN Sum(regions[i].host, Diff(a, regions[i].gpa))

\* bytes of the ioctl argument as the caller must have filled it in
KArg(op, a, backend, regions) ==
    CASE op \in {"set_features", "set_log_base", "vsock_set_guest_cid", "set_backend_features"} -> U64(a.v)
      [] op \in {"set_log_fd", "vdpa_set_config_call"} -> N32(a.fd)
      [] op = "vsock_start" -> N32(1)
      [] op = "vsock_stop" -> N32(0)
      [] op \in {"set_vring_num", "set_vring_base", "vdpa_set_vring_enable"} -> N32(a.index) \o U32(a.v)
      [] op = "get_vring_base" -> N32(a.index) \o Zeros(4)
      [] op \in {"vdpa_get_vring_group"} -> U32(a.index) \o Zeros(4)
      [] op = "vdpa_set_group_asid" -> U32(a.index) \o U32(a.v)
      [] op \in {"set_vring_kick", "set_vring_call", "set_vring_err"} -> N32(a.index) \o N32(a.fd)
      [] op = "net_set_backend" -> N32(a.index) \o (IF a.fd < 0 THEN <<255, 255, 255, 255>> ELSE N32(a.fd))
      [] op = "set_vring_addr" ->
            LET tr(x) == IF backend = "vdpa" THEN x ELSE HostAddr(regions, x)
                lg == IF a.flags % 2 = 1 /\ a.has_log THEN a.log ELSE <<0, 0, 0, 0>> IN
            N32(a.index) \o N32(a.flags) \o U64(tr(a.desc)) \o U64(tr(a.used)) \o U64(tr(a.avail)) \o U64(lg)
      [] op = "set_mem_table" ->
            N32(a.n) \o Zeros(4) \o Flatten([i \in 1..Len(a.regions) |->
                U64(a.regions[i].gpa) \o U64(a.regions[i].size) \o U64(a.regions[i].ua) \o Zeros(8)])
      [] op = "vdpa_set_status" -> <<a.v[1] % 256>>
      [] op = "vdpa_set_config" -> U32(a.off) \o N32(a.len) \o a.buf
      [] op = "vdpa_get_config" -> U32(a.off) \o N32(a.len)
      [] OTHER -> <<>>

\* IOTLB message as written to the device: layout v2 iff bit VHOST_BACKEND_F_IOTLB_MSG_V2 (= 1) acknowledged
IotlbV2(acked) == 1 \in acked
IotlbBytes(a, v2) ==
    N32(IF v2 THEN 2 ELSE 1) \o Zeros(4) \o U64(a.iova) \o U64(a.size) \o U64(a.uaddr) \o <<a.perm, a.type>> \o Zeros(72 - 34)
=============================================================================
