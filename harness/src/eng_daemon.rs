//! Engine "daemon": a real `VhostUserDaemon` (worker threads, epoll, vrings, guest memory, dirty log)
//! driven over a real unix socket by an independent raw peer.  Sequential configuration: after
//! every control letter the worker(s) are brought to quiescence with a barrier (a custom listener
//! on every worker), so that "no dispatch happened" is a positive observation.
//!
//! Case: {"id":.., "vring":"rwlock"|"mutex", "adapter":"arc"|"mutex"|"rwlock", "nq":n, "masks":[..], "maxq":256,
//!        "features":[bits], "pf":[bits], "exit":bool, "steps":[letter..]}
//! Letters (field "op"): negotiate | set_features | set_vring_kick | set_vring_call | set_vring_enable | get_vring_base |
//!   reset_device | kick | set_mem_table | add_mem_reg | rem_mem_reg | set_vring_num | set_vring_addr | set_vring_base |
//!   probe_mem | probe_ring | use_ring | set_log_base | write | listener | raw

use crate::common::*;
use serde_json::{json, Value};
use std::collections::HashMap;
use std::fs::File;
use std::io::{Read, Seek, SeekFrom, Write};
use std::marker::PhantomData;
use std::os::unix::io::{AsRawFd, FromRawFd, IntoRawFd};
use std::os::unix::net::UnixStream;
use std::sync::{Arc, Condvar, Mutex, RwLock};
use std::time::{Duration, Instant};
use vhost::vhost_user::message::*;
use vhost::vhost_user::{Backend, GpuBackend, Listener};
use vhost_user_backend::bitmap::BitmapMmapRegion;
use vhost_user_backend::{VhostUserBackend, VhostUserBackendMut, VhostUserDaemon, VringMutex, VringRwLock, VringT};
use virtio_queue::QueueT;
use vm_memory::{Bytes, GuestAddress, GuestAddressSpace, GuestMemory, GuestMemoryAtomic, GuestMemoryMmap, GuestMemoryRegion};
use vmm_sys_util::epoll::EventSet;
use vmm_sys_util::event::{new_event_consumer_and_notifier, EventConsumer, EventFlag, EventNotifier};
use vmm_sys_util::eventfd::EventFd;

pub type GM = GuestMemoryAtomic<GuestMemoryMmap<BitmapMmapRegion>>;

pub struct Log {
    pub m: Mutex<Vec<Value>>,
    pub cv: Condvar,
}
/// Dispatches recorded per step before further ones are only throttled (a kick that is never consumed makes
/// a level-triggered worker dispatch it forever; the count is what the trace specification judges).
pub const STORM: usize = 2000;
static NDISP: std::sync::atomic::AtomicUsize = std::sync::atomic::AtomicUsize::new(0);
impl Log {
    pub fn push(&self, v: Value) {
        self.m.lock().unwrap().push(v);
        self.cv.notify_all();
    }
    /// a ring dispatch (not the barrier): recorded up to STORM per step
    pub fn push_dispatch(&self, v: Value) {
        if NDISP.fetch_add(1, std::sync::atomic::Ordering::SeqCst) >= STORM {
            std::thread::sleep(Duration::from_micros(200));
            return;
        }
        self.push(v);
    }
    pub fn take(&self) -> Vec<Value> {
        NDISP.store(0, std::sync::atomic::Ordering::SeqCst);
        std::mem::take(&mut *self.m.lock().unwrap())
    }
    /// wait until `pred(events)` holds or timeout
    pub fn wait<F: Fn(&[Value]) -> bool>(&self, pred: F, ms: u64) -> bool {
        let t0 = Instant::now();
        let mut g = self.m.lock().unwrap();
        loop {
            if pred(&g) {
                return true;
            }
            let left = Duration::from_millis(ms).saturating_sub(t0.elapsed());
            if left.is_zero() {
                return false;
            }
            g = self.cv.wait_timeout(g, left).unwrap().0;
        }
    }
}

#[derive(Clone)]
pub struct Cfg {
    pub nq: usize,
    pub maxq: usize,
    pub masks: Vec<u64>,
    pub features: u64,
    pub pf: u64,
    pub exit: bool,
    /// the exit events are the two ends of a pipe (two different files) instead of two descriptors of one eventfd
    pub exit_pipe: bool,
    pub fail_update_memory: bool,
}

/// what handle_event does on a queue event besides recording
#[derive(Clone, Default)]
pub struct Script {
    /// (queue, descriptor index, len): add_used + signal_used_queue on dispatch of that queue
    pub use_ring: Option<(usize, u16, u32)>,
    pub handle_err: bool,
}

pub struct TB<V> {
    pub cfg: Cfg,
    pub log: Arc<Log>,
    pub mem: Mutex<Option<GM>>,
    pub updates: Mutex<u64>,
    pub script: Mutex<Script>,
    /// custom listener eventfds per thread (to be drained when dispatched)
    pub listeners: Mutex<Vec<(usize, u64, Arc<EventFd>)>>,
    pub backends: Mutex<Vec<Backend>>,
    /// optional gate that blocks the `acked_features` callback ("inside the handler"): (entered, released)
    pub gate: Mutex<Option<Arc<(Mutex<(bool, bool)>, Condvar)>>>,
    /// scripted outcome of the optional device-level callbacks (X03): "ok" | "fail" | "file"
    pub dev: Mutex<String>,
    pub gpus: Mutex<Vec<GpuBackend>>,
    /// files the device callbacks received or handed out (kept open so that their identity stays comparable)
    pub devfiles: Mutex<Vec<File>>,
    _v: PhantomData<fn() -> V>,
}

impl<V> TB<V> {
    fn dev_fails(&self) -> bool {
        *self.dev.lock().unwrap() == "fail"
    }
    fn dev_result(&self) -> std::io::Result<()> {
        if self.dev_fails() {
            Err(std::io::Error::other("scripted device failure"))
        } else {
            Ok(())
        }
    }
    fn block_if_gated(&self) {
        let gate = self.gate.lock().unwrap().clone();
        if let Some(g) = gate {
            let (m, cv) = &*g;
            let mut st = m.lock().unwrap();
            st.0 = true;
            cv.notify_all();
            while !st.1 {
                st = cv.wait(st).unwrap();
            }
        }
    }
    pub fn new(cfg: Cfg, log: Arc<Log>) -> Self {
        TB {
            cfg,
            log,
            mem: Mutex::new(None),
            updates: Mutex::new(0),
            script: Mutex::new(Script::default()),
            listeners: Mutex::new(Vec::new()),
            backends: Mutex::new(Vec::new()),
            gate: Mutex::new(None),
            dev: Mutex::new("ok".to_string()),
            gpus: Mutex::new(Vec::new()),
            devfiles: Mutex::new(Vec::new()),
            _v: PhantomData,
        }
    }
}

fn mem_snapshot(m: &GM) -> Value {
    let g = m.memory();
    Value::Array(g.iter().map(|r| json!({"gpa": limbs(r.start_addr().0), "size": limbs(r.len())})).collect())
}

impl<V: VringT<GM> + Send + Sync + 'static> VhostUserBackend for TB<V> {
    type Bitmap = BitmapMmapRegion;
    type Vring = V;
    fn num_queues(&self) -> usize {
        self.cfg.nq
    }
    fn max_queue_size(&self) -> usize {
        self.cfg.maxq
    }
    fn features(&self) -> u64 {
        self.block_if_gated();
        self.cfg.features
    }
    fn acked_features(&self, features: u64) {
        self.log.push(json!({"ev": "cb", "cb": "acked_features", "v": limbs(features)}));
        self.block_if_gated();
    }
    fn protocol_features(&self) -> VhostUserProtocolFeatures {
        VhostUserProtocolFeatures::from_bits_truncate(self.cfg.pf)
    }
    fn reset_device(&self) {
        self.log.push(json!({"ev": "cb", "cb": "reset_device", "v": limbs(0)}));
    }
    fn set_event_idx(&self, enabled: bool) {
        self.log.push(json!({"ev": "cb", "cb": "set_event_idx", "v": limbs(enabled as u64)}));
    }
    fn get_config(&self, offset: u32, size: u32) -> Vec<u8> {
        let fail = self.dev_fails();
        let n = if fail { size.wrapping_add(1) % 300 } else { size };
        let data: Vec<u8> = (0..n).map(|i| (offset as u8).wrapping_add(i as u8)).collect();
        self.log.push(json!({"ev": "dcb", "cb": "get_config", "off": offset, "size": size, "ret": bytes_json(&data)}));
        data
    }
    fn set_config(&self, offset: u32, buf: &[u8]) -> std::io::Result<()> {
        self.log.push(json!({"ev": "cb", "cb": "set_config", "v": limbs(offset as u64), "len": buf.len()}));
        self.log.push(json!({"ev": "dcb", "cb": "set_config", "off": offset, "data": bytes_json(buf)}));
        self.dev_result()
    }
    fn get_shared_object(&self, uuid: VhostUserSharedMsg) -> std::io::Result<File> {
        let mut rec = json!({"ev": "dcb", "cb": "get_shared_object", "uuid": bytes_json(uuid.uuid.as_bytes()), "file": "none"});
        let r = self.dev_result().map(|_| {
            let f = memfd("sharedobj", 4096);
            rec["file"] = json!(fd_id(f.as_raw_fd()));
            self.devfiles.lock().unwrap().push(f.try_clone().unwrap());
            f
        });
        self.log.push(rec);
        r
    }
    fn set_gpu_socket(&self, gpu_backend: GpuBackend) -> std::io::Result<()> {
        self.log.push(json!({"ev": "dcb", "cb": "set_gpu_socket"}));
        self.gpus.lock().unwrap().push(gpu_backend);
        self.dev_result()
    }
    fn set_device_state_fd(&self, direction: VhostTransferStateDirection, phase: VhostTransferStatePhase, file: File) -> std::io::Result<Option<File>> {
        let mut rec = json!({"ev": "dcb", "cb": "set_device_state_fd", "dir": direction as u32, "phase": phase as u32,
            "got": fd_id(file.as_raw_fd()), "file": "none"});
        self.devfiles.lock().unwrap().push(file);
        let h = self.dev.lock().unwrap().clone();
        let r = match h.as_str() {
            "fail" => Err(std::io::Error::other("scripted device failure")),
            "file" => {
                let f = memfd("statechan", 4096);
                rec["file"] = json!(fd_id(f.as_raw_fd()));
                self.devfiles.lock().unwrap().push(f.try_clone().unwrap());
                Ok(Some(f))
            }
            _ => Ok(None),
        };
        self.log.push(rec);
        r
    }
    fn check_device_state(&self) -> std::io::Result<()> {
        self.log.push(json!({"ev": "dcb", "cb": "check_device_state"}));
        self.dev_result()
    }
    fn get_shmem_config(&self) -> std::io::Result<VhostUserShMemConfig> {
        self.log.push(json!({"ev": "dcb", "cb": "get_shmem_config"}));
        self.dev_result().map(|_| VhostUserShMemConfig::new(3, &[0x1000, 0x2_0000_0000, 0x7000]))
    }
    fn update_memory(&self, mem: GM) -> std::io::Result<()> {
        *self.updates.lock().unwrap() += 1;
        self.log.push(json!({"ev": "cb", "cb": "update_memory", "v": limbs(0), "regions": mem_snapshot(&mem)}));
        *self.mem.lock().unwrap() = Some(mem);
        if self.cfg.fail_update_memory {
            return Err(std::io::Error::other("scripted update_memory failure"));
        }
        Ok(())
    }
    fn set_backend_req_fd(&self, backend: Backend) {
        self.log.push(json!({"ev": "cb", "cb": "set_backend_req_fd", "v": limbs(0)}));
        self.backends.lock().unwrap().push(backend);
    }
    fn queues_per_thread(&self) -> Vec<u64> {
        self.cfg.masks.clone()
    }
    fn exit_event(&self, _thread_index: usize) -> Option<(EventConsumer, EventNotifier)> {
        if self.cfg.exit && self.cfg.exit_pipe {
            let mut fds = [0i32; 2];
            // SAFETY: pipe2 fills the two descriptors; result checked.
            if unsafe { libc::pipe2(fds.as_mut_ptr(), libc::O_CLOEXEC | libc::O_NONBLOCK) } != 0 {
                return None;
            }
            // SAFETY: fresh descriptors, owned by the two halves from here on.
            Some(unsafe { (EventConsumer::from_raw_fd(fds[0]), EventNotifier::from_raw_fd(fds[1])) })
        } else if self.cfg.exit {
            new_event_consumer_and_notifier(EventFlag::NONBLOCK).ok()
        } else {
            None
        }
    }
    fn handle_event(&self, device_event: u16, _evset: EventSet, vrings: &[V], thread_id: usize) -> std::io::Result<()> {
        let nv = vrings.len();
        let sizes: Vec<u64> = vrings.iter().map(|v| v.get_ref().get_queue().size() as u64).collect();
        let rings: Vec<Value> = vrings
            .iter()
            .map(|v| {
                let st = v.get_ref();
                let q = st.get_queue();
                json!({"size": q.size(), "ready": q.ready(), "next_avail": q.next_avail(), "next_used": q.next_used(),
                    "desc": limbs(q.desc_table()), "avail": limbs(q.avail_ring()), "used": limbs(q.used_ring()),
                    "event_idx": q.event_idx_enabled(), "enabled": st.is_enabled(), "has_call": st.get_call().is_some(),
                    "has_kick": st.get_kick().is_some()})
            })
            .collect();
        let mut rec = json!({"ev": "dispatch", "thread": thread_id, "event": device_event, "nvrings": nv, "sizes": sizes, "rings": rings});
        if (device_event as usize) < nv {
            let v = &vrings[device_event as usize];
            {
                let st = v.get_ref();
                let q = st.get_queue();
                rec["q"] = json!({"size": q.size(), "ready": q.ready(), "next_avail": q.next_avail(), "next_used": q.next_used(),
                    "desc": limbs(q.desc_table()), "avail": limbs(q.avail_ring()), "used": limbs(q.used_ring()),
                    "event_idx": q.event_idx_enabled(), "enabled": st.is_enabled(), "has_call": st.get_call().is_some()});
            }
            let sc = self.script.lock().unwrap().clone();
            if let Some((q, idx, len)) = sc.use_ring {
                let mine = sizes.get(device_event as usize).copied();
                let _ = (q, mine);
                let r1 = v.add_used(idx, len).is_ok();
                let r2 = v.signal_used_queue().is_ok();
                rec["used"] = json!({"add_used_ok": r1, "signal_ok": r2});
            }
            self.log.push_dispatch(rec);
            // a hold point inside the handler (concurrent schedules: kicks and control messages while the handler runs)
            vhost::verif::hit("w.in_dispatch", &[thread_id as u64, device_event as u64]);
            if sc.handle_err {
                return Err(std::io::Error::other("scripted handle_event failure"));
            }
        } else {
            // custom listener: drain the listener eventfd(s) of this thread registered under this event id
            let mut mine = false;
            for (t, id, e) in self.listeners.lock().unwrap().iter() {
                if *t == thread_id && *id as u16 == device_event {
                    let _ = e.read();
                    mine = true;
                }
            }
            if mine {
                self.log.push(rec);
            } else {
                // an event id that is neither a ring of this thread nor one of our listeners
                self.log.push_dispatch(rec);
            }
        }
        Ok(())
    }
}

/// The same backend through the `Mut` trait (for the library's Mutex / RwLock adapters).
pub struct TBMut<V>(pub Arc<TB<V>>);
impl<V: VringT<GM> + Send + Sync + 'static> VhostUserBackendMut for TBMut<V> {
    type Bitmap = BitmapMmapRegion;
    type Vring = V;
    fn num_queues(&self) -> usize {
        self.0.num_queues()
    }
    fn max_queue_size(&self) -> usize {
        self.0.max_queue_size()
    }
    fn features(&self) -> u64 {
        self.0.features()
    }
    fn acked_features(&mut self, features: u64) {
        self.0.acked_features(features)
    }
    fn protocol_features(&self) -> VhostUserProtocolFeatures {
        self.0.protocol_features()
    }
    fn reset_device(&mut self) {
        self.0.reset_device()
    }
    fn set_event_idx(&mut self, enabled: bool) {
        self.0.set_event_idx(enabled)
    }
    fn get_config(&self, offset: u32, size: u32) -> Vec<u8> {
        self.0.get_config(offset, size)
    }
    fn set_config(&mut self, offset: u32, buf: &[u8]) -> std::io::Result<()> {
        self.0.set_config(offset, buf)
    }
    fn update_memory(&mut self, mem: GM) -> std::io::Result<()> {
        self.0.update_memory(mem)
    }
    fn set_backend_req_fd(&mut self, backend: Backend) {
        self.0.set_backend_req_fd(backend)
    }
    fn get_shared_object(&mut self, uuid: VhostUserSharedMsg) -> std::io::Result<File> {
        self.0.get_shared_object(uuid)
    }
    fn set_gpu_socket(&mut self, gpu_backend: GpuBackend) -> std::io::Result<()> {
        self.0.set_gpu_socket(gpu_backend)
    }
    fn set_device_state_fd(&mut self, direction: VhostTransferStateDirection, phase: VhostTransferStatePhase, file: File) -> std::io::Result<Option<File>> {
        self.0.set_device_state_fd(direction, phase, file)
    }
    fn check_device_state(&self) -> std::io::Result<()> {
        self.0.check_device_state()
    }
    fn get_shmem_config(&self) -> std::io::Result<VhostUserShMemConfig> {
        self.0.get_shmem_config()
    }
    fn queues_per_thread(&self) -> Vec<u64> {
        self.0.queues_per_thread()
    }
    fn exit_event(&self, thread_index: usize) -> Option<(EventConsumer, EventNotifier)> {
        self.0.exit_event(thread_index)
    }
    fn handle_event(&mut self, device_event: u16, evset: EventSet, vrings: &[V], thread_id: usize) -> std::io::Result<()> {
        self.0.handle_event(device_event, evset, vrings, thread_id)
    }
}

// ------------------------------------------------------------------------------------------ raw peer
pub struct Peer {
    pub sock: UnixStream,
    pub reply_ack: bool,
    /// the backend offered VHOST_USER_F_PROTOCOL_FEATURES
    pub offered_pf: bool,
}

pub struct Reply {
    /// "ok" (ack 0 / reply received) | "nack" | "closed" | "none" (nothing awaited)
    pub status: String,
    pub body: Vec<u8>,
    pub fds: Vec<i32>,
}

impl Peer {
    /// send one request; wait for its reply / ack (if any is due)
    pub fn request(&mut self, code: u32, body: &[u8], fds: &[i32], has_reply: bool) -> Reply {
        if code == 16 && body.len() == 8 {
            // the acknowledgement of SET_PROTOCOL_FEATURES itself already follows the new setting
            self.reply_ack = self.offered_pf && le64(body, 0) & 8 != 0;
        }
        let need = !has_reply && self.reply_ack;
        let mut bytes = Vec::new();
        bytes.extend_from_slice(&code.to_le_bytes());
        bytes.extend_from_slice(&(1u32 | if need { 8 } else { 0 }).to_le_bytes());
        bytes.extend_from_slice(&(body.len() as u32).to_le_bytes());
        bytes.extend_from_slice(body);
        if raw_send_all(&self.sock, &bytes, fds).is_err() {
            return Reply {
                status: "closed".into(),
                body: vec![],
                fds: vec![],
            };
        }
        if !has_reply && !need {
            // no acknowledgement is due: synchronise with a GET_FEATURES round trip instead. The daemon
            // ends the connection when a request fails, so an answered ping means the request succeeded.
            if code == 1 {
                return Reply { status: "none".into(), body: vec![], fds: vec![] };
            }
            let ping = self.request(1, &[], &[], true);
            return Reply {
                status: if ping.status == "ok" { "ok".into() } else if ping.status == "timeout" { "timeout".into() } else { "closed".into() },
                body: vec![],
                fds: vec![],
            };
        }
        // read header then body (blocking, with a receive timeout)
        let t_start = Instant::now();
        let mut hdr = [0u8; 12];
        let mut got = 0;
        let mut rfds = Vec::new();
        while got < 12 {
            match raw_recv(&self.sock, &mut hdr[got..], 0) {
                Err(e) if e.kind() == std::io::ErrorKind::WouldBlock || e.kind() == std::io::ErrorKind::TimedOut => {
                    // the receive timeout expired while the connection is still open.  "No answer" only if the daemon thread is
                    // seen asleep in a blocking call (or is gone, or spins): on a slow machine the wait simply goes on
                    if !hang_confirmed(t_start, &tids_named("vh-daemon"), &[]) {
                        continue;
                    }
                    return Reply {
                        status: "timeout".into(),
                        body: vec![],
                        fds: rfds,
                    };
                }
                Ok((0, _)) | Err(_) => {
                    return Reply {
                        status: "closed".into(),
                        body: vec![],
                        fds: rfds,
                    }
                }
                Ok((n, f)) => {
                    got += n;
                    rfds.extend(f);
                }
            }
        }
        let size = le32(&hdr, 8) as usize;
        let mut b = vec![0u8; size];
        let mut g = 0;
        while g < size {
            match raw_recv(&self.sock, &mut b[g..], 0) {
                Ok((0, _)) | Err(_) => break,
                Ok((n, f)) => {
                    g += n;
                    rfds.extend(f);
                }
            }
        }
        let status = if has_reply {
            "ok"
        } else if size == 8 && le64(&b, 0) == 0 {
            "ok"
        } else {
            "nack"
        };
        Reply {
            status: status.into(),
            body: b,
            fds: rfds,
        }
    }
}

pub fn u64b(x: u64) -> Vec<u8> {
    x.to_le_bytes().to_vec()
}
pub fn state(index: u32, num: u32) -> Vec<u8> {
    let mut b = index.to_le_bytes().to_vec();
    b.extend_from_slice(&num.to_le_bytes());
    b
}

// ------------------------------------------------------------------------------------------ the rig
pub struct Region {
    pub gpa: u64,
    pub size: u64,
    pub ua: u64,
    pub off: u64,
    pub file: File,
}

pub struct Rig<V: VringT<GM> + Clone + Send + Sync + 'static> {
    pub log: Arc<Log>,
    pub tb: Arc<TB<V>>,
    pub peer: Peer,
    pub nthreads: usize,
    pub barrier: Vec<Arc<EventFd>>,
    pub barrier_id: u64,
    /// per queue: the kick eventfds handed over so far (last = current), call eventfds likewise
    pub kicks: Vec<Vec<EventFd>>,
    pub calls: Vec<Vec<EventFd>>,
    pub regions: Vec<Region>,
    pub logfile: Option<(File, u64, u64)>,
    pub dropper: Box<dyn FnOnce() + Send>,
    pub restart: Box<dyn FnMut() -> Option<UnixStream> + Send>,
    pub path: String,
    pub handlers_reg: Box<dyn Fn(usize, i32, u64) -> std::io::Result<()> + Send>,
    pub handlers_unreg: Box<dyn Fn(usize, i32, u64) -> std::io::Result<()> + Send>,
    pub alive: bool,
}

static SOCK_SEQ: std::sync::atomic::AtomicU64 = std::sync::atomic::AtomicU64::new(0);

pub fn sock_path() -> String {
    let n = SOCK_SEQ.fetch_add(1, std::sync::atomic::Ordering::SeqCst);
    format!("/tmp/vh-{}-{}.sock", std::process::id(), n)
}

/// Build backend + daemon (adapter chosen by `adapter`), connect the raw peer.
pub fn make_rig<V: VringT<GM> + Clone + Send + Sync + 'static>(cfg: Cfg, adapter: &str) -> Rig<V> {
    let log = Arc::new(Log {
        m: Mutex::new(Vec::new()),
        cv: Condvar::new(),
    });
    let tb = Arc::new(TB::<V>::new(cfg.clone(), log.clone()));
    let path = sock_path();
    let mut listener = Listener::new(&path, true).unwrap();
    let sock = UnixStream::connect(&path).unwrap();
    sock.set_read_timeout(Some(Duration::from_millis(3000))).unwrap();
    let mem = GuestMemoryAtomic::new(GuestMemoryMmap::<BitmapMmapRegion>::new());
    let nthreads = cfg.masks.len();
    // the three adapters give three daemon types: keep them behind closures
    macro_rules! build {
        ($backend:expr) => {{
            let mut d = VhostUserDaemon::new("vh-daemon".to_string(), $backend, mem).unwrap();
            d.start(&mut listener).unwrap();
            let hs = d.get_epoll_handlers();
            let hs2 = d.get_epoll_handlers();
            let reg: Box<dyn Fn(usize, i32, u64) -> std::io::Result<()> + Send> =
                Box::new(move |t, fd, id| match hs.get(t) {
                    Some(h) => h.register_listener(fd, EventSet::IN, id),
                    None => Err(std::io::Error::other("the daemon has no worker for this mask")),
                });
            let unreg: Box<dyn Fn(usize, i32, u64) -> std::io::Result<()> + Send> =
                Box::new(move |t, fd, id| match hs2.get(t) {
                    Some(h) => h.unregister_listener(fd, EventSet::IN, id),
                    None => Err(std::io::Error::other("the daemon has no worker for this mask")),
                });
            let d = Arc::new(Mutex::new(Some(d)));
            let d2 = d.clone();
            let dropper: Box<dyn FnOnce() + Send> = Box::new(move || {
                if let Some(mut d) = d2.lock().unwrap().take() {
                    d.request_shutdown();
                    let _ = d.wait();
                    drop(d);
                }
            });
            // a new connection to the same daemon (the previous one has ended): wait for the old daemon
            // thread, start a new one on the same listener, connect
            let rpath = path.clone();
            let restart: Box<dyn FnMut() -> Option<UnixStream> + Send> = Box::new(move || {
                let mut g = d.lock().unwrap();
                let d = g.as_mut()?;
                let _ = d.wait();
                let s = UnixStream::connect(&rpath).ok()?;
                d.start(&mut listener).ok()?;
                s.set_read_timeout(Some(Duration::from_millis(3000))).ok()?;
                Some(s)
            });
            (reg, unreg, dropper, restart)
        }};
    }
    let (reg, unreg, dropper, restart) = match adapter {
        "mutex" => build!(Arc::new(Mutex::new(TBMut(tb.clone())))),
        "rwlock" => build!(Arc::new(RwLock::new(TBMut(tb.clone())))),
        _ => build!(tb.clone()),
    };
    let mut rig = Rig {
        restart,
        path,
        log,
        tb,
        peer: Peer {
            sock,
            reply_ack: false,
            offered_pf: false,
        },
        nthreads,
        barrier: Vec::new(),
        barrier_id: 61234,
        kicks: (0..cfg.nq).map(|_| Vec::new()).collect(),
        calls: (0..cfg.nq).map(|_| Vec::new()).collect(),
        regions: Vec::new(),
        logfile: None,
        dropper,
        handlers_reg: reg,
        handlers_unreg: unreg,
        alive: true,
    };
    // the workers name themselves when they start running: wait until all of them can be seen, so that a later
    // undercount means a worker has really terminated
    static SEEN_MISSING: std::sync::atomic::AtomicBool = std::sync::atomic::AtomicBool::new(false);
    let t0 = Instant::now();
    // generous the first time; once a daemon of this process has been seen with fewer workers than masks, later ones get 1 s
    let limit = if SEEN_MISSING.load(std::sync::atomic::Ordering::SeqCst) { 1 } else { 15 };
    while live_workers() < nthreads {
        if t0.elapsed() > Duration::from_secs(limit) {
            // fewer workers than masks: recorded (the quiescence barrier then reports the missing worker), not a tool error
            SEEN_MISSING.store(true, std::sync::atomic::Ordering::SeqCst);
            break;
        }
        std::thread::sleep(Duration::from_micros(100));
    }
    // one barrier listener per worker
    for t in 0..nthreads {
        let e = Arc::new(EventFd::new(libc::EFD_NONBLOCK).unwrap());
        if (rig.handlers_reg)(t, e.as_raw_fd(), rig.barrier_id).is_err() {
            // a worker that should exist does not: every step reports the workers as not alive
            rig.alive = false;
        }
        rig.tb.listeners.lock().unwrap().push((t, rig.barrier_id, e.clone()));
        rig.barrier.push(e);
    }
    rig
}

impl<V: VringT<GM> + Clone + Send + Sync + 'static> Rig<V> {
    /// Raise the barrier on every worker and wait until each has dispatched it: everything that was
    /// ready-and-registered before has been handled by then. Returns false if a worker is gone.
    pub fn quiesce(&self) -> bool {
        // Two rounds: a level-triggered descriptor keeps its (stale) slot in epoll's ready list, so the
        // barrier can be reported *before* a kick that became ready earlier -- but then both are in
        // the same batch, and the second barrier is dispatched after everything of that batch.
        self.quiesce_round() && self.quiesce_round()
    }

    fn quiesce_round(&self) -> bool {
        let bid = self.barrier_id as u16;
        for t in 0..self.nthreads {
            let before = self.log.m.lock().unwrap().iter().filter(|e| e["ev"] == "dispatch" && e["event"] == bid && e["thread"] == t).count();
            let _ = self.barrier[t].write(1);
            // No verdict depends on a timeout: a worker counts as gone only when its thread has
            // really exited (positive observation through /proc); slowness just means waiting longer.
            let t0 = Instant::now();
            loop {
                if self.log.wait(
                    |ev| ev.iter().filter(|e| e["ev"] == "dispatch" && e["event"] == bid && e["thread"] == t).count() > before,
                    50,
                ) {
                    break;
                }
                if live_workers() < self.nthreads {
                    return false;
                }
                // a worker that sits in a lock wait (futex) in every sample of a second while its barrier is raised is
                // blocked for good (a deadlock is data, like a terminated worker); anything else just takes longer
                if t0.elapsed() > Duration::from_secs(2) && workers_stuck_on_lock() {
                    WORKER_STUCK.store(true, std::sync::atomic::Ordering::SeqCst);
                    return false;
                }
                if t0.elapsed() > Duration::from_secs(60) {
                    eprintln!("TOOL-ERROR: worker alive but barrier not dispatched within 60 s");
                    std::process::exit(3);
                }
            }
        }
        true
    }

    pub fn negotiate(&mut self, feats: u64, pf: u64) -> Value {
        let r1 = self.peer.request(1, &[], &[], true);
        if r1.status == "timeout" {
            // the daemon has stopped answering: the remaining negotiation requests would each wait for the same verdict
            return json!({"offered": limbs(0), "offered_pf": limbs(0), "set_features": "timeout"});
        }
        let offered = if r1.body.len() == 8 { le64(&r1.body, 0) } else { 0 };
        self.peer.offered_pf = offered >> 30 & 1 == 1;
        let r2 = self.peer.request(2, &u64b(feats), &[], false);
        let r3 = self.peer.request(15, &[], &[], true);
        let offered_pf = if r3.body.len() == 8 { le64(&r3.body, 0) } else { 0 };
        let _ = self.peer.request(16, &u64b(pf), &[], false);
        json!({"offered": limbs(offered), "offered_pf": limbs(offered_pf), "set_features": r2.status})
    }

    /// The current connection has ended (or is dropped here); open a new one to the same daemon.
    pub fn reconnect(&mut self) -> bool {
        let _ = self.peer.sock.shutdown(std::net::Shutdown::Both);
        match (self.restart)() {
            Some(s) => {
                self.peer = Peer { sock: s, reply_ack: false, offered_pf: false };
                true
            }
            None => false,
        }
    }

    pub fn finish(self) -> Arc<Log> {
        let Rig { peer, dropper, log, restart, path, .. } = self;
        if WORKER_STUCK.load(std::sync::atomic::Ordering::SeqCst) {
            // joining a deadlocked worker would never return: the daemon is left behind and the process ends after this case
            drop(peer);
            std::mem::forget(dropper);
            std::mem::forget(restart);
            let _ = std::fs::remove_file(&path);
            return log;
        }
        drop(peer);
        if guarded_drop(dropper) {
            drop(restart);
        } else {
            std::mem::forget(restart);
        }
        let _ = std::fs::remove_file(&path);
        log
    }
}

pub fn cfg_of(case: &Value) -> Cfg {
    let nq = case["nq"].as_u64().unwrap_or(2) as usize;
    Cfg {
        nq,
        maxq: case["maxq"].as_u64().unwrap_or(256) as usize,
        masks: case["masks"].as_array().map(|a| a.iter().map(|x| x.as_u64().unwrap()).collect()).unwrap_or_else(|| vec![0xffff_ffff]),
        features: case.get("features").map(from_bits).unwrap_or((1 << 30) | (1 << 29) | (1 << 26) | (1 << 32) | 1),
        pf: case.get("pf").map(from_bits).unwrap_or(0x3f_ffff & !(1 << 8) & !(1 << 17)),
        exit: case["exit"].as_bool().unwrap_or(true),
        // every other case (by id) hands the daemon pipe-backed exit events
        exit_pipe: case["exit_pipe"].as_bool().unwrap_or(case["id"].as_u64().unwrap_or(0) % 2 == 1),
        fail_update_memory: case["fail_update_memory"].as_bool().unwrap_or(false),
    }
}

/// Dispatch on the vring type.
pub fn run(cases: &[Value], trace: &mut Trace, seed: u64) {
    for (k, case) in cases.iter().enumerate() {
        let mut rng = Rng::new(seed ^ (k as u64).wrapping_mul(0x51ed_27));
        let watch_threads = thread_count();
        if case.get("shutdown").is_some() {
            crate::daemon_shut::run_case(case, trace);
        } else if case["conc"].as_bool() == Some(true) {
            if case["vring"].as_str() == Some("mutex") {
                crate::daemon_conc::run_case::<VringMutex<GM>>(case, trace);
            } else {
                crate::daemon_conc::run_case::<VringRwLock<GM>>(case, trace);
            }
        } else if case["vring"].as_str() == Some("mutex") {
            crate::daemon_seq::run_case::<VringMutex<GM>>(case, trace, &mut rng);
        } else {
            crate::daemon_seq::run_case::<VringRwLock<GM>>(case, trace, &mut rng);
        }
        // C16: dropping the daemon terminates its worker threads (when exit events are supplied)
        let t0 = Instant::now();
        let mut after = thread_count();
        while after > watch_threads && t0.elapsed() < Duration::from_millis(1000) {
            std::thread::sleep(Duration::from_millis(1));
            after = thread_count();
        }
        let stuck = WORKER_STUCK.load(std::sync::atomic::Ordering::SeqCst);
        let drop_stuck = DROP_STUCK.load(std::sync::atomic::Ordering::SeqCst);
        // with a deadlocked worker left behind the thread count says nothing about teardown (unless it is the teardown that hangs)
        trace.emit(json!({"ev": "threads", "before": watch_threads, "after": if stuck && !drop_stuck { watch_threads } else { after }, "exit": case["exit"].as_bool().unwrap_or(true)}));
        if stuck {
            trace.flush();
            eprintln!("vh daemon: a worker thread is blocked on a lock for good; ending this process after case {k}");
            std::process::exit(77);
        }
    }
}

/// set when a worker of this process was found blocked on a lock for good; the process ends after the current case
/// (exit status 77: the driver runs the remaining cases in a fresh process)
pub static WORKER_STUCK: std::sync::atomic::AtomicBool = std::sync::atomic::AtomicBool::new(false);
/// Dropping a daemon joins its workers: done on a helper thread, so that a join that never returns (workers that do not see
/// their exit event) is data -- positively observed: the helper and every worker asleep in a system call after the watchdog
/// has expired -- and not a hung harness.  `x` is anything whose release drops the daemon (the daemon itself, a closure).
pub fn guarded_drop<T: Release + Send + 'static>(x: T) -> bool {
    let (tx, rx) = std::sync::mpsc::channel();
    let h = std::thread::Builder::new()
        .name("vh-dropper".into())
        .spawn(move || {
            x.release();
            let _ = tx.send(());
        })
        .unwrap();
    let tids = || {
        let mut v = tids_named("vh-dropper");
        v.extend(tids_named("vring_worker"));
        v
    };
    if recv_or_blocked(&rx, Duration::from_secs(3), Duration::from_secs(120), &tids, &[]).is_some() {
        let _ = h.join();
        true
    } else {
        WORKER_STUCK.store(true, std::sync::atomic::Ordering::SeqCst);
        DROP_STUCK.store(true, std::sync::atomic::Ordering::SeqCst);
        false
    }
}
pub trait Release {
    fn release(self);
}
impl Release for Box<dyn FnOnce() + Send> {
    fn release(self) {
        self()
    }
}
impl<T: VhostUserBackend + Clone + 'static> Release for VhostUserDaemon<T>
where
    T::Vring: Clone + Send + Sync + 'static,
    T::Bitmap: Clone + Send + Sync + 'static,
{
    fn release(self) {
        drop(self)
    }
}
/// set when dropping the daemon never returned (its helper thread and the workers all blocked)
pub static DROP_STUCK: std::sync::atomic::AtomicBool = std::sync::atomic::AtomicBool::new(false);

/// is some worker thread waiting on a futex (system call 202 on x86-64, 98 on aarch64) in each of five samples 200 ms apart,
/// without any of them having entered another system call in between?
pub fn workers_stuck_on_lock() -> bool {
    let futex_nr = if cfg!(target_arch = "aarch64") { "98" } else { "202" };
    let sample = || -> Vec<(String, String)> {
        let mut v = Vec::new();
        if let Ok(d) = std::fs::read_dir("/proc/self/task") {
            for e in d.flatten() {
                if std::fs::read_to_string(e.path().join("comm")).map(|c| c.trim() == "vring_worker").unwrap_or(false) {
                    let sc = std::fs::read_to_string(e.path().join("syscall")).unwrap_or_default();
                    let ctx = std::fs::read_to_string(e.path().join("status")).unwrap_or_default();
                    let sw: String = ctx.lines().filter(|l| l.contains("ctxt_switches")).collect::<Vec<_>>().join(",");
                    v.push((e.file_name().to_string_lossy().to_string(), format!("{}|{}", sc.split_whitespace().next().unwrap_or(""), sw)));
                }
            }
        }
        v
    };
    let first = sample();
    let mut cand: Vec<(String, String)> = first.into_iter().filter(|(_, s)| s.split('|').next() == Some(futex_nr)).collect();
    for _ in 0..4 {
        std::thread::sleep(Duration::from_millis(200));
        let now = sample();
        cand.retain(|c| now.contains(c));
        if cand.is_empty() {
            return false;
        }
    }
    true
}

/// number of live threads named "vring_worker" (the daemon's workers) in this process
pub fn live_workers() -> usize {
    let mut n = 0;
    if let Ok(d) = std::fs::read_dir("/proc/self/task") {
        for e in d.flatten() {
            if let Ok(c) = std::fs::read_to_string(e.path().join("comm")) {
                if c.trim() == "vring_worker" {
                    n += 1;
                }
            }
        }
    }
    n
}

pub fn thread_count() -> usize {
    std::fs::read_dir("/proc/self/task").map(|d| d.count()).unwrap_or(0)
}

// helpers shared with the sequential letters -------------------------------------------------------
pub fn new_eventfd() -> EventFd {
    EventFd::new(libc::EFD_NONBLOCK).unwrap()
}

pub fn file_read_at(f: &File, off: u64, n: usize) -> Vec<u8> {
    let mut f = f.try_clone().unwrap();
    let mut b = vec![0u8; n];
    f.seek(SeekFrom::Start(off)).unwrap();
    let _ = f.read(&mut b);
    b
}
pub fn file_write_at(f: &File, off: u64, data: &[u8]) {
    let mut f = f.try_clone().unwrap();
    f.seek(SeekFrom::Start(off)).unwrap();
    let _ = f.write_all(data);
}

pub fn dup_file_of(e: &EventFd) -> File {
    // SAFETY: dup of a valid descriptor, owned by the File.
    unsafe { File::from_raw_fd(libc::dup(e.as_raw_fd())) }
}

#[allow(dead_code)]
pub fn unused(_: HashMap<u8, u8>, _: &dyn IntoRawFd) {}

pub fn read_guest(m: &GM, gpa: u64, n: usize) -> Option<Vec<u8>> {
    let mut b = vec![0u8; n];
    m.memory().read_slice(&mut b, GuestAddress(gpa)).ok().map(|_| b)
}
pub fn write_guest(m: &GM, gpa: u64, data: &[u8]) -> bool {
    m.memory().write_slice(data, GuestAddress(gpa)).is_ok()
}
