//! Engine "client": the real `Frontend` against an independent scripted raw peer that plays the
//! backend as the protocol document describes it (and, on request, deviates from it in one way).
//!
//! Case: {"id":.., "steps":[{"op":..,"cls":..,"v":[bits],"rv":[bits],"peer":"auto"|<mutation>}]}
//! Trace: reset, then "flags" / "call" events.

use crate::common::*;
use crate::feops::*;
use serde_json::{json, Value};
use std::fs::File;
use std::os::unix::io::AsRawFd;
use std::os::unix::net::UnixStream;
use std::sync::mpsc::channel;
use std::time::{Duration, Instant};
use vhost::vhost_user::message::VhostUserHeaderFlag;
use vhost::vhost_user::Frontend;

const HAS_REPLY: [u32; 12] = [1, 15, 17, 11, 24, 31, 36, 41, 42, 43, 44, 6];

struct Peer {
    sock: UnixStream,
    offered_pf: bool,
    reply_ack: bool,
    buf: Vec<u8>,
    pending_fds: Vec<i32>,
}

fn p64(v: &mut Vec<u8>, x: u64) {
    v.extend_from_slice(&x.to_le_bytes());
}
fn p32(v: &mut Vec<u8>, x: u32) {
    v.extend_from_slice(&x.to_le_bytes());
}

/// The correct reply body (and descriptors) for request `code` with body `req`.
fn correct_reply(code: u32, req: &[u8], rv: u64, rng_fill: u8) -> (Vec<u8>, Vec<File>) {
    let mut b = Vec::new();
    let mut f = Vec::new();
    match code {
        1 | 15 => p64(&mut b, rv),
        17 => p64(&mut b, 2),
        36 => p64(&mut b, 509),
        43 => p64(&mut b, 0),
        11 => {
            b.extend_from_slice(&req[0..4]);
            p32(&mut b, 9);
        }
        24 => {
            b.extend_from_slice(&req[0..12]);
            let size = le32(req, 4) as usize;
            b.extend((0..size).map(|i| rng_fill.wrapping_add(i as u8)));
        }
        31 => {
            p64(&mut b, 0x3000);
            p64(&mut b, 0x1000);
            b.extend_from_slice(&4u16.to_le_bytes());
            b.extend_from_slice(&64u16.to_le_bytes());
            p32(&mut b, 0);
            f.push(memfd("inflight", 0x1000));
        }
        41 => f.push(memfd("shobj", 0x1000)),
        42 => {
            if rv & 1 == 1 {
                p64(&mut b, 0);
                f.push(memfd("state", 0));
            } else {
                p64(&mut b, 0x100);
            }
        }
        44 => {
            p32(&mut b, 2);
            p32(&mut b, 0);
            for i in 0..256u64 {
                p64(&mut b, if i < 2 { 0x1000 * (i + 1) } else { 0 });
            }
        }
        6 => b.extend_from_slice(&req[0..16]),
        _ => {}
    }
    (b, f)
}

impl Peer {
    /// Answer one request according to `behaviour`. Returns a description of what was sent.
    fn answer(&mut self, m: &Value, behaviour: &str, rv: u64, rng: &mut Rng, step: &Value, fe_fd: i32) -> Value {
        let code = m["c"].as_u64().unwrap() as u32;
        let flags = m["flags"].as_u64().unwrap() as u32;
        let req = unhex(m["body"].as_str().unwrap());
        // negotiation bookkeeping of an independent backend
        if code == 16 && req.len() >= 8 {
            self.reply_ack = self.offered_pf && le64(&req, 0) & 8 != 0;
        }
        let has_reply = HAS_REPLY.contains(&code) && !(code == 6 && req.len() != 16);
        let wants_ack = !has_reply && flags & 8 != 0 && self.reply_ack;
        if !has_reply && !wants_ack {
            return json!({"kind": "none", "enc": {}});
        }
        let fill = rng.next() as u8;
        let (mut body, mut files) = if has_reply {
            correct_reply(code, &req, rv, fill)
        } else {
            (0u64.to_le_bytes().to_vec(), vec![])
        };
        if code == 1 {
            self.offered_pf = rv >> 30 & 1 == 1;
        }
        let mut rcode = code;
        let mut rflags: u32 = 1 | 4;
        let mut size = body.len() as u32;
        let mut close_after = behaviour != "auto" && behaviour != "seg";
        match behaviour {
            "auto" => {}
            "silent" => {
                return json!({"kind": "silent", "enc": {}});
            }
            "code+1" => rcode = if code == 44 { 1 } else { code + 1 },
            "code=0" => rcode = 0,
            "code=999" => rcode = 999,
            "flag-reply" => rflags &= !4,
            "flag+need_reply" => rflags |= 8,
            "ver0" => rflags &= !3,
            "ver2" => rflags = (rflags & !3) | 2,
            "resv" => rflags |= 1 << (4 + rng.below(28)),
            "size-1" => {
                if body.is_empty() {
                    size = 0;
                } else {
                    body.pop();
                    size -= 1;
                }
            }
            "size+1" => {
                body.push(0);
                size += 1;
            }
            "size_field=0" => size = 0,
            "size_field>max" => size = 4097 + rng.below(1000) as u32,
            "body_short" => {
                // header announces the full size but fewer bytes follow, then EOF
                let n = body.len();
                body.truncate(n / 2);
            }
            "fds+1" | "fds+1_seg" => files.push(memfd("extra", 0)),
            "fds+2" => {
                files.push(memfd("extra", 0));
                files.push(memfd("extra", 0));
            }
            "fds-1" => {
                files.pop();
            }
            "nack" => {
                body = 1u64.wrapping_add(rng.next() % 1000).to_le_bytes().to_vec();
                close_after = false;
            }
            // a failure status whose low 32 bits are zero
            "nack_hi" => {
                body = [1u64 << 32, 1 << 63, (-(1i64 << 32)) as u64, 0xdead_beef_0000_0000][(rng.next() % 4) as usize].to_le_bytes().to_vec();
                close_after = false;
            }
            "body_invalid" => match code {
                24 => body[4..8].copy_from_slice(&0u32.to_le_bytes()), // config size 0 with payload
                31 => {
                    body[16] = 0;
                    body[17] = 0
                } // num_queues 0
                6 => body[0..8].copy_from_slice(&0u64.to_le_bytes()), // log size 0
                17 => body = 0x8001u64.to_le_bytes().to_vec(),    // more than VHOST_USER_MAX_VRINGS
                42 => body = 0x101u64.to_le_bytes().to_vec(),
                43 => body = 1u64.to_le_bytes().to_vec(),
                _ => {}
            },
            "config_offset" => {
                if code == 24 {
                    let o = le32(&body, 0) ^ 0x100;
                    body[0..4].copy_from_slice(&o.to_le_bytes());
                }
            }
            "random" => {
                let n = rng.below(64) as usize;
                body = (0..n).map(|_| rng.next() as u8).collect();
                rcode = rng.next() as u32;
                rflags = rng.next() as u32;
                size = rng.next() as u32;
            }
            _ => {}
        }
        let mut bytes = Vec::new();
        p32(&mut bytes, rcode);
        p32(&mut bytes, rflags);
        p32(&mut bytes, size);
        bytes.extend_from_slice(&body);
        let fds: Vec<i32> = files.iter().map(|f| f.as_raw_fd()).collect();
        let ids: Vec<String> = fds.iter().map(|f| fd_id(*f)).collect();
        // offsets given by the case: n >= 0 as is, -1 = middle of the message, -2 = its last byte
        let pos = |x: i64| -> usize {
            match x {
                -1 => bytes.len() / 2,
                -2 => bytes.len() - 1,
                n => n as usize,
            }
        };
        let mut applied = behaviour.to_string();
        match behaviour {
            "cut" => {
                // C08: the stream ends inside the (correct) reply
                let at = pos(step["at"].as_i64().unwrap_or(0));
                if at < bytes.len() {
                    if at > 0 {
                        let _ = raw_send_all(&self.sock, &bytes[..at], &fds);
                    }
                    let _ = self.sock.shutdown(std::net::Shutdown::Write);
                } else {
                    applied = "cut_beyond".into();
                    let _ = raw_send_all(&self.sock, &bytes, &fds);
                    let _ = self.sock.shutdown(std::net::Shutdown::Write);
                }
            }
            "fds+1_seg" | "fds_late" => {
                // the reply arrives as header | rest in two segments; "fds+1_seg": a surplus descriptor rides on the first
                // segment, "fds_late": the reply's own descriptors ride on the second one (not on the message's first byte)
                let cut = 12.min(bytes.len() - 1).max(1);
                let late = behaviour == "fds_late";
                let _ = raw_send_all(&self.sock, &bytes[..cut], if late { &[] } else { &fds });
                let t0 = Instant::now();
                while fionread(fe_fd) > 0 && t0.elapsed() < Duration::from_millis(500) {
                    std::thread::sleep(Duration::from_micros(20));
                }
                let _ = raw_send_all(&self.sock, &bytes[cut..], if late { &fds } else { &[] });
                let _ = self.sock.shutdown(std::net::Shutdown::Write);
            }
            "seg" => {
                // C08: the (correct) reply arrives in separate segments; the next one is written only after the
                // receiver has drained the previous one
                let mut cuts: Vec<usize> = step["segs"].as_array().map(|a| a.iter().map(|x| pos(x.as_i64().unwrap_or(0))).collect()).unwrap_or_default();
                cuts.retain(|c| *c > 0 && *c < bytes.len());
                cuts.sort();
                cuts.dedup();
                if cuts.is_empty() {
                    applied = "seg_none".into();
                }
                cuts.push(bytes.len());
                let mut from = 0;
                for (i, to) in cuts.iter().enumerate() {
                    let _ = raw_send_all(&self.sock, &bytes[from..*to], if i == 0 { &fds } else { &[] });
                    from = *to;
                    let t0 = Instant::now();
                    while fionread(fe_fd) > 0 && t0.elapsed() < Duration::from_millis(500) {
                        std::thread::sleep(Duration::from_micros(20));
                    }
                }
            }
            _ => {
                let _ = raw_send_all(&self.sock, &bytes, &fds);
                if close_after {
                    let _ = self.sock.shutdown(std::net::Shutdown::Write);
                }
            }
        }
        let enc = if behaviour != "auto" && behaviour != "seg" { json!({}) } else { match code {
            1 | 15 => json!({"v": limbs(rv)}),
            17 => json!({"v": limbs(2)}),
            36 => json!({"v": limbs(509)}),
            11 => json!({"v": limbs(9)}),
            24 => json!({"payload": hex(&body[12..])}),
            31 => json!({"mmap_size": limbs(0x3000), "mmap_offset": limbs(0x1000), "num_queues": 4, "queue_size": 64, "file": ids[0]}),
            41 => json!({"file": ids[0]}),
            42 => json!({"file": if ids.is_empty() { "none".to_string() } else { ids[0].clone() }}),
            44 => json!({"nregions": 2}),
            _ => json!({}),
        }};
        json!({"kind": if has_reply {"reply"} else {"ack"}, "enc": enc, "c": rcode, "flags": rflags, "size": size, "body": hex(&body),
               "fdids": ids, "nfds": fds.len(), "fill": fill, "applied": applied, "len": bytes.len()})
    }
}

pub fn run(cases: &[Value], trace: &mut Trace, seed: u64) {
    for (k, case) in cases.iter().enumerate() {
        let mut rng = Rng::new(seed ^ (k as u64).wrapping_mul(0x5555_1234));
        let watch = FdWatch::start();
        let (fsock, psock) = UnixStream::pair().unwrap();
        let fe = Frontend::from_stream(fsock, MAXQ);
        // taken now: Frontend::as_raw_fd() locks the endpoint, which a blocked call holds
        let fe_fd = fe.as_raw_fd();
        let mut peer = Peer {
            sock: psock,
            offered_pf: false,
            reply_ack: false,
            buf: Vec::new(),
            pending_fds: Vec::new(),
        };
        trace.emit(json!({"ev": "reset", "id": case["id"]}));
        for step in case["steps"].as_array().unwrap() {
            let op = step["op"].as_str().unwrap().to_string();
            if op == "set_hdr_flags" {
                let nr = step["nr"].as_bool().unwrap_or(false);
                fe.set_hdr_flags(if nr { VhostUserHeaderFlag::NEED_REPLY } else { VhostUserHeaderFlag::empty() });
                trace.emit(json!({"ev": "flags", "nr": nr}));
                continue;
            }
            let cls = step["cls"].as_str().unwrap_or("ok").to_string();
            let v = from_bits(&step["v"]);
            let rv = from_bits(&step["rv"]);
            let behaviour = step["peer"].as_str().unwrap_or("auto");
            if behaviour == "gone" {
                // the peer has gone before the call is made: the request cannot be sent
                let _ = peer.sock.shutdown(std::net::Shutdown::Both);
            }
            let (tx, rx) = channel();
            let mut fe2 = fe.clone();
            let (op2, cls2) = (op.clone(), cls.clone());
            let mut rng2 = Rng::new(rng.next());
            let call_tid = std::sync::Arc::new(std::sync::atomic::AtomicI32::new(0));
            let ct2 = call_tid.clone();
            let t = std::thread::spawn(move || {
                ct2.store(gettid(), std::sync::atomic::Ordering::SeqCst);
                let r = std::panic::catch_unwind(std::panic::AssertUnwindSafe(|| call_op(&mut fe2, &op2, &cls2, v, &mut rng2)));
                let _ = tx.send(r.ok());
            });
            let t0 = Instant::now();
            let mut wire: Vec<Value> = Vec::new();
            let mut answers: Vec<Value> = Vec::new();
            let mut chunks_all: Vec<(Vec<u8>, Vec<i32>)> = Vec::new();
            let mut consumed_msgs = 0usize;
            let mut out = None;
            let mut hang = false;
            let mut done = false;
            loop {
                if !done {
                    match rx.recv_timeout(Duration::from_micros(200)) {
                        Ok(o) => {
                            out = o;
                            done = true;
                        }
                        Err(_) => {}
                    }
                }
                let (chunks, _eof) = raw_drain(&peer.sock);
                let got = !chunks.is_empty();
                chunks_all.extend(chunks);
                if got || done {
                    let (msgs, _left) = split_messages(&chunks_all);
                    while consumed_msgs < msgs.len() {
                        let m = msgs[consumed_msgs].clone();
                        consumed_msgs += 1;
                        if !done {
                            answers.push(peer.answer(&m, behaviour, rv, &mut rng, step, fe_fd));
                        } else {
                            // fire-and-forget requests: an independent backend would still answer by
                            // its own rules; keep the bookkeeping but answer only in "auto" mode
                            answers.push(peer.answer(&m, if behaviour == "auto" || behaviour == "seg" { "auto" } else { "silent" }, rv, &mut rng, step, fe_fd));
                        }
                    }
                    wire = msgs;
                }
                if done {
                    break;
                }
                // "never returns": the watchdog has expired and the caller is seen asleep in a blocking call with nothing left to
                // read on its socket (this peer has answered all it is going to answer) -- not merely a slow machine
                if t0.elapsed() > Duration::from_millis(2000) && hang_confirmed(t0, &[call_tid.load(std::sync::atomic::Ordering::SeqCst)], &[fe_fd]) {
                    hang = true;
                    let _ = peer.sock.shutdown(std::net::Shutdown::Both);
                    out = rx.recv_timeout(Duration::from_millis(5000)).ok().flatten();
                    break;
                }
            }
            // a call that never returns even after its socket was shut down (e.g. a self-deadlock) must not take the
            // harness with it: the thread is left behind and the call is recorded as hung
            if !hang || out.is_some() || t.is_finished() {
                let _ = t.join();
            }
            let (_, leftover) = split_messages(&chunks_all);
            let fd_first = wire.iter().all(|m| m["fd_first"].as_bool().unwrap_or(true));
            close_chunk_fds(&chunks_all);
            let stray_in = fionread(fe.as_raw_fd());
            let (res, ret, args, fdids, lent_ok) = match out {
                Some(o) => (o.res, o.ret, o.args, o.fdids, o.lent_ok),
                None => ((if hang { "stuck" } else { "panic" }).to_string(), json!({}), json!({}), vec![], true),
            };
            let dead = (behaviour != "auto" && behaviour != "seg") || hang;
            trace.emit(json!({"ev": "call", "op": op, "cls": cls, "v": bits(v), "rv": bits(rv), "peer": behaviour,
                "res": res, "ret": ret, "args": args, "fdids": fdids, "lent_ok": lent_ok, "hang": hang,
                "wire": wire, "nwire": wire.len(), "wire_leftover": leftover, "fd_first": fd_first,
                "answers": answers, "stray_in": stray_in,
                "at": step["at"].as_i64().unwrap_or(-9), "segs": if step["segs"].is_array() { step["segs"].clone() } else { json!([]) }}));
            if dead {
                break;
            }
        }
        drop(fe);
        drop(peer);
        trace.emit(watch.finish());
    }
}
