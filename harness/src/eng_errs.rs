//! Engine "errs": classification of socket faults by the vhost-user endpoints (FaultClass.tla, X05).
//!
//! Cases: {"t":"errno","e":n} | {"t":"kind","k":name} | {"t":"stream","side":"frontend"|"server","fault":"eof"|"reset"|"closed_before","got":k}

use crate::common::*;
use serde_json::{json, Value};
use std::io::Write;
use std::os::unix::io::AsRawFd;
use std::os::unix::net::UnixStream;
use std::sync::{Arc, Mutex};
use std::time::{Duration, Instant};
use vhost::vhost_user::message::{VhostUserProtocolFeatures, VhostUserVirtioFeatures};
use vhost::vhost_user::{BackendReqHandler, Error, Frontend};
use vhost::VhostBackend;

fn inner_errno(e: &Error) -> i64 {
    match e {
        Error::SocketConnect(x) | Error::SocketError(x) | Error::SocketBroken(x) | Error::SocketRetry(x) | Error::ReqHandlerError(x) => x.raw_os_error().map(|v| v as i64).unwrap_or(-1),
        _ => -1,
    }
}

fn by_name(k: &str) -> Option<Error> {
    let io = || std::io::Error::from_raw_os_error(5);
    Some(match k {
        "InvalidParam" => Error::InvalidParam,
        "InvalidOperation" => Error::InvalidOperation("x"),
        "InactiveFeature" => Error::InactiveFeature(VhostUserVirtioFeatures::PROTOCOL_FEATURES),
        "InactiveOperation" => Error::InactiveOperation(VhostUserProtocolFeatures::MQ),
        "InvalidMessage" => Error::InvalidMessage,
        "PartialMessage" => Error::PartialMessage,
        "Disconnected" => Error::Disconnected,
        "OversizedMsg" => Error::OversizedMsg,
        "IncorrectFds" => Error::IncorrectFds,
        "SocketConnect" => Error::SocketConnect(io()),
        "SocketError" => Error::SocketError(io()),
        "SocketBroken" => Error::SocketBroken(io()),
        "SocketRetry" => Error::SocketRetry(io()),
        "BackendInternalError" => Error::BackendInternalError,
        "FrontendInternalError" => Error::FrontendInternalError,
        "FeatureMismatch" => Error::FeatureMismatch,
        "ReqHandlerError" => Error::ReqHandlerError(io()),
        "MemFdCreateError" => Error::MemFdCreateError,
        "FileTruncateError" => Error::FileTruncateError,
        "MemFdSealError" => Error::MemFdSealError,
        _ => return None,
    })
}

fn wait_readable(s: &UnixStream, n: i32) -> bool {
    let t0 = Instant::now();
    while fionread(s.as_raw_fd()) < n {
        if t0.elapsed() > Duration::from_secs(5) {
            return false;
        }
        std::thread::sleep(Duration::from_micros(50));
    }
    true
}

fn reply20() -> Vec<u8> {
    let mut b = Vec::new();
    b.extend_from_slice(&1u32.to_le_bytes());
    b.extend_from_slice(&5u32.to_le_bytes());
    b.extend_from_slice(&8u32.to_le_bytes());
    b.extend_from_slice(&0x1234u64.to_le_bytes());
    b
}
fn request20() -> Vec<u8> {
    let mut b = Vec::new();
    b.extend_from_slice(&2u32.to_le_bytes());
    b.extend_from_slice(&1u32.to_le_bytes());
    b.extend_from_slice(&8u32.to_le_bytes());
    b.extend_from_slice(&0u64.to_le_bytes());
    b
}

fn classify(e: &Error) -> (String, bool) {
    (errkind(e), e.should_reconnect())
}

fn stream_case(side: &str, fault: &str, got: usize) -> (String, bool) {
    let (a, mut b) = UnixStream::pair().unwrap();
    if side == "frontend" {
        let fe = Frontend::from_stream(a, 2);
        if fault == "closed_before" {
            drop(b);
            return match fe.get_features() {
                Err(vhost::Error::VhostUserProtocol(e)) => classify(&e),
                Err(e) => (format!("other:{}", errkind(&e)), false),
                Ok(_) => ("ok".into(), false),
            };
        }
        let h = std::thread::spawn(move || fe.get_features());
        let seen = wait_readable(&b, 12);
        if fault == "eof" && seen {
            let mut req = [0u8; 12];
            let _ = raw_recv(&b, &mut req, 0);
            let _ = b.write_all(&reply20()[..got]);
        }
        // "reset": the request stays unread
        drop(b);
        match h.join() {
            Ok(Err(vhost::Error::VhostUserProtocol(e))) => classify(&e),
            Ok(Err(e)) => (format!("other:{}", errkind(&e)), false),
            Ok(Ok(_)) => ("ok".into(), false),
            Err(_) => ("panic".into(), false),
        }
    } else {
        let backend = Arc::new(Mutex::new(crate::rec::CoreMut(crate::rec::Core::new())));
        let mut srv = BackendReqHandler::from_stream(a, backend);
        if fault == "reset" {
            // one answered request whose reply the peer never reads, then the peer goes away
            let mut req = Vec::new();
            req.extend_from_slice(&1u32.to_le_bytes());
            req.extend_from_slice(&1u32.to_le_bytes());
            req.extend_from_slice(&0u32.to_le_bytes());
            let _ = b.write_all(&req);
            let first = srv.handle_request();
            if first.is_err() {
                return ("setup-failed".into(), false);
            }
            drop(b);
        } else {
            let _ = b.write_all(&request20()[..got]);
            drop(b);
        }
        match srv.handle_request() {
            Err(e) => classify(&e),
            Ok(_) => ("ok".into(), false),
        }
    }
}

pub fn run(cases: &[Value], trace: &mut Trace, _seed: u64) {
    for c in cases {
        let t = c["t"].as_str().unwrap_or("");
        let mut ev = c.clone();
        ev["ev"] = json!("class");
        match t {
            "errno" => {
                let e = c["e"].as_i64().unwrap() as i32;
                let err: Error = vmm_sys_util::errno::Error::new(e).into();
                let (k, r) = classify(&err);
                ev["kind"] = json!(k);
                ev["reconnect"] = json!(r);
                ev["inner"] = json!(inner_errno(&err));
            }
            "kind" => {
                let k = c["k"].as_str().unwrap();
                match by_name(k) {
                    Some(err) => {
                        let (kk, r) = classify(&err);
                        ev["kind"] = json!(kk);
                        ev["reconnect"] = json!(r);
                    }
                    None => {
                        ev["kind"] = json!("unknown-to-the-harness");
                        ev["reconnect"] = json!(false);
                    }
                }
            }
            "stream" => {
                let got = c["got"].as_u64().unwrap_or(0) as usize;
                let r = std::panic::catch_unwind(|| stream_case(c["side"].as_str().unwrap(), c["fault"].as_str().unwrap(), got));
                let (k, rc) = r.unwrap_or(("panic".into(), false));
                ev["kind"] = json!(k);
                ev["reconnect"] = json!(rc);
            }
            _ => {}
        }
        trace.emit(ev);
    }
}
