//! Engine "valid": evaluates the crate's validity predicates on given / random field values.
//! Case: {"t": type, "m": {field: limbs..}}; trace: {"ev":"val","t","m","valid"}.

use crate::common::*;
use serde_json::{json, Value};
use vhost::vhost_user::message::*;
use vm_memory::ByteValued;

fn limbs_bytes(v: &Value, nbytes: usize) -> Vec<u8> {
    let mut out = Vec::new();
    match v {
        Value::Array(a) => {
            for x in a {
                let l = x.as_u64().unwrap() as u16;
                out.extend_from_slice(&l.to_le_bytes());
            }
        }
        Value::Number(n) => out.extend_from_slice(&n.as_u64().unwrap().to_le_bytes()),
        _ => panic!("bad field"),
    }
    out.resize(nbytes, 0);
    out
}

fn check<T: ByteValued + Default + VhostUserMsgValidator>(bytes: &[u8]) -> bool {
    let mut t = T::default();
    t.as_mut_slice().copy_from_slice(bytes);
    t.is_valid()
}

pub fn eval(t: &str, m: &Value, rng: &mut Rng) -> bool {
    let f = |name: &str, n: usize| limbs_bytes(&m[name], n);
    let mut b: Vec<u8> = Vec::new();
    match t {
        "hdr_fe" | "hdr_be" | "hdr_gpu" => {
            b.extend(f("code", 4));
            b.extend(f("flags", 4));
            b.extend(f("size", 4));
            let ch = match t {
                "hdr_fe" => 0,
                "hdr_be" => 1,
                _ => 2,
            };
            vhost::vhost_user::verif_hdr_is_valid(ch, b.try_into().unwrap())
        }
        "u64" | "vring_state" | "gpu_edid_req" | "gpu_cursor_pos" | "gpu_scanout" | "gpu_update" => {
            for w in m["w"].as_array().unwrap() {
                b.extend(limbs_bytes(w, 4));
            }
            match t {
                "u64" => check::<VhostUserU64>(&b),
                "vring_state" => check::<VhostUserVringState>(&b),
                "gpu_edid_req" => check::<vhost::vhost_user::gpu_message::VhostUserGpuEdidRequest>(&b),
                "gpu_cursor_pos" => check::<vhost::vhost_user::gpu_message::VhostUserGpuCursorPos>(&b),
                "gpu_scanout" => check::<vhost::vhost_user::gpu_message::VhostUserGpuScanout>(&b),
                _ => check::<vhost::vhost_user::gpu_message::VhostUserGpuUpdate>(&b),
            }
        }
        "memory" => {
            b.extend(f("n", 4));
            b.extend(f("padding", 4));
            check::<VhostUserMemory>(&b)
        }
        "region" | "single_region" => {
            if t == "single_region" {
                // the padding word of the single-region message is not covered by the rules
                let pad: u64 = if rng.bool() { 0 } else { rng.next() };
                b.extend_from_slice(&pad.to_le_bytes());
            }
            b.extend(f("gpa", 8));
            b.extend(f("size", 8));
            b.extend(f("ua", 8));
            b.extend(f("off", 8));
            if t == "region" {
                check::<VhostUserMemoryRegion>(&b)
            } else {
                check::<VhostUserSingleMemoryRegion>(&b)
            }
        }
        "vring_addr" => {
            b.extend_from_slice(&(rng.next() as u32).to_le_bytes());
            b.extend(f("flags", 4));
            b.extend(f("desc", 8));
            b.extend(f("used", 8));
            b.extend(f("avail", 8));
            b.extend_from_slice(&rng.next().to_le_bytes());
            check::<VhostUserVringAddr>(&b)
        }
        "config" => {
            b.extend(f("offset", 4));
            b.extend(f("size", 4));
            b.extend(f("flags", 4));
            check::<VhostUserConfig>(&b)
        }
        "inflight" => {
            b.extend(f("msize", 8));
            b.extend(f("moff", 8));
            b.extend(f("nq", 2));
            b.extend(f("qs", 2));
            b.extend_from_slice(&(rng.next() as u32).to_le_bytes());
            check::<VhostUserInflight>(&b)
        }
        "log" => {
            b.extend(f("size", 8));
            b.extend(f("off", 8));
            check::<VhostUserLog>(&b)
        }
        "dev_state" => {
            b.extend(f("dir", 4));
            b.extend(f("phase", 4));
            check::<VhostUserTransferDeviceState>(&b)
        }
        "uuid" => {
            b.extend(f("u", 16));
            check::<VhostUserSharedMsg>(&b)
        }
        "mmap" => {
            b.push(m["shmid"].as_u64().unwrap() as u8);
            for _ in 0..7 {
                b.push(if rng.bool() { 0 } else { rng.next() as u8 });
            }
            b.extend(f("fdoff", 8));
            b.extend(f("shmoff", 8));
            b.extend(f("len", 8));
            b.extend(f("flags", 8));
            check::<VhostUserMMap>(&b)
        }
        _ => panic!("unknown type {t}"),
    }
}

fn l2(x: u32) -> Value {
    json!([x & 0xffff, x >> 16])
}
fn r32(rng: &mut Rng) -> u32 {
    match rng.below(4) {
        0 => rng.below(64) as u32,
        1 => rng.u64_edge() as u32,
        2 => 1 << rng.below(32),
        _ => rng.next() as u32,
    }
}

/// A random instance of message type t (biased towards boundaries).
pub fn random_msg(t: &str, rng: &mut Rng) -> Value {
    let e = |rng: &mut Rng| limbs(rng.u64_edge());
    match t {
        "hdr_fe" | "hdr_be" | "hdr_gpu" => {
            let flags = if rng.bool() { (rng.below(16) as u32) | if rng.below(4) == 0 { 1 << rng.below(32) } else { 0 } } else { r32(rng) };
            let size = if rng.bool() { rng.below(4200) as u32 } else { r32(rng) };
            json!({"code": l2(if rng.bool() { rng.below(50) as u32 } else { r32(rng) }), "flags": l2(flags), "size": l2(size)})
        }
        "u64" => json!({"w": [l2(r32(rng)), l2(r32(rng))]}),
        "vring_state" => json!({"w": [l2(r32(rng)), l2(r32(rng))]}),
        "gpu_edid_req" => json!({"w": [l2(r32(rng))]}),
        "gpu_cursor_pos" | "gpu_scanout" => json!({"w": [l2(r32(rng)), l2(r32(rng)), l2(r32(rng))]}),
        "gpu_update" => json!({"w": [l2(r32(rng)), l2(r32(rng)), l2(r32(rng)), l2(r32(rng)), l2(r32(rng))]}),
        "memory" => json!({"n": l2(if rng.bool() { rng.below(40) as u32 } else { r32(rng) }), "padding": l2(if rng.bool() { 0 } else { r32(rng) })}),
        "region" | "single_region" => {
            // correlated values around the wrap boundary
            let size = rng.u64_edge();
            let near = |rng: &mut Rng| -> u64 {
                match rng.below(3) {
                    0 => (0u64).wrapping_sub(size).wrapping_add(rng.below(3)).wrapping_sub(1),
                    1 => rng.u64_edge(),
                    _ => rng.next() % (u64::MAX - size).max(1),
                }
            };
            json!({"gpa": limbs(near(rng)), "size": limbs(size), "ua": limbs(near(rng)), "off": limbs(near(rng))})
        }
        "vring_addr" => json!({"flags": l2(if rng.bool() { rng.below(2) as u32 } else { r32(rng) }),
            "desc": limbs(rng.u64_edge() & !(if rng.bool() { 0xf } else { 0 })), "avail": limbs(rng.u64_edge() & !(rng.below(2))),
            "used": limbs(rng.u64_edge() & !(if rng.bool() { 3 } else { 0 }))}),
        "config" => {
            let size = if rng.bool() { rng.below(0x1100) as u32 } else { r32(rng) };
            let off = match rng.below(3) {
                0 => (0x1000u32).wrapping_sub(size).wrapping_add(rng.below(3) as u32).wrapping_sub(1),
                1 => rng.below(0x1100) as u32,
                _ => r32(rng),
            };
            json!({"offset": l2(off), "size": l2(size), "flags": l2(if rng.bool() { rng.below(4) as u32 } else { r32(rng) })})
        }
        "inflight" => json!({"nq": rng.below(3) * rng.below(32768), "qs": rng.below(3) * rng.below(32768), "msize": e(rng), "moff": e(rng)}),
        "log" => {
            let size = rng.u64_edge();
            let off = if rng.bool() { (0u64).wrapping_sub(size).wrapping_add(rng.below(3)).wrapping_sub(1) } else { rng.u64_edge() };
            json!({"size": limbs(size), "off": limbs(off)})
        }
        "dev_state" => json!({"dir": l2(if rng.bool() { rng.below(3) as u32 } else { r32(rng) }), "phase": l2(if rng.bool() { rng.below(2) as u32 } else { r32(rng) })}),
        "uuid" => {
            let fill = *rng.pick(&[0u64, 0xffff, 0x1234]);
            let v: Vec<u64> = (0..8).map(|_| if rng.below(6) == 0 { rng.below(65536) } else { fill }).collect();
            json!({"u": v})
        }
        _ => {
            let len = rng.u64_edge();
            let near = |rng: &mut Rng| -> u64 { if rng.bool() { (0u64).wrapping_sub(len).wrapping_add(rng.below(3)).wrapping_sub(1) } else { rng.u64_edge() } };
            json!({"len": limbs(len), "fdoff": limbs(near(rng)), "shmoff": limbs(near(rng)),
                   "flags": limbs(if rng.bool() { rng.below(2) } else { rng.u64_edge() }), "shmid": rng.below(256)})
        }
    }
}

pub const TYPES: [&str; 19] = ["u64", "vring_state", "gpu_edid_req", "gpu_cursor_pos", "gpu_scanout", "gpu_update", "hdr_fe", "hdr_be", "hdr_gpu", "memory", "region", "single_region", "vring_addr", "config",
    "inflight", "log", "dev_state", "uuid", "mmap"];

pub fn run(cases: &[Value], trace: &mut Trace, seed: u64, nrandom: usize) {
    let mut rng = Rng::new(seed);
    let mut i = 0u64;
    for c in cases {
        if i % 5000 == 0 {
            trace.emit(json!({"ev": "reset", "id": i}));
        }
        let t = c["t"].as_str().unwrap();
        // a panic of the validator (e.g. arithmetic overflow in a debug build) is data
        let r = std::panic::catch_unwind(std::panic::AssertUnwindSafe(|| eval(t, &c["m"], &mut rng)));
        trace.emit(json!({"ev": "val", "i": i, "t": t, "m": c["m"], "valid": r.as_ref().copied().unwrap_or(false), "panicked": r.is_err(), "src": "lattice"}));
        i += 1;
    }
    for k in 0..nrandom {
        if i % 5000 == 0 {
            trace.emit(json!({"ev": "reset", "id": i}));
        }
        let t = TYPES[k % TYPES.len()];
        let m = random_msg(t, &mut rng);
        let r = std::panic::catch_unwind(std::panic::AssertUnwindSafe(|| eval(t, &m, &mut rng)));
        trace.emit(json!({"ev": "val", "i": i, "t": t, "m": m, "valid": r.as_ref().copied().unwrap_or(false), "panicked": r.is_err(), "src": "random"}));
        i += 1;
    }
}
