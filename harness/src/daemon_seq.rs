//! Sequential letters of the daemon engine (C11, C13, C14, C15, C17, daemon part of C05).

use crate::common::*;
use crate::eng_daemon::*;
use serde_json::{json, Value};
use std::fs::File;
use std::os::unix::io::{AsRawFd, FromRawFd};
use vhost_user_backend::VringT;
use vmm_sys_util::eventfd::EventFd;

struct PoolRegion {
    gpa: u64,
    size: u64,
    ua: u64,
    off: u64,
    file: File,
}

/// (new bits, some bit cleared, guard bytes intact) of the dirty log since `before`; clears the window afterwards
fn log_diff(guard: &Option<(File, u64, u64, u64)>, before: &Option<Vec<u8>>) -> (Vec<u64>, bool, bool) {
    let mut newbits: Vec<u64> = Vec::new();
    let mut cleared = false;
    let mut guard_ok = true;
    if let (Some((f, off, size, total)), Some(before)) = (guard.as_ref(), before.as_ref()) {
        let after = file_read_at(f, *off, *size as usize);
        for (i, (a, b)) in after.iter().zip(before.iter()).enumerate() {
            if a != b {
                for bit in 0..8 {
                    if (a >> bit) & 1 == 1 && (b >> bit) & 1 == 0 {
                        newbits.push(i as u64 * 8 + bit);
                    }
                    if (a >> bit) & 1 == 0 && (b >> bit) & 1 == 1 {
                        cleared = true;
                    }
                }
            }
        }
        let g1 = file_read_at(f, 0, *off as usize);
        let g2 = file_read_at(f, off + size, (*total - off - size) as usize);
        guard_ok = g1.iter().all(|x| *x == 0xAA) && g2.iter().all(|x| *x == 0xAA);
        file_write_at(f, *off, &vec![0u8; *size as usize]);
    }
    (newbits, cleared, guard_ok)
}
fn log_snapshot(guard: &Option<(File, u64, u64, u64)>) -> Option<Vec<u8>> {
    guard.as_ref().map(|(f, off, size, _)| file_read_at(f, *off, (*size).min(1 << 16) as usize))
}

fn eventfd_count(e: &EventFd) -> u64 {
    e.read().unwrap_or(0)
}

pub fn run_case<V: VringT<GM> + Clone + Send + Sync + 'static>(case: &Value, trace: &mut Trace, rng: &mut Rng) {
    let cfg = cfg_of(case);
    let adapter = case["adapter"].as_str().unwrap_or("arc");
    let nq = cfg.nq;
    let mut rig = make_rig::<V>(cfg.clone(), adapter);
    // region pool
    let mut pool: Vec<PoolRegion> = Vec::new();
    if let Some(p) = case["pool"].as_array() {
        for r in p {
            let (gpa, size, ua, off) = (from_limbs(&r["gpa"]), from_limbs(&r["size"]), from_limbs(&r["ua"]), from_limbs(&r["off"]));
            let file = memfd("guestmem", off + size);
            // distinct fill per region so that a wrong backing file is visible
            let fill: Vec<u8> = (0..(off + size) as usize).map(|i| (i as u8) ^ (pool.len() as u8 * 37 + 11)).collect();
            file_write_at(&file, 0, &fill);
            pool.push(PoolRegion { gpa, size, ua, off, file });
        }
    }
    trace.emit(json!({"ev": "reset", "id": case["id"], "nq": nq, "maxq": cfg.maxq, "masks": cfg.masks, "features": bits(cfg.features),
        "pf": bits(cfg.pf), "vring": case["vring"].as_str().unwrap_or("rwlock"), "adapter": adapter, "level": case["level"].as_str().unwrap_or("none"), "pool": if case["pool"].is_null() { json!([]) } else { case["pool"].clone() }, "exit": cfg.exit}));
    let mut log_guard: Option<(File, u64, u64, u64)> = None; // file, mmap_off, mmap_size, total
    if let Some(st) = case.get("stress") {
        // C15 race clause: n threads mark distinct pages whose bits share one log byte
        let n = st["threads"].as_u64().unwrap_or(8) as usize;
        let iters = st["iters"].as_u64().unwrap_or(10000);
        rig.negotiate(0, (1 << 1) | (1 << 3) | (1 << 15));
        let f = memfd("stressmem", 16 * 4096);
        let mut body = 1u32.to_le_bytes().to_vec();
        body.extend_from_slice(&0u32.to_le_bytes());
        for x in [0u64, 16 * 4096, 0x7000_0000, 0] {
            body.extend_from_slice(&x.to_le_bytes());
        }
        let s1 = rig.peer.request(5, &body, &[f.as_raw_fd()], false).status;
        let lf = memfd("stresslog", 4096);
        let mut lb = 4096u64.to_le_bytes().to_vec();
        lb.extend_from_slice(&0u64.to_le_bytes());
        let s2 = rig.peer.request(6, &lb, &[lf.as_raw_fd()], true).status;
        let gm = rig.tb.mem.lock().unwrap().clone();
        let mut lost = 0u64;
        if let (Some(gm), true) = (gm, s1 == "ok" && s2 == "ok") {
            let bar = std::sync::Arc::new(std::sync::Barrier::new(n + 1));
            let stop = std::sync::Arc::new(std::sync::atomic::AtomicBool::new(false));
            let mut hs = Vec::new();
            for t in 0..n {
                let (gm, bar, stop) = (gm.clone(), bar.clone(), stop.clone());
                hs.push(std::thread::spawn(move || loop {
                    bar.wait();
                    if stop.load(std::sync::atomic::Ordering::SeqCst) {
                        break;
                    }
                    let _ = write_guest(&gm, (t as u64) * 4096 + 7, &[1u8]);
                    bar.wait();
                }));
            }
            let want: u16 = if n >= 16 { 0xffff } else { (1u16 << n) - 1 };
            for _ in 0..iters {
                file_write_at(&lf, 0, &[0u8, 0u8]);
                bar.wait();
                bar.wait();
                let b = file_read_at(&lf, 0, 2);
                if u16::from_le_bytes([b[0], b[1]]) != want {
                    lost += 1;
                }
            }
            stop.store(true, std::sync::atomic::Ordering::SeqCst);
            bar.wait();
            for h in hs {
                let _ = h.join();
            }
        }
        trace.emit(json!({"ev": "stress", "threads": n, "iters": iters, "lost": lost, "setup": format!("{s1}/{s2}")}));
    }
    let mut listeners: Vec<std::sync::Arc<EventFd>> = Vec::new();
    let mut listener_meta: Vec<(usize, u64)> = Vec::new();
    // C09, daemon part: (identity, number of copies the test itself keeps, what keeps the other side alive) of every descriptor sent for a ring slot
    let mut tokens: Vec<(String, usize, Vec<File>)> = Vec::new();
    let mut sentkinds: Vec<String> = Vec::new();
    let mut closed = false;
    let mut ntimeouts = 0;
    // buffer handles resolved through the guest-memory interface right after each accepted table update and kept (what an
    // in-flight request of a device does): (pool region, guard keeping the mapping alive, slice over the whole region)
    let mut held_slices: Vec<HeldSlice> = Vec::new();
    for step in case["steps"].as_array().unwrap() {
        let op = step["op"].as_str().unwrap();
        // letters that act through the memory handle the backend was given, not through the connection
        let offline_ok = matches!(op, "write" | "probe_mem" | "probe_addr");
        if closed && op != "reconnect" && !offline_ok {
            // the daemon has ended the connection: nothing can be sent until the case reconnects
            continue;
        }
        if !offline_ok {
            closed = false;
        }
        if trace.autoflush {
            trace.emit(json!({"ev": "begin", "op": op, "hk": step["hk"].as_str().unwrap_or(op), "why": step["why"].as_str().unwrap_or("")}));
        }
        let q = step["q"].as_u64().unwrap_or(0) as usize;
        rig.log.take();
        let mut out = json!({});
        let status: String;
        match op {
            "reconnect" => {
                status = if rig.reconnect() { "ok".into() } else { "failed".into() };
            }
            "negotiate" => {
                out = rig.negotiate(from_bits(&step["feats"]), from_bits(&step["pf"]));
                status = if out["set_features"] == "timeout" { "timeout".into() } else { "ok".into() };
            }
            "set_features" => {
                status = rig.peer.request(2, &u64b(from_bits(&step["bits"])), &[], false).status;
            }
            "set_protocol_features" => {
                let pf = from_bits(&step["bits"]);
                status = rig.peer.request(16, &u64b(pf), &[], false).status;
            }
            "set_vring_kick" | "set_vring_call" => {
                let code = if op == "set_vring_kick" { 12 } else { 13 };
                let which = step["fd"].as_str().unwrap_or("new");
                let store = if op == "set_vring_kick" { &mut rig.kicks } else { &mut rig.calls };
                match which {
                    "none" => {
                        status = rig.peer.request(code, &u64b(q as u64 | 0x100), &[], false).status;
                    }
                    "same" if q < store.len() && !store[q].is_empty() => {
                        let fd = store[q].last().unwrap().as_raw_fd();
                        status = rig.peer.request(code, &u64b(q as u64), &[fd], false).status;
                    }
                    _ => {
                        let e = new_eventfd();
                        let fd = e.as_raw_fd();
                        status = rig.peer.request(code, &u64b(q as u64), &[fd], false).status;
                        if q < store.len() {
                            store[q].push(e);
                        }
                    }
                }
            }
            "set_vring_enable" => {
                status = rig.peer.request(18, &state(q as u32, step["en"].as_bool().unwrap_or(true) as u32), &[], false).status;
            }
            "get_vring_base" => {
                let r = rig.peer.request(11, &state(q as u32, 0), &[], true);
                status = r.status;
                if r.body.len() == 8 {
                    out = json!({"index": le32(&r.body, 0), "num": limbs(le32(&r.body, 4) as u64)});
                }
            }
            "reset_device" => {
                status = rig.peer.request(34, &[], &[], false).status;
            }
            "set_vring_num" | "set_vring_base" => {
                let code = if op == "set_vring_num" { 8 } else { 10 };
                status = rig.peer.request(code, &state(q as u32, from_limbs(&step["n"]) as u32), &[], false).status;
            }
            "kick" => {
                let which = step["which"].as_str().unwrap_or("cur");
                if q < rig.kicks.len() && !rig.kicks[q].is_empty() {
                    let n = rig.kicks[q].len();
                    let idx = if which == "old" && n >= 2 { n - 2 } else { n - 1 };
                    let _ = rig.kicks[q][idx].write(1);
                    status = "ok".into();
                    out = json!({"obj": idx});
                } else {
                    status = "nofd".into();
                }
            }
            "set_mem_table" | "add_mem_reg" | "rem_mem_reg" => {
                let rids: Vec<usize> = if op == "set_mem_table" {
                    step["rids"].as_array().unwrap().iter().map(|x| x.as_u64().unwrap() as usize).collect()
                } else {
                    vec![step["rid"].as_u64().unwrap() as usize]
                };
                let bad = step["badfd"].as_bool().unwrap_or(false);
                // the last region's descriptor is the pool file opened read-only (a shared writable mapping of it must fail)
                let rdonly = step["rdonly"].as_bool().unwrap_or(false);
                let mut ro_files: Vec<File> = Vec::new();
                let size_delta = step["size_delta"].as_i64().unwrap_or(0);
                let mut body = Vec::new();
                let mut fds = Vec::new();
                let badsock = std::os::unix::net::UnixStream::pair().unwrap();
                if op == "set_mem_table" {
                    body.extend_from_slice(&(rids.len() as u32).to_le_bytes());
                    body.extend_from_slice(&0u32.to_le_bytes());
                } else {
                    body.extend_from_slice(&0u64.to_le_bytes());
                }
                for (i, rid) in rids.iter().enumerate() {
                    let r = &pool[*rid];
                    body.extend_from_slice(&r.gpa.to_le_bytes());
                    body.extend_from_slice(&((r.size as i64 + size_delta) as u64).to_le_bytes());
                    let ua = if op == "rem_mem_reg" && step["ua_zero"].as_bool() == Some(true) { 0u64 } else { r.ua };
                    body.extend_from_slice(&ua.to_le_bytes());
                    body.extend_from_slice(&r.off.to_le_bytes());
                    if op != "rem_mem_reg" {
                        if rdonly && !bad && i == rids.len() - 1 {
                            if let Ok(f) = std::fs::OpenOptions::new().read(true).open(format!("/proc/self/fd/{}", r.file.as_raw_fd())) {
                                ro_files.push(f);
                            }
                        }
                        fds.push(if bad && i == rids.len() - 1 {
                            badsock.0.as_raw_fd()
                        } else if let (true, Some(f)) = (rdonly && i == rids.len() - 1, ro_files.last()) {
                            f.as_raw_fd()
                        } else {
                            r.file.as_raw_fd()
                        });
                    }
                }
                let code = match op {
                    "set_mem_table" => 5,
                    "add_mem_reg" => 37,
                    _ => 38,
                };
                status = rig.peer.request(code, &body, &fds, false).status;
                held_slices.clear();
                if status == "ok" {
                    if let Some(g) = rig.tb.mem.lock().unwrap().clone() {
                        for (rid, r) in pool.iter().enumerate() {
                            if let Some(h) = HeldSlice::take(&g, rid, r.gpa, r.size as usize) {
                                held_slices.push(h);
                            }
                        }
                    }
                }
            }
            "set_vring_addr" => {
                let rid = step["rid"].as_u64().unwrap_or(0) as usize;
                let (od, oa, ou) = (from_limbs(&step["odesc"]), from_limbs(&step["oavail"]), from_limbs(&step["oused"]));
                let base = if rid < pool.len() { pool[rid].ua } else { 0 };
                // the used / available ring may live in another region than the descriptor table ("rid_u", "rid_a")
                let base_of = |key: &str| -> u64 {
                    match step.get(key).and_then(|x| x.as_u64()) {
                        Some(r) if (r as usize) < pool.len() => pool[r as usize].ua,
                        _ => base,
                    }
                };
                let mut body = Vec::new();
                body.extend_from_slice(&(q as u32).to_le_bytes());
                body.extend_from_slice(&0u32.to_le_bytes());
                body.extend_from_slice(&base.wrapping_add(od).to_le_bytes());
                body.extend_from_slice(&base_of("rid_u").wrapping_add(ou).to_le_bytes());
                body.extend_from_slice(&base_of("rid_a").wrapping_add(oa).to_le_bytes());
                body.extend_from_slice(&0u64.to_le_bytes());
                // the used index currently in guest memory (chosen by the case) is written through the file
                if let Some(ui) = step.get("used_idx").and_then(|x| x.as_u64()) {
                    if rid < pool.len() && ou + 4 <= pool[rid].size {
                        file_write_at(&pool[rid].file, pool[rid].off + ou + 2, &(ui as u16).to_le_bytes());
                    }
                }
                status = rig.peer.request(9, &body, &[], false).status;
            }
            "probe_mem" => {
                // bytes written through the file must be visible through the backend's guest memory at the same
                // guest address, and vice versa
                let rid = step["rid"].as_u64().unwrap() as usize;
                let o = from_limbs(&step["o"]);
                let r = &pool[rid];
                let pat: Vec<u8> = (0..8).map(|_| rng.next() as u8).collect();
                let gm = rig.tb.mem.lock().unwrap().clone();
                let mut f2g = "nomem".to_string();
                let mut g2f = "nomem".to_string();
                if let Some(gm) = gm {
                    file_write_at(&r.file, r.off + o, &pat);
                    f2g = match read_guest(&gm, r.gpa.wrapping_add(o), 8) {
                        None => "unmapped".into(),
                        Some(b) if b == pat => "same".into(),
                        Some(_) => "differs".into(),
                    };
                    let pat2: Vec<u8> = pat.iter().map(|x| x ^ 0xff).collect();
                    if write_guest(&gm, r.gpa.wrapping_add(o), &pat2) {
                        g2f = if file_read_at(&r.file, r.off + o, 8) == pat2 { "same".into() } else { "differs".into() };
                    } else {
                        g2f = "unmapped".into();
                    }
                }
                out = json!({"f2g": f2g, "g2f": g2f});
                status = "ok".into();
            }
            "probe_addr" => {
                // is guest address gpa mapped at all in the backend's view?
                let gpa = from_limbs(&step["gpa"]);
                let gm = rig.tb.mem.lock().unwrap().clone();
                let mapped = gm.map(|g| read_guest(&g, gpa, 1).is_some()).unwrap_or(false);
                out = json!({"mapped": mapped});
                status = "ok".into();
            }
            "use_ring" => {
                // the backend adds a used element and signals, on the next dispatch of ring q
                let idx = step["idx"].as_u64().unwrap_or(1) as u16;
                let len = step["len"].as_u64().unwrap_or(16) as u32;
                let ou0 = from_limbs(&step["oused"]);
                let before_files: Vec<Vec<u8>> = pool.iter().map(|r| if ou0 + 12 <= r.size { file_read_at(&r.file, r.off + ou0, 12) } else { vec![] }).collect();
                let log_before = log_snapshot(&log_guard);
                rig.tb.script.lock().unwrap().use_ring = Some((q, idx, len));
                for c in rig.calls[q].iter() {
                    let _ = c.read();
                }
                if let Some(k) = rig.kicks[q].last() {
                    let _ = k.write(1);
                }
                rig.quiesce();
                rig.tb.script.lock().unwrap().use_ring = None;
                let counts: Vec<u64> = rig.calls[q].iter().map(eventfd_count).collect();
                // used ring bytes as seen through every pool file at the given offset
                let ou = from_limbs(&step["oused"]);
                let by_file: Vec<Value> = pool.iter().map(|r| if ou + 12 <= r.size { bytes_json(&file_read_at(&r.file, r.off + ou, 12)) } else { json!([]) }).collect();
                let changed: Vec<usize> = pool.iter().enumerate().filter(|(i, r)| ou + 12 <= r.size && file_read_at(&r.file, r.off + ou, 12) != before_files[*i]).map(|(i, _)| i).collect();
                let (newbits, cleared, guard_ok) = log_diff(&log_guard, &log_before);
                out = json!({"call_counts": counts, "used_by_file": by_file, "changed_files": changed, "idx": idx, "len": len,
                    "newbits": newbits, "cleared": cleared, "guard_ok": guard_ok});
                status = "ok".into();
            }
            "set_log_base" => {
                let size = from_limbs(&step["size"]);
                let off = from_limbs(&step["off"]);
                let total = off + size + 0x2000;
                // `same`: the log that is in force is sent again (same file, offset, size) instead of a fresh one
                let reuse = step["same"].as_bool().unwrap_or(false) && matches!(&log_guard, Some((_, o, s, _)) if *o == off && *s == size);
                let f = if reuse {
                    log_guard.as_ref().unwrap().0.try_clone().unwrap()
                } else {
                    let f = memfd("dirtylog", total);
                    // guard bytes around the window
                    file_write_at(&f, 0, &vec![0xAAu8; off as usize]);
                    file_write_at(&f, off + size, &vec![0xAAu8; 0x2000]);
                    f
                };
                let mut body = size.to_le_bytes().to_vec();
                body.extend_from_slice(&off.to_le_bytes());
                let r = rig.peer.request(6, &body, &[f.as_raw_fd()], true);
                status = if r.status == "ok" && r.body.len() == 16 { "ok".into() } else { r.status };
                if status == "ok" {
                    log_guard = Some((f, off, size, total));
                }
            }
            "write" => {
                let rid = step["rid"].as_u64().unwrap() as usize;
                let o = from_limbs(&step["o"]);
                let len = from_limbs(&step["len"]) as usize;
                let gm = rig.tb.mem.lock().unwrap().clone();
                let gpa = pool[rid].gpa.wrapping_add(o);
                let before = log_snapshot(&log_guard);
                let mut write_panicked = false;
                let via_held = step["via_held"].as_bool().unwrap_or(false);
                let held = if via_held { held_slices.iter().find(|h| h.rid == rid) } else { None };
                let wrote = match (gm, held) {
                    (_, Some(h)) => {
                        // through the handle taken before (possibly before the log was installed)
                        let data = vec![0x5au8; len.min(1 << 22)];
                        match std::panic::catch_unwind(std::panic::AssertUnwindSafe(|| h.write(&data, o as usize))) {
                            Ok(n) => n,
                            Err(_) => {
                                write_panicked = true;
                                0
                            }
                        }
                    }
                    (Some(g), None) => {
                        let data = vec![0x5au8; len.min(1 << 22)];
                        // a write may be partial at the end of a region: use the Bytes::write semantics
                        use vm_memory::Bytes;
                        use vm_memory::GuestAddressSpace;
                        // a panic inside the write (e.g. the dirty bitmap indexed past its end) is data
                        match std::panic::catch_unwind(std::panic::AssertUnwindSafe(|| g.memory().write(&data, vm_memory::GuestAddress(gpa)).unwrap_or(0))) {
                            Ok(n) => n,
                            Err(_) => {
                                write_panicked = true;
                                0
                            }
                        }
                    }
                    (None, None) => 0,
                };
                let (newbits, cleared, guard_ok) = log_diff(&log_guard, &before);
                out = json!({"via_held": held.is_some(), "wrote": wrote, "gpa": limbs(gpa), "newbits": newbits, "cleared": cleared, "guard_ok": guard_ok, "panicked": write_panicked});
                status = "ok".into();
            }
            "brfd" => {
                // SET_BACKEND_REQ_FD, then use the proxy the backend was handed
                let (a, b) = std::os::unix::net::UnixStream::pair().unwrap();
                status = rig.peer.request(21, &[], &[a.as_raw_fd()], false).status;
                drop(a);
                let be = rig.tb.backends.lock().unwrap().last().cloned();
                let mut res = json!({"got_backend": be.is_some(), "so_sent": false, "sh_sent": false, "so_need_reply": false, "sh_need_reply": false,
                    "so_ok": false, "sh_ok": false});
                if let Some(be) = be {
                    b.set_read_timeout(Some(std::time::Duration::from_millis(300))).unwrap();
                    for (kind, key) in [(6u32, "so"), (10u32, "sh")] {
                        let be2 = be.clone();
                        let t = std::thread::spawn(move || {
                            use vhost::vhost_user::VhostUserFrontendReqHandler;
                            if kind == 6 {
                                let mut u = [7u8; 16];
                                u[0] = 1;
                                be2.shared_object_add(&vhost::vhost_user::message::VhostUserSharedMsg { uuid: uuid::Uuid::from_bytes(u) }).is_ok()
                            } else {
                                be2.shmem_unmap(&vhost::vhost_user::message::VhostUserMMap { shmid: 0, padding: [0; 7], fd_offset: 0, shm_offset: 0, len: 4096, flags: 0 }).is_ok()
                            }
                        });
                        // the frontend side of the channel: read one request if any, acknowledge if asked to
                        let mut hdr = [0u8; 12];
                        let mut got = 0usize;
                        let t0 = std::time::Instant::now();
                        while got < 12 && t0.elapsed() < std::time::Duration::from_millis(300) && !(t.is_finished() && got == 0 && fionread(b.as_raw_fd()) == 0) {
                            match raw_recv(&b, &mut hdr[got..], libc::MSG_DONTWAIT) {
                                Ok((n, _)) if n > 0 => got += n,
                                _ => std::thread::sleep(std::time::Duration::from_micros(100)),
                            }
                        }
                        if got == 12 {
                            let size = le32(&hdr, 8) as usize;
                            let mut body = vec![0u8; size];
                            let mut g = 0;
                            while g < size {
                                match raw_recv(&b, &mut body[g..], 0) {
                                    Ok((n, _)) if n > 0 => g += n,
                                    _ => break,
                                }
                            }
                            res[format!("{key}_sent")] = json!(le32(&hdr, 0) == kind);
                            let need = le32(&hdr, 4) & 8 != 0;
                            res[format!("{key}_need_reply")] = json!(need);
                            if need {
                                let mut ack = Vec::new();
                                ack.extend_from_slice(&kind.to_le_bytes());
                                ack.extend_from_slice(&5u32.to_le_bytes());
                                ack.extend_from_slice(&8u32.to_le_bytes());
                                ack.extend_from_slice(&0u64.to_le_bytes());
                                let _ = raw_send_all(&b, &ack, &[]);
                            }
                        }
                        res[format!("{key}_ok")] = json!(t.join().unwrap_or(false));
                    }
                }
                out = res;
            }
            "listener" => {
                let t = step["thread"].as_u64().unwrap_or(0) as usize;
                let id = from_limbs(&step["idl"]);
                let e = std::sync::Arc::new(new_eventfd());
                let r = (rig.handlers_reg)(t, e.as_raw_fd(), id);
                status = if r.is_ok() { "ok".into() } else { "err".into() };
                if r.is_ok() {
                    rig.tb.listeners.lock().unwrap().push((t, id, e.clone()));
                    // ("fire": false -- only register; the event is raised by a later `fire` letter)
                    if step["fire"].as_bool().unwrap_or(true) {
                        let _ = e.write(1);
                    }
                }
                // (kept also when refused, so that the indexes of the `fire` / `unlisten` letters are those of the `listener` letters)
                listeners.push(e);
                listener_meta.push((t, id));
            }
            "unlisten" | "fire" => {
                // act on the idx-th listener registered by this case: take it out of the worker's set / raise its event
                let idx = step["idx"].as_u64().unwrap_or(0) as usize;
                if idx < listeners.len() {
                    let (t, id) = listener_meta[idx];
                    if op == "unlisten" {
                        let r = (rig.handlers_unreg)(t, listeners[idx].as_raw_fd(), id);
                        status = if r.is_ok() { "ok".into() } else { "err".into() };
                    } else {
                        let _ = listeners[idx].write(1);
                        status = "ok".into();
                    }
                    out = json!({"thread": t, "idl": limbs(id)});
                } else {
                    status = "noidx".into();
                }
            }
            "fdslot" => {
                // a descriptor of a given kind for the kick / call / error slot of a ring (or the no-descriptor flag)
                let role = step["role"].as_str().unwrap_or("kick");
                let kind = step["kind"].as_str().unwrap_or("eventfd");
                let code = match role {
                    "kick" => 12,
                    "call" => 13,
                    _ => 14,
                };
                if kind == "none" {
                    status = rig.peer.request(code, &u64b(q as u64 | 0x100), &[], false).status;
                } else {
                    // (descriptor to send, what the test keeps)
                    let (send, keep, own): (File, Vec<File>, usize) = match kind {
                        "eventfd" => {
                            let e = new_eventfd();
                            (dup_file_of(&e), vec![dup_file_of(&e)], 1)
                        }
                        "pipe_r" | "pipe_w" => {
                            let mut fds = [0i32; 2];
                            // SAFETY: pipe2 fills the two descriptors; result checked.
                            assert!(unsafe { libc::pipe2(fds.as_mut_ptr(), libc::O_CLOEXEC | libc::O_NONBLOCK) } == 0);
                            // SAFETY: fresh descriptors owned from here on.
                            let (r, w) = unsafe { (File::from_raw_fd(fds[0]), File::from_raw_fd(fds[1])) };
                            if kind == "pipe_r" { (r, vec![w], 1) } else { (w, vec![r], 1) }
                        }
                        "sock" => {
                            let (a, b) = std::os::unix::net::UnixStream::pair().unwrap();
                            // SAFETY: the descriptors are taken out of their owners.
                            unsafe { (File::from_raw_fd(std::os::unix::io::IntoRawFd::into_raw_fd(a)), vec![File::from_raw_fd(std::os::unix::io::IntoRawFd::into_raw_fd(b))], 0) }
                        }
                        _ => (memfd("slotfile", 4096), vec![], 0),
                    };
                    let ident = fd_ident(send.as_raw_fd());
                    status = rig.peer.request(code, &u64b(q as u64), &[send.as_raw_fd()], false).status;
                    drop(send);
                    tokens.push((ident, own, keep));
                    sentkinds.push(format!("{role}/{kind}"));
                }
            }
            "dev" => {
                // X03: an optional device-level request, all the way from the wire to the backend callback and back
                let kind = step["k"].as_str().unwrap_or("");
                *rig.tb.dev.lock().unwrap() = step["h"].as_str().unwrap_or("ok").to_string();
                let mut sent = json!({});
                let mut keep: Vec<File> = Vec::new();
                let (code, body, fds, has_reply): (u32, Vec<u8>, Vec<i32>, bool) = match kind {
                    "get_config" | "set_config" => {
                        let lim = if rng.bool() { 16 } else { 600 };
                        let size = 1 + rng.below(lim) as u32;
                        let off = rng.below((0x1000 - size as u64) + 1) as u32;
                        let mut b = off.to_le_bytes().to_vec();
                        b.extend_from_slice(&size.to_le_bytes());
                        b.extend_from_slice(&0u32.to_le_bytes());
                        let payload: Vec<u8> = (0..size).map(|_| if kind == "set_config" { rng.next() as u8 } else { 0 }).collect();
                        b.extend_from_slice(&payload);
                        sent = json!({"off": off, "size": size, "data": bytes_json(&payload)});
                        (if kind == "get_config" { 24 } else { 25 }, b, vec![], kind == "get_config")
                    }
                    "get_shared_object" => {
                        let mut u: Vec<u8> = (0..16).map(|_| rng.next() as u8).collect();
                        u[3] = 0x5a;
                        sent = json!({"uuid": bytes_json(&u)});
                        (41, u, vec![], true)
                    }
                    "gpu_set_socket" => (33, vec![], vec![], false),
                    "set_device_state_fd" => {
                        let (dir, phase) = (rng.below(2) as u32, 0u32);
                        let f = memfd("statefd", 4096);
                        sent = json!({"dir": dir, "phase": phase, "file": fd_id(f.as_raw_fd())});
                        let fd = f.as_raw_fd();
                        keep.push(f);
                        let mut b = dir.to_le_bytes().to_vec();
                        b.extend_from_slice(&phase.to_le_bytes());
                        (42, b, vec![fd], true)
                    }
                    "check_device_state" => (43, vec![], vec![], true),
                    "get_shmem_config" => (44, vec![], vec![], true),
                    "get_queue_num" => (17, vec![], vec![], true),
                    "get_max_mem_slots" => (36, vec![], vec![], true),
                    "get_inflight_fd" | "set_inflight_fd" => {
                        let mut b = 0x1000u64.to_le_bytes().to_vec();
                        b.extend_from_slice(&0u64.to_le_bytes());
                        b.extend_from_slice(&2u16.to_le_bytes());
                        b.extend_from_slice(&64u16.to_le_bytes());
                        b.extend_from_slice(&0u32.to_le_bytes());
                        if kind == "set_inflight_fd" {
                            let f = memfd("inflight", 4096);
                            let fd = f.as_raw_fd();
                            keep.push(f);
                            (32, b, vec![fd], false)
                        } else {
                            (31, b, vec![], true)
                        }
                    }
                    other => panic!("unknown device letter {other}"),
                };
                let mut gpu_peer = None;
                let mut fds = fds;
                if kind == "gpu_set_socket" {
                    let (a, b) = std::os::unix::net::UnixStream::pair().unwrap();
                    fds.push(a.as_raw_fd());
                    gpu_peer = Some((a, b));
                }
                let ngpu = rig.tb.gpus.lock().unwrap().len();
                let r = rig.peer.request(code, &body, &fds, has_reply);
                status = r.status.clone();
                let rfd_ids: Vec<String> = r.fds.iter().map(|f| fd_id(*f)).collect();
                let mut o = json!({"sent": sent, "reply": bytes_json(&r.body), "reply_len": r.body.len(), "reply_fds": rfd_ids, "gpu_linked": "na"});
                if let Some((a, b)) = gpu_peer {
                    drop(a);
                    // the proxy the device was handed must talk to the socket the frontend supplied
                    let g = { let v = rig.tb.gpus.lock().unwrap(); if v.len() > ngpu { v.last().cloned() } else { None } };
                    o["gpu_linked"] = json!("nogpu");
                    if let Some(g) = g {
                        let pos = vhost::vhost_user::gpu_message::VhostUserGpuCursorPos { scanout_id: 7, x: 0x1234, y: 0x5678 };
                        let sent_ok = g.cursor_pos(&pos).is_ok();
                        b.set_read_timeout(Some(std::time::Duration::from_millis(1000))).unwrap();
                        let mut buf = [0u8; 24];
                        let mut got = 0;
                        while sent_ok && got < 24 {
                            match raw_recv(&b, &mut buf[got..], 0) {
                                Ok((n, _)) if n > 0 => got += n,
                                _ => break,
                            }
                        }
                        o["gpu_linked"] = json!(if got == 24 && le32(&buf, 0) == 4 && le32(&buf, 12) == 7 && le32(&buf, 16) == 0x1234 && le32(&buf, 20) == 0x5678 { "yes" } else { "no" });
                    }
                }
                for f in r.fds {
                    close_fd(f);
                }
                drop(keep);
                out = o;
            }
            "raw" => {
                let code = step["c"].as_u64().unwrap() as u32;
                let body = unhex(step["body"].as_str().unwrap_or(""));
                let nf = step["nfds"].as_u64().unwrap_or(0);
                let fdsize = step["fdsize"].as_u64().unwrap_or(0x1000);
                let files: Vec<File> = (0..nf)
                    .map(|_| if step["fdkind"].as_str() == Some("eventfd") { dup_file_of(&new_eventfd()) } else { memfd("raw", fdsize) })
                    .collect();
                let fds: Vec<i32> = files.iter().map(|f| f.as_raw_fd()).collect();
                let r = rig.peer.request(code, &body, &fds, step["has_reply"].as_bool().unwrap_or(false));
                status = r.status;
                for f in r.fds {
                    close_fd(f);
                }
            }
            _ => panic!("unknown daemon letter {op}"),
        }
        let workers_ok = if rig.alive { rig.quiesce() } else { false };
        if !workers_ok {
            rig.alive = false;
        }
        let evs = rig.log.take();
        let bid = rig.barrier_id as u16;
        let dispatches: Vec<Value> = evs.iter().filter(|e| e["ev"] == "dispatch" && e["event"] != bid).cloned().collect();
        let cbs: Vec<Value> = evs.iter().filter(|e| e["ev"] == "cb").cloned().collect();
        let dcbs: Vec<Value> = evs.iter().filter(|e| e["ev"] == "dcb").cloned().collect();
        if !tokens.is_empty() {
            // how many descriptors besides the test's own copies refer to each file sent so far (= held by the daemon)
            let held: Vec<i64> = tokens.iter().map(|(id, own, _)| count_ident(id) as i64 - *own as i64).collect();
            out["held"] = json!(held);
        }
        let sk = json!(sentkinds);
        let mut e = json!({"ev": "step", "op": op, "q": q, "letter": step, "status": status, "out": out,
            "dispatches": dispatches, "ndispatch": dispatches.len(), "cbs": cbs, "dcbs": dcbs, "sentkinds": sk, "workers_ok": workers_ok, "panics": take_panics(),
            "updates": *rig.tb.updates.lock().unwrap()});
        // ring snapshot through the backend's own view: sampled in the barrier dispatch of each thread
        let mut last_per_thread: std::collections::BTreeMap<u64, &Value> = std::collections::BTreeMap::new();
        for e in evs.iter().filter(|e| e["ev"] == "dispatch" && e["event"] == bid) {
            last_per_thread.insert(e["thread"].as_u64().unwrap_or(0), e);
        }
        let snaps: Vec<Value> = last_per_thread.values().map(|e| json!({"thread": e["thread"], "sizes": e["sizes"], "rings": e["rings"]})).collect();
        e["barriers"] = json!(snaps);
        trace.emit(e);
        if !workers_ok || status == "failed" {
            break;
        }
        if status == "timeout" {
            // a daemon that has stopped answering (each such step is established by watchdog + blocked threads, i.e. seconds):
            // two of them say all there is to say about this case
            ntimeouts += 1;
            if ntimeouts >= 2 {
                break;
            }
        }
        if status == "closed" {
            closed = true;
        }
    }
    drop(listeners);
    held_slices.clear();
    let _ = rig.finish();
    let held_end: Vec<i64> = tokens.iter().map(|(id, own, _)| count_ident(id) as i64 - *own as i64).collect();
    trace.emit(json!({"ev": "end", "nfds": std::fs::read_dir("/proc/self/fd").map(|d| d.count()).unwrap_or(0), "held": held_end}));
}


/// A slice over a whole region, resolved once and kept across later requests (the guard keeps the mapping alive).
pub struct HeldSlice {
    pub rid: usize,
    _guard: vm_memory::atomic::GuestMemoryLoadGuard<vm_memory::GuestMemoryMmap<vhost_user_backend::bitmap::BitmapMmapRegion>>,
    slice: vm_memory::VolatileSlice<'static, vm_memory::bitmap::BS<'static, vhost_user_backend::bitmap::BitmapMmapRegion>>,
}
impl HeldSlice {
    pub fn take(g: &GM, rid: usize, gpa: u64, size: usize) -> Option<HeldSlice> {
        use vm_memory::{GuestAddressSpace, GuestMemory};
        let guard = g.memory();
        let sl = guard.get_slice(vm_memory::GuestAddress(gpa), size).ok()?;
        // SAFETY: the slice points into a mapping owned by the memory object `guard` keeps alive; both are stored together and
        // the slice is never handed out beyond the life of this struct.
        let sl: vm_memory::VolatileSlice<'static, vm_memory::bitmap::BS<'static, vhost_user_backend::bitmap::BitmapMmapRegion>> = unsafe { std::mem::transmute(sl) };
        Some(HeldSlice { rid, _guard: guard, slice: sl })
    }
    /// `Bytes::write` semantics: as many bytes as fit
    pub fn write(&self, data: &[u8], o: usize) -> usize {
        use vm_memory::Bytes;
        self.slice.write(data, o).unwrap_or(0)
    }
}
