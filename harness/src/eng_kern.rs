//! Engine "kern" (C19): the kernel vhost / vhost-net / vhost-vsock / vhost-vDPA backends on a dummy
//! descriptor.  `ioctl` is defined by this binary itself, so every ioctl issued by the crate (via
//! vmm-sys-util -> libc::ioctl) lands here: requests on the dummy descriptor are recorded and
//! answered (the kernel's part is scripted), everything else is forwarded to the real system call.
//!
//! Case: {"id":.., "backend":"net"|"vsock"|"vdpa", "nregions":1..3, "acked":[bits], "steps":[{"op":..,"cls":..,"kfail":bool}]}

use crate::common::*;
use serde_json::{json, Value};
use std::fs::File;
use std::os::raw::{c_int, c_ulong, c_void};
use std::os::unix::io::{AsRawFd, FromRawFd};
use std::sync::Mutex;
use vhost::net::VhostNet;
use vhost::vdpa::VhostVdpa;
use vhost::vhost_kern::net::Net;
use vhost::vhost_kern::vdpa::VhostKernVdpa;
use vhost::vhost_kern::vhost_binding::{vhost_msg, vhost_msg_v2};
use vhost::vhost_kern::vsock::Vsock;
use vhost::vhost_kern::VhostKernFeatures;
use vhost::vsock::VhostVsock;
use vhost::{
    VhostAccess, VhostBackend, VhostIotlbBackend, VhostIotlbMsg, VhostIotlbMsgParser, VhostIotlbType,
    VhostUserDirtyLogRegion, VhostUserMemoryRegionInfo, VringConfigData,
};
use vm_memory::{GuestAddress, GuestMemory, GuestMemoryMmap, GuestMemoryRegion};
use vmm_sys_util::eventfd::EventFd;

struct KState {
    target: c_int,
    recs: Vec<(u64, Vec<u8>)>,
    reply: Vec<u8>,
    fail: bool,
}
static K: Mutex<KState> = Mutex::new(KState {
    target: -1,
    recs: Vec::new(),
    reply: Vec::new(),
    fail: false,
});

const SET_MEM_TABLE_NR: u64 = 0x03;
const VDPA_GET_CONFIG_NR: u64 = 0x73;
const VDPA_SET_CONFIG_NR: u64 = 0x74;

/// The process-wide `ioctl`: overrides libc's for every caller inside this executable.
///
/// # Safety
/// Same contract as ioctl(2).
#[no_mangle]
pub unsafe extern "C" fn ioctl(fd: c_int, req: c_ulong, arg: *mut c_void) -> c_int {
    let mut k = match K.try_lock() {
        Ok(k) => k,
        Err(_) => return libc::syscall(libc::SYS_ioctl, fd, req, arg) as c_int,
    };
    if fd != k.target || k.target < 0 {
        drop(k);
        return libc::syscall(libc::SYS_ioctl, fd, req, arg) as c_int;
    }
    let req = req as u64 & 0xffff_ffff;
    let dir = (req >> 30) & 3;
    let nr = req & 0xff;
    let mut size = ((req >> 16) & 0x3fff) as usize;
    let p = arg as *mut u8;
    if dir != 0 && !p.is_null() {
        if nr == SET_MEM_TABLE_NR {
            let n = std::ptr::read_unaligned(p as *const u32) as usize;
            size = 8 + 32 * n.min(4096);
        } else if nr == VDPA_GET_CONFIG_NR || nr == VDPA_SET_CONFIG_NR {
            let len = std::ptr::read_unaligned(p.add(4) as *const u32) as usize;
            size = 8 + len.min(65536);
        }
    }
    let bytes = if dir == 0 || p.is_null() { Vec::new() } else { std::slice::from_raw_parts(p, size).to_vec() };
    k.recs.push((req, bytes));
    if k.fail {
        *libc::__errno_location() = libc::EINVAL;
        return -1;
    }
    if dir & 2 != 0 && !p.is_null() {
        // the kernel writes its answer into the argument
        let off = if nr == VDPA_GET_CONFIG_NR { 8 } else { 0 };
        let n = k.reply.len().min(size.saturating_sub(off));
        std::ptr::copy_nonoverlapping(k.reply.as_ptr(), p.add(off), n);
    }
    0
}

fn take_recs() -> Vec<Value> {
    let mut k = K.lock().unwrap();
    std::mem::take(&mut k.recs)
        .into_iter()
        .map(|(r, b)| json!({"lo": r & 0xffff, "hi": r >> 16, "bytes": bytes_json(&b), "len": b.len()}))
        .collect()
}

enum Be<'a> {
    Net(Net<&'a GuestMemoryMmap>),
    Vsock(Vsock<&'a GuestMemoryMmap>),
    Vdpa(VhostKernVdpa<&'a GuestMemoryMmap>),
}

macro_rules! on_backend {
    ($b:expr, $x:ident => $e:expr) => {
        match $b {
            Be::Net($x) => $e,
            Be::Vsock($x) => $e,
            Be::Vdpa($x) => $e,
        }
    };
}

fn ok<T, E>(r: &Result<T, E>) -> bool {
    r.is_ok()
}

pub fn run(cases: &[Value], trace: &mut Trace, seed: u64) {
    for (kc, case) in cases.iter().enumerate() {
        let mut rng = Rng::new(seed ^ (kc as u64).wrapping_mul(0xabcdef12345));
        let backend = case["backend"].as_str().unwrap_or("vdpa");
        let nreg = case["nregions"].as_u64().unwrap_or(1) as usize;
        let acked = from_bits(&case["acked"]);
        // guest memory: nreg regions with gaps
        let ranges: Vec<(GuestAddress, usize)> = (0..nreg).map(|i| (GuestAddress(0x10_0000 * (1 + 3 * i as u64)), 0x10000 * (1 + i))).collect();
        let mem = GuestMemoryMmap::<()>::from_ranges(&ranges).unwrap();
        let regions: Vec<Value> = mem
            .iter()
            .map(|r| json!({"gpa": limbs(r.start_addr().0), "size": limbs(r.len()), "host": limbs(r.as_ptr() as u64)}))
            .collect();
        // the "device": one end of a datagram socketpair (IOTLB messages can be read back)
        let mut sv = [0 as c_int; 2];
        // SAFETY: plain syscall with a valid out array.
        unsafe { libc::socketpair(libc::AF_UNIX, libc::SOCK_DGRAM | libc::SOCK_NONBLOCK, 0, sv.as_mut_ptr()) };
        // SAFETY: fresh descriptors owned by the Files.
        let dev = unsafe { File::from_raw_fd(sv[0]) };
        let other = unsafe { File::from_raw_fd(sv[1]) };
        {
            let mut k = K.lock().unwrap();
            k.target = dev.as_raw_fd();
            k.recs.clear();
        }
        let mut be = match backend {
            "net" => Be::Net(Net::with(dev, &mem)),
            "vsock" => Be::Vsock(Vsock::with(dev, &mem)),
            _ => Be::Vdpa(VhostKernVdpa::with(dev, &mem, acked)),
        };
        trace.emit(json!({"ev": "reset", "id": case["id"], "backend": backend, "regions": regions, "acked": bits(acked)}));
        let mut acked_now = acked;
        for step in case["steps"].as_array().unwrap() {
            let op = step["op"].as_str().unwrap();
            let cls = step["cls"].as_str().unwrap_or("ok");
            let kfail = step["kfail"].as_bool().unwrap_or(false);
            let kret: Vec<u8> = (0..64).map(|_| rng.next() as u8).collect();
            {
                let mut k = K.lock().unwrap();
                k.fail = kfail;
                k.reply = kret.clone();
                k.recs.clear();
            }
            let mut args = json!({});
            let mut ret = json!({});
            let q = rng.below(4) as usize;
            let res_ok: bool = match op {
                "get_features" => {
                    let r = on_backend!(&be, b => b.get_features());
                    if let Ok(v) = &r {
                        ret = json!({"v": limbs(*v)});
                    }
                    ok(&r)
                }
                "set_features" => {
                    let v = rng.u64_edge();
                    args = json!({"v": limbs(v)});
                    ok(&on_backend!(&be, b => b.set_features(v)))
                }
                "set_owner" => ok(&on_backend!(&be, b => b.set_owner())),
                "reset_owner" => ok(&on_backend!(&be, b => b.reset_owner())),
                "set_mem_table" => {
                    let n = match cls {
                        "empty" => 0,
                        "n255" => 255,
                        "n256" => 256,
                        _ => 1 + rng.below(8) as usize,
                    };
                    let regs: Vec<VhostUserMemoryRegionInfo> = (0..n)
                        .map(|_| VhostUserMemoryRegionInfo {
                            guest_phys_addr: rng.u64_edge(),
                            memory_size: rng.u64_edge(),
                            userspace_addr: rng.u64_edge(),
                            mmap_offset: rng.u64_edge(),
                            mmap_handle: 5,
                        })
                        .collect();
                    args = json!({"n": n, "regions": regs.iter().map(|r| json!({"gpa": limbs(r.guest_phys_addr), "size": limbs(r.memory_size),
                        "ua": limbs(r.userspace_addr)})).collect::<Vec<_>>()});
                    ok(&on_backend!(&be, b => b.set_mem_table(&regs)))
                }
                "set_log_base" => {
                    let base = rng.u64_edge();
                    args = json!({"v": limbs(base)});
                    let region = if cls == "with_region" { Some(VhostUserDirtyLogRegion { mmap_size: 4096, mmap_offset: 0, mmap_handle: 3 }) } else { None };
                    ok(&on_backend!(&be, b => b.set_log_base(base, region)))
                }
                "set_log_fd" => {
                    let fd = rng.below(1000) as i32;
                    args = json!({"fd": fd});
                    ok(&on_backend!(&be, b => b.set_log_fd(fd)))
                }
                "set_vring_num" | "set_vring_base" => {
                    let num = rng.below(65536) as u16;
                    args = json!({"index": q, "v": limbs(num as u64)});
                    if op == "set_vring_num" {
                        ok(&on_backend!(&be, b => b.set_vring_num(q, num)))
                    } else {
                        ok(&on_backend!(&be, b => b.set_vring_base(q, num)))
                    }
                }
                "get_vring_base" => {
                    args = json!({"index": q});
                    let r = on_backend!(&be, b => b.get_vring_base(q));
                    if let Ok(v) = &r {
                        ret = json!({"v": limbs(*v as u64)});
                    }
                    ok(&r)
                }
                "set_vring_addr" => {
                    // addresses inside the regions (well away from their ends), translated by the kernel backends;
                    // each of the three rings lies in a region of its own choice (the same one or different ones)
                    let pick = |rng: &mut Rng| {
                        let ri = rng.below(nreg as u64) as usize;
                        (ranges[ri].0 .0, ranges[ri].1 as u64)
                    };
                    let (bd, ld) = pick(&mut rng);
                    let (bu, lu) = pick(&mut rng);
                    let (ba, la) = pick(&mut rng);
                    let mut cfg = VringConfigData {
                        queue_max_size: 256,
                        queue_size: 1 << rng.below(9),
                        flags: rng.below(2) as u32,
                        desc_table_addr: bd + 16 * rng.below(ld / 64),
                        used_ring_addr: bu + lu / 4 + 4 * rng.below(lu / 64),
                        avail_ring_addr: ba + la / 2 + 2 * rng.below(la / 64),
                        log_addr: Some(rng.u64_edge()),
                    };
                    match cls {
                        "size0" => cfg.queue_size = 0,
                        "npot" => cfg.queue_size = *rng.pick(&[3u16, 5, 6, 7, 12, 100, 255]),
                        "over_max" => cfg.queue_size = 512,
                        "log_flag_no_addr" => {
                            cfg.flags = 1;
                            cfg.log_addr = None
                        }
                        "no_log" => {
                            cfg.flags = 0;
                            cfg.log_addr = None
                        }
                        _ => {}
                    }
                    args = json!({"index": q, "flags": cfg.flags, "desc": limbs(cfg.desc_table_addr), "used": limbs(cfg.used_ring_addr),
                        "avail": limbs(cfg.avail_ring_addr), "has_log": cfg.log_addr.is_some(), "log": limbs(cfg.log_addr.unwrap_or(0)),
                        "qsize": cfg.queue_size, "qmax": cfg.queue_max_size});
                    match &be {
                        Be::Net(b) => ok(&VhostBackend::set_vring_addr(b, q, &cfg)),
                        Be::Vsock(b) => ok(&VhostBackend::set_vring_addr(b, q, &cfg)),
                        Be::Vdpa(b) => {
                            if cls == "trait" {
                                ok(&VhostBackend::set_vring_addr(b, q, &cfg))
                            } else {
                                ok(&b.set_vring_addr(q, &cfg))
                            }
                        }
                    }
                }
                "set_vring_call" | "set_vring_kick" | "set_vring_err" => {
                    let e = EventFd::new(0).unwrap();
                    args = json!({"index": q, "fd": e.as_raw_fd()});
                    match op {
                        "set_vring_call" => ok(&on_backend!(&be, b => b.set_vring_call(q, &e))),
                        "set_vring_kick" => ok(&on_backend!(&be, b => b.set_vring_kick(q, &e))),
                        _ => ok(&on_backend!(&be, b => b.set_vring_err(q, &e))),
                    }
                }
                "net_set_backend" => {
                    let with = cls != "none";
                    args = json!({"index": q, "fd": if with { other.as_raw_fd() } else { -1 }});
                    match &be {
                        Be::Net(b) => ok(&b.set_backend(q, if with { Some(&other) } else { None })),
                        _ => false,
                    }
                }
                "vsock_set_guest_cid" => {
                    let cid = rng.u64_edge();
                    args = json!({"v": limbs(cid)});
                    match &be {
                        Be::Vsock(b) => ok(&b.set_guest_cid(cid)),
                        _ => false,
                    }
                }
                "vsock_start" | "vsock_stop" => match &be {
                    Be::Vsock(b) => ok(&if op == "vsock_start" { b.start() } else { b.stop() }),
                    _ => false,
                },
                "get_backend_features" | "set_backend_features" => match &mut be {
                    Be::Vdpa(b) => {
                        if op == "get_backend_features" {
                            let r = b.get_backend_features();
                            if let Ok(v) = &r {
                                ret = json!({"v": limbs(*v)});
                            }
                            ok(&r)
                        } else {
                            let v = from_bits(&step["v"]);
                            args = json!({"v": limbs(v)});
                            let r = b.set_backend_features(v);
                            if r.is_ok() {
                                acked_now = v;
                            }
                            ret = json!({"acked": limbs(b.get_backend_features_acked())});
                            ok(&r)
                        }
                    }
                    _ => false,
                },
                _ => match &be {
                    Be::Vdpa(b) => match op {
                        "vdpa_get_device_id" | "vdpa_get_config_size" | "vdpa_get_vqs_count" | "vdpa_get_group_num" | "vdpa_get_as_num" => {
                            let r = match op {
                                "vdpa_get_device_id" => b.get_device_id(),
                                "vdpa_get_config_size" => b.get_config_size(),
                                "vdpa_get_vqs_count" => b.get_vqs_count(),
                                "vdpa_get_group_num" => b.get_group_num(),
                                _ => b.get_as_num(),
                            };
                            if let Ok(v) = &r {
                                ret = json!({"v": limbs(*v as u64)});
                            }
                            ok(&r)
                        }
                        "vdpa_get_status" => {
                            let r = b.get_status();
                            if let Ok(v) = &r {
                                ret = json!({"v": limbs(*v as u64)});
                            }
                            ok(&r)
                        }
                        "vdpa_set_status" => {
                            let s = rng.next() as u8;
                            args = json!({"v": limbs(s as u64)});
                            ok(&b.set_status(s))
                        }
                        "vdpa_get_vring_num" => {
                            let r = b.get_vring_num();
                            if let Ok(v) = &r {
                                ret = json!({"v": limbs(*v as u64)});
                            }
                            ok(&r)
                        }
                        "vdpa_get_config" | "vdpa_set_config" => {
                            let len = match cls {
                                "len0" => 0,
                                "len256" => 256,
                                _ => 1 + rng.below(64) as usize,
                            };
                            let off = rng.u64_edge() as u32;
                            let mut buf: Vec<u8> = (0..len).map(|i| (i as u8) ^ 0x6b).collect();
                            args = json!({"off": limbs(off as u64), "len": len, "buf": bytes_json(&buf)});
                            if op == "vdpa_set_config" {
                                ok(&b.set_config(off, &buf))
                            } else {
                                let r = b.get_config(off, &mut buf);
                                ret = json!({"buf": bytes_json(&buf)});
                                ok(&r)
                            }
                        }
                        "vdpa_set_vring_enable" => {
                            let en = rng.bool();
                            args = json!({"index": q, "v": limbs(en as u64)});
                            ok(&b.set_vring_enable(q, en))
                        }
                        "vdpa_set_config_call" => {
                            let e = EventFd::new(0).unwrap();
                            args = json!({"fd": e.as_raw_fd()});
                            ok(&b.set_config_call(&e))
                        }
                        "vdpa_get_iova_range" => {
                            let r = b.get_iova_range();
                            if let Ok(v) = &r {
                                ret = json!({"first": limbs(v.first), "last": limbs(v.last)});
                            }
                            ok(&r)
                        }
                        "vdpa_get_vring_group" => {
                            let idx = rng.u64_edge() as u32;
                            args = json!({"index": limbs(idx as u64)});
                            let r = b.get_vring_group(idx);
                            if let Ok(v) = &r {
                                ret = json!({"v": limbs(*v as u64)});
                            }
                            ok(&r)
                        }
                        "vdpa_set_group_asid" => {
                            let (g, a) = (rng.u64_edge() as u32, rng.u64_edge() as u32);
                            args = json!({"index": limbs(g as u64), "v": limbs(a as u64)});
                            ok(&b.set_group_asid(g, a))
                        }
                        "vdpa_suspend" => ok(&b.suspend()),
                        "iotlb_send" | "vdpa_dma_map" | "vdpa_dma_unmap" => {
                            let (iova, size, ua) = (rng.u64_edge(), rng.u64_edge(), rng.u64_edge());
                            let r = match op {
                                "iotlb_send" => {
                                    let perm = [VhostAccess::No, VhostAccess::ReadOnly, VhostAccess::WriteOnly, VhostAccess::ReadWrite][rng.below(4) as usize];
                                    let ty = [VhostIotlbType::Miss, VhostIotlbType::Update, VhostIotlbType::Invalidate, VhostIotlbType::AccessFail,
                                        VhostIotlbType::BatchBegin, VhostIotlbType::BatchEnd][rng.below(6) as usize];
                                    args = json!({"iova": limbs(iova), "size": limbs(size), "uaddr": limbs(ua), "perm": perm as u8, "type": ty as u8});
                                    b.send_iotlb_msg(&VhostIotlbMsg { iova, size, userspace_addr: ua, perm, msg_type: ty })
                                }
                                "vdpa_dma_map" => {
                                    let ro = rng.bool();
                                    args = json!({"iova": limbs(iova), "size": limbs(size), "uaddr": limbs(ua), "perm": if ro { 1 } else { 3 }, "type": 2});
                                    b.dma_map(iova, size, ua as *const u8, ro)
                                }
                                _ => {
                                    args = json!({"iova": limbs(iova), "size": limbs(size), "uaddr": limbs(0), "perm": 0, "type": 3});
                                    b.dma_unmap(iova, size)
                                }
                            };
                            ok(&r)
                        }
                        "iotlb_parse_v1" | "iotlb_parse_v2" => {
                            // an IOTLB message as the kernel would hand it to a read(): packed independently
                            let (iova, size, ua) = (rng.u64_edge(), rng.u64_edge(), rng.u64_edge());
                            let perm = rng.below(4) as u8;
                            let ty = if cls == "type0" { 0 } else { 1 + rng.below(6) as u8 };
                            let v2 = op == "iotlb_parse_v2";
                            let mtype: u32 = if cls == "badmsgtype" { 7 } else if v2 { 2 } else { 1 };
                            let mut raw = [0u8; 72];
                            raw[0..4].copy_from_slice(&mtype.to_le_bytes());
                            raw[8..16].copy_from_slice(&iova.to_le_bytes());
                            raw[16..24].copy_from_slice(&size.to_le_bytes());
                            raw[24..32].copy_from_slice(&ua.to_le_bytes());
                            raw[32] = perm;
                            raw[33] = ty;
                            args = json!({"iova": limbs(iova), "size": limbs(size), "uaddr": limbs(ua), "perm": perm, "type": ty, "mtype": mtype});
                            let mut out = VhostIotlbMsg::default();
                            let r = if v2 {
                                // SAFETY: vhost_msg_v2 is a 72-byte POD; every bit pattern is valid for its integer fields.
                                let m: vhost_msg_v2 = unsafe { std::ptr::read_unaligned(raw.as_ptr() as *const vhost_msg_v2) };
                                m.parse(&mut out)
                            } else {
                                // SAFETY: as above for vhost_msg.
                                let m: vhost_msg = unsafe { std::ptr::read_unaligned(raw.as_ptr() as *const vhost_msg) };
                                m.parse(&mut out)
                            };
                            if r.is_ok() {
                                ret = json!({"iova": limbs(out.iova), "size": limbs(out.size), "uaddr": limbs(out.userspace_addr),
                                    "perm": out.perm as u8, "type": out.msg_type as u8});
                            }
                            ok(&r)
                        }
                        _ => panic!("unknown kern op {op}"),
                    },
                    _ => false,
                },
            };
            // IOTLB messages written to the device
            let mut writes = Vec::new();
            loop {
                let mut buf = [0u8; 256];
                // SAFETY: reading into a local buffer from a valid non-blocking descriptor.
                let n = unsafe { libc::read(other.as_raw_fd(), buf.as_mut_ptr() as *mut c_void, buf.len()) };
                if n <= 0 {
                    break;
                }
                writes.push(bytes_json(&buf[..n as usize]));
            }
            let recs = take_recs();
            trace.emit(json!({"ev": "kop", "backend": backend, "op": op, "cls": cls, "kfail": kfail, "args": args, "res_ok": res_ok, "ret": ret,
                "ioctls": recs, "nioctls": recs.len(), "writes": writes, "nwrites": writes.len(), "kret": bytes_json(&kret), "acked": bits(acked_now)}));
        }
        {
            let mut k = K.lock().unwrap();
            k.target = -1;
        }
        drop(be);
    }
}
