//! Engine "sticky": the failure state of the endpoints (EndpointFailure.tla).
//! Case: {"id":.., "ep":"proxy"|"gpu"|"srv"|"fsrv", "steps":[{"t":"fail","e":errno}|{"t":"op"}]}
//! Trace: {"ev":"reset",..} then per step {"ev":"fail","e":..} or
//!        {"ev":"op","res_ok":bool,"errno":n|-1,"wrote":bytes the peer received,"consumed":bool,"ncalls":n}

use crate::common::*;
use crate::eng_bereq::{FCore, FScript};
use crate::rec::{Core, CoreMut};
use serde_json::{json, Value};
use std::os::unix::io::AsRawFd;
use std::os::unix::net::UnixStream;
use std::sync::{Arc, Mutex};
use vhost::vhost_user::gpu_message::VhostUserGpuScanout;
use vhost::vhost_user::message::VhostUserSharedMsg;
use vhost::vhost_user::{Backend, BackendReqHandler, FrontendReqHandler, GpuBackend, VhostUserFrontendReqHandler};

fn errno_of_io(e: &std::io::Error) -> i64 {
    e.raw_os_error().map(|x| x as i64).unwrap_or(-1)
}

fn errno_of(e: &vhost::vhost_user::Error) -> i64 {
    match e {
        vhost::vhost_user::Error::SocketBroken(io) | vhost::vhost_user::Error::SocketError(io) | vhost::vhost_user::Error::SocketRetry(io) => errno_of_io(io),
        _ => -1,
    }
}

fn request_bytes(code: u32, body: &[u8]) -> Vec<u8> {
    let mut b = Vec::new();
    b.extend_from_slice(&code.to_le_bytes());
    b.extend_from_slice(&1u32.to_le_bytes());
    b.extend_from_slice(&(body.len() as u32).to_le_bytes());
    b.extend_from_slice(body);
    b
}

fn drained(sock: &UnixStream) -> usize {
    let (c, _) = raw_drain(sock);
    let n = c.iter().map(|x| x.0.len()).sum();
    close_chunk_fds(&c);
    n
}

pub fn run(cases: &[Value], trace: &mut Trace, _seed: u64) {
    for case in cases {
        let ep = case["ep"].as_str().unwrap_or("proxy");
        trace.emit(json!({"ev": "reset", "id": case["id"], "ep": ep}));
        let (a, b) = UnixStream::pair().unwrap();
        let proxy = if ep == "proxy" {
            let be = Backend::from_stream(a.try_clone().unwrap());
            be.set_shared_object_flag(true);
            Some(be)
        } else {
            None
        };
        let gpu = if ep == "gpu" { Some(GpuBackend::from_stream(a.try_clone().unwrap())) } else { None };
        let core = Core::new();
        let mut srv = if ep == "srv" {
            Some(BackendReqHandler::from_stream(a.try_clone().unwrap(), Arc::new(Mutex::new(CoreMut(core.clone())))))
        } else {
            None
        };
        let fcore = Arc::new(FCore { s: Mutex::new(FScript::default()) });
        fcore.s.lock().unwrap().r = "zero".into();
        let mut fsrv = if ep == "fsrv" { Some(FrontendReqHandler::new(fcore.clone()).unwrap()) } else { None };
        // SAFETY: dup of a valid descriptor owned by the new stream.
        let ftx = fsrv.as_ref().map(|h| unsafe { std::os::fd::FromRawFd::from_raw_fd(libc::dup(h.get_tx_raw_fd())) }).map(|s: UnixStream| s);
        drop(a);
        for step in case["steps"].as_array().unwrap() {
            if step["t"].as_str() == Some("fail") {
                let e = step["e"].as_i64().unwrap_or(5) as i32;
                if let Some(p) = &proxy {
                    p.set_failed(e);
                }
                if let Some(g) = &gpu {
                    g.set_failed(e);
                }
                if let Some(s) = srv.as_mut() {
                    s.set_failed(e);
                }
                if let Some(s) = fsrv.as_mut() {
                    s.set_failed(e);
                }
                trace.emit(json!({"ev": "fail", "e": e}));
                continue;
            }
            // one operation
            let mut ev = json!({"ev": "op", "wrote": 0, "consumed": false, "ncalls": 0, "errno": -1, "res": "ok"});
            match ep {
                "proxy" => {
                    let mut u = [3u8; 16];
                    u[0] = 1;
                    let r = proxy.as_ref().unwrap().shared_object_add(&VhostUserSharedMsg { uuid: uuid::Uuid::from_bytes(u) });
                    ev["wrote"] = json!(drained(&b));
                    if let Err(e) = &r {
                        ev["res"] = json!("err");
                        ev["errno"] = json!(errno_of_io(e));
                    }
                }
                "gpu" => {
                    let r = gpu.as_ref().unwrap().set_scanout(&VhostUserGpuScanout { scanout_id: 1, width: 2, height: 3 });
                    ev["wrote"] = json!(drained(&b));
                    if let Err(e) = &r {
                        ev["res"] = json!("err");
                        ev["errno"] = json!(errno_of_io(e));
                    }
                }
                "srv" => {
                    // a complete GET_FEATURES request is pending
                    let _ = raw_send_all(&b, &request_bytes(1, &[]), &[]);
                    let before = fionread(srv.as_ref().unwrap().as_raw_fd());
                    let r = srv.as_mut().unwrap().handle_request();
                    let after = fionread(srv.as_ref().unwrap().as_raw_fd());
                    ev["consumed"] = json!(after < before);
                    ev["ncalls"] = json!(core.take_calls().len());
                    ev["wrote"] = json!(drained(&b));
                    if let Err(e) = &r {
                        ev["res"] = json!("err");
                        ev["errno"] = json!(errno_of(e));
                    }
                    // leave nothing pending for the next step
                    if after > 0 {
                        let mut junk = vec![0u8; after as usize];
                        // SAFETY: reading queued bytes from a valid socket descriptor.
                        unsafe { libc::recv(srv.as_ref().unwrap().as_raw_fd(), junk.as_mut_ptr() as *mut libc::c_void, junk.len(), libc::MSG_DONTWAIT) };
                    }
                }
                _ => {
                    let tx = ftx.as_ref().unwrap();
                    let mut u = [5u8; 16];
                    u[0] = 1;
                    let _ = raw_send_all(tx, &request_bytes(6, &u), &[]);
                    fcore.s.lock().unwrap().calls.clear();
                    let h = fsrv.as_mut().unwrap();
                    let before = fionread(h.as_raw_fd());
                    let r = h.handle_request();
                    let after = fionread(h.as_raw_fd());
                    ev["consumed"] = json!(after < before);
                    ev["ncalls"] = json!(fcore.s.lock().unwrap().calls.len());
                    if let Err(e) = &r {
                        ev["res"] = json!("err");
                        ev["errno"] = json!(errno_of(e));
                    }
                    if after > 0 {
                        let mut junk = vec![0u8; after as usize];
                        // SAFETY: reading queued bytes from a valid socket descriptor.
                        unsafe { libc::recv(h.as_raw_fd(), junk.as_mut_ptr() as *mut libc::c_void, junk.len(), libc::MSG_DONTWAIT) };
                    }
                }
            }
            trace.emit(ev);
        }
        trace.emit(json!({"ev": "end"}));
    }
}
