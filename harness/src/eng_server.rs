//! Engine "server": an independent raw peer feeds request letters to the real
//! `BackendReqHandler` (scripted recording handler behind it) and records what the server did.
//!
//! Case format (one JSON object per line):
//!   {"id": .., "dev": {"vf": [bits], "pf": [bits]}, "adapter": "mutex"|"direct",
//!    "steps": [ {"c": code, "nr": bool, "h": "ok"|"fail", "var": "valid"|.., "v": [bits]} .. ]}
//! Trace: {"ev":"reset", ..} then one {"ev":"req", ..} per step.

use crate::common::*;
use crate::rec::*;
use crate::wire;
use serde_json::{json, Value};
use std::os::unix::io::AsRawFd;
use std::os::unix::net::UnixStream;
use std::sync::mpsc::{channel, Receiver, Sender};
use std::sync::{Arc, Mutex};
use std::time::Duration;
use vhost::vhost_user::BackendReqHandler;

pub struct ServerRig {
    /// kernel thread id of the server thread
    pub srv_tid: Arc<std::sync::atomic::AtomicI32>,
    pub peer: UnixStream,
    pub srv_dup: UnixStream,
    pub core: Arc<Core>,
    cmd: Sender<bool>,
    res: Receiver<String>,
    early: std::cell::RefCell<Option<String>>,
    thread: Option<std::thread::JoinHandle<()>>,
}

fn run_server<S: vhost::vhost_user::VhostUserBackendReqHandler + Send + Sync + 'static>(
    mut h: BackendReqHandler<S>,
    cmd: Receiver<bool>,
    res: Sender<String>,
    tid: Arc<std::sync::atomic::AtomicI32>,
) {
    tid.store(gettid(), std::sync::atomic::Ordering::SeqCst);
    while let Ok(go) = cmd.recv() {
        if !go {
            break;
        }
        let r = std::panic::catch_unwind(std::panic::AssertUnwindSafe(|| h.handle_request()));
        let s = match r {
            Ok(Ok(())) => "ok".to_string(),
            Ok(Err(e)) => format!("err:{}", errkind(&e)),
            Err(_) => "panic".to_string(),
        };
        if res.send(s).is_err() {
            break;
        }
    }
    drop(h);
}

impl ServerRig {
    pub fn new(adapter: &str) -> ServerRig {
        let (peer, srv) = UnixStream::pair().unwrap();
        let srv_dup = srv.try_clone().unwrap();
        let core = Core::new();
        let (ctx, crx) = channel::<bool>();
        let (rtx, rrx) = channel::<String>();
        let srv_tid = Arc::new(std::sync::atomic::AtomicI32::new(0));
        let st2 = srv_tid.clone();
        let thread = if adapter == "direct" {
            let h = BackendReqHandler::from_stream(srv, core.clone());
            std::thread::spawn(move || run_server(h, crx, rtx, st2))
        } else {
            let h = BackendReqHandler::from_stream(srv, Arc::new(Mutex::new(CoreMut(core.clone()))));
            std::thread::spawn(move || run_server(h, crx, rtx, st2))
        };
        ServerRig {
            srv_tid,
            peer,
            srv_dup,
            core,
            cmd: ctx,
            res: rrx,
            early: std::cell::RefCell::new(None),
            thread: Some(thread),
        }
    }

    /// Ask the server thread for one handle_request(); returns its result or "hang".
    pub fn serve_once(&self, timeout_ms: u64) -> String {
        self.start_serve();
        self.wait_result(timeout_ms)
    }

    pub fn start_serve(&self) {
        self.cmd.send(true).unwrap();
    }

    /// Wait until the server has consumed everything written so far (or `ms` elapsed).
    pub fn wait_drained(&self, ms: u64) -> bool {
        let t0 = std::time::Instant::now();
        while fionread(self.srv_dup.as_raw_fd()) > 0 {
            if self.early.borrow().is_some() {
                return false; // the server already returned: nobody will read the rest
            }
            if let Ok(r) = self.res.try_recv() {
                *self.early.borrow_mut() = Some(r);
                return false;
            }
            if t0.elapsed() > Duration::from_millis(ms) {
                return false;
            }
            std::thread::sleep(Duration::from_micros(20));
        }
        true
    }

    pub fn wait_result(&self, timeout_ms: u64) -> String {
        if let Some(r) = self.early.borrow_mut().take() {
            return r;
        }
        // "the server does not return" = the watchdog has expired and the server thread is seen asleep in a blocking call with
        // nothing left to read on its socket; a slow machine only makes this wait longer
        let tids = || vec![self.srv_tid.load(std::sync::atomic::Ordering::SeqCst)];
        match recv_or_blocked(&self.res, Duration::from_millis(timeout_ms), Duration::from_secs(120), &tids, &[self.srv_dup.as_raw_fd()]) {
            Some(s) => s,
            None => {
                // unblock the server: shut the socket down, then collect the result
                let _ = self.srv_dup.shutdown(std::net::Shutdown::Both);
                let late = self
                    .res
                    .recv_timeout(Duration::from_millis(5000))
                    .unwrap_or_else(|_| "stuck".into());
                format!("hang:{late}")
            }
        }
    }

    pub fn finish(mut self) {
        storm_release();
        let _ = self.cmd.send(false);
        let _ = self.peer.shutdown(std::net::Shutdown::Both);
        if let Some(t) = self.thread.take() {
            let _ = t.join();
        }
    }
}

pub fn apply_dev(core: &Core, dev: &Value) {
    let mut s = core.s.lock().unwrap();
    s.features = from_bits(&dev["vf"]);
    s.proto = from_bits(&dev["pf"]);
}

/// Execute one request letter; returns the trace event.
pub fn do_step(rig: &ServerRig, step: &Value, rng: &mut Rng) -> Value {
    do_step_ex(rig, step, rng).0
}

/// As do_step, plus what the peer read, receive by receive: (bytes, number of descriptors).
pub fn do_step_ex(rig: &ServerRig, step: &Value, rng: &mut Rng) -> (Value, Vec<(Vec<u8>, usize)>) {
    let code = step["c"].as_u64().unwrap() as u32;
    let nr = step["nr"].as_bool().unwrap_or(false);
    // SET_BACKEND_REQ_FD's handler method returns (): it cannot fail
    let h = if code == 21 { "ok" } else { step["h"].as_str().unwrap_or("ok") };
    let var = step["var"].as_str().unwrap_or("valid");
    let v = from_bits(&step["v"]);
    {
        let mut s = rig.core.s.lock().unwrap();
        s.fail = h == "fail";
        s.shape = step["shape"].as_str().unwrap_or("").to_string();
        s.calls.clear();
        s.ret_file = match (code, h, s.shape.as_str()) {
            (41, "ok", _) | (31, "ok", _) => Some(memfd("ret", 0x1000)),
            (42, "ok", "file") => Some(memfd("ret", 0x1000)),
            _ => None,
        };
        s.inflight = (rng.u64_edge(), rng.u64_edge(), 1 + rng.below(65535) as u16, 1 + rng.below(65535) as u16);
        s.vring_base = match rng.below(3) {
            0 => rng.below(65536) as u32,
            1 => *rng.pick(&[0x10000u32, 0x8000_0000, 0xffff_ffff, 0x7fff_7fff]),
            _ => rng.next() as u32,
        };
        s.queue_num = rng.u64_edge();
        s.max_mem_slots = rng.u64_edge();
        s.config_fill = rng.next() as u8;
        s.shmem = vec![rng.u64_edge(), rng.u64_edge(), rng.u64_edge()];
    }
    let hv = {
        let s = rig.core.s.lock().unwrap();
        json!({"features": limbs(s.features), "proto": limbs(s.proto | 8), "queue_num": limbs(s.queue_num),
            "vring_base": limbs(s.vring_base as u64), "max_mem_slots": limbs(s.max_mem_slots), "config_fill": s.config_fill,
            "inflight": [limbs(s.inflight.0), limbs(s.inflight.1), s.inflight.2, s.inflight.3],
            "shmem": s.shmem.iter().map(|x| limbs(*x)).collect::<Vec<_>>(),
            "ret_file": s.ret_file.as_ref().map(|f| fd_id(f.as_raw_fd())).unwrap_or_else(|| "none".into())})
    };
    let b = wire::build(code, nr, var, v, rng);
    let fds: Vec<i32> = b.files.iter().map(|f| f.as_raw_fd()).collect();
    let fdids: Vec<String> = fds.iter().map(|f| fd_id(*f)).collect();
    let bytes = b.bytes();
    let seg: Vec<usize> = step["seg"].as_array().map(|a| a.iter().map(|x| x.as_u64().unwrap() as usize).collect()).unwrap_or_default();
    let cut: i64 = step["cut"].as_i64().unwrap_or(-1);
    let fdseg: usize = step["fdseg"].as_u64().unwrap_or(0) as usize;
    let mut sent_ok = true;
    let res;
    let reset = step["reset"].as_bool().unwrap_or(false);
    if reset && cut >= 0 {
        // the peer goes away abruptly: an answered request whose reply it never reads, then `cut` bytes of this request, then
        // its socket is closed with the reply still unread -- the kernel reports a connection reset to the server, not an
        // orderly end of stream
        let mut g = Vec::new();
        g.extend_from_slice(&1u32.to_le_bytes());
        g.extend_from_slice(&1u32.to_le_bytes());
        g.extend_from_slice(&0u32.to_le_bytes());
        sent_ok = raw_send_all(&rig.peer, &g, &[]).is_ok();
        let first = rig.serve_once(3000);
        rig.core.s.lock().unwrap().calls.clear();
        rig.start_serve();
        let end = (cut as usize).min(bytes.len());
        if end > 0 {
            sent_ok &= raw_send_all(&rig.peer, &bytes[..end], &[]).is_ok();
            rig.wait_drained(1000);
        }
        // close the peer's socket while keeping its descriptor number valid: /dev/null is put in its place
        if let Ok(null) = std::fs::File::open("/dev/null") {
            // SAFETY: dup2 onto a descriptor this rig owns; the socket behind it is closed by the kernel.
            unsafe { libc::dup2(null.as_raw_fd(), rig.peer.as_raw_fd()) };
        }
        let r = rig.wait_result(3000);
        res = if first == "ok" { r } else { format!("setup:{first}") };
    } else if seg.is_empty() && cut < 0 {
        // (no receive script without segmentation: the position of a fault inside the message would not be defined)
        sent_ok = raw_send_all(&rig.peer, &bytes, &fds).is_ok();
        res = rig.serve_once(3000);
    } else {
        // real segment boundaries: write a segment, wait until the receiver has drained it
        // "recvfault": temporary receive conditions met by the server's receive attempts, by position (0 = the attempt goes
        // through); only meaningful for a split inside the header, where attempt k+1 continues the header's reassembly
        let recvfault: Vec<i32> = step["recvfault"].as_array().map(|a| a.iter().map(|x| x.as_i64().unwrap_or(0) as i32).collect()).unwrap_or_default();
        if !recvfault.is_empty() {
            crate::eng_sender::arm_recv(&rig.srv_dup, &recvfault);
        }
        rig.start_serve();
        let end = if cut >= 0 { cut as usize } else { bytes.len() };
        let mut bounds: Vec<usize> = seg.iter().cloned().filter(|x| *x < end).collect();
        bounds.push(end);
        let mut from = 0;
        // "fdall": every piece of the message carries descriptors of its own (as many as the first one)
        let fdall = step["fdall"].as_bool().unwrap_or(false);
        let extra_files: Vec<Vec<std::fs::File>> = if fdall { (0..bounds.len()).map(|_| (0..fds.len().max(1)).map(|_| memfd("piece", 0)).collect()).collect() } else { Vec::new() };
        let extra_fds: Vec<Vec<i32>> = extra_files.iter().map(|v| v.iter().map(|f| f.as_raw_fd()).collect()).collect();
        for (i, to) in bounds.iter().enumerate() {
            if *to > from {
                let f: &[i32] = if fdall && i > 0 { &extra_fds[i] } else if i == fdseg || fdall { &fds } else { &[] };
                sent_ok &= raw_send_all(&rig.peer, &bytes[from..*to], f).is_ok();
                rig.wait_drained(1000);
            }
            from = *to;
        }
        if cut >= 0 {
            let _ = rig.peer.shutdown(std::net::Shutdown::Write);
        }
        res = rig.wait_result(3000);
        if !recvfault.is_empty() {
            crate::eng_sender::disarm_recv();
        }
    }
    let leftover = fionread(rig.srv_dup.as_raw_fd());
    let (chunks, eof) = raw_drain(&rig.peer);
    let (msgs, extra) = split_messages(&chunks);
    close_chunk_fds(&chunks);
    let raw: Vec<(Vec<u8>, usize)> = chunks.iter().map(|(b, f)| (b.clone(), f.len())).collect();
    let calls = rig.core.take_calls();
    // discard anything the server did not consume so the next step starts at a boundary
    if leftover > 0 {
        let (c2, _) = raw_drain(&rig.srv_dup);
        close_chunk_fds(&c2);
    }
    (json!({
        "ev": "req", "c": code, "nr": nr, "h": h, "var": var, "v": bits(v),
        "shape": step["shape"].as_str().unwrap_or(""),
        "flags": b.flags, "size": b.size, "blen": b.body.len(), "nfds": fds.len(), "fdids": fdids,
        "args": b.args, "hv": hv, "sent": sent_ok, "seg": seg, "cut": cut, "fdseg": fdseg, "mlen": bytes.len(),
        "hang": res.starts_with("hang"), "res": res, "calls": calls, "ncalls": calls.len(), "reset": reset,
        "out": msgs, "nout": msgs.len(), "out_extra": extra, "leftover": leftover, "eof": eof,
    }), raw)
}

pub fn run(cases: &[Value], trace: &mut Trace, seed: u64) {
    for (k, case) in cases.iter().enumerate() {
        let mut rng = Rng::new(seed ^ (k as u64).wrapping_mul(0x1234567));
        let adapter = case["adapter"].as_str().unwrap_or("mutex");
        let watch = FdWatch::start();
        let rig = ServerRig::new(adapter);
        apply_dev(&rig.core, &case["dev"]);
        trace.emit(json!({"ev": "reset", "id": case["id"], "dev": case["dev"], "adapter": adapter}));
        for step in case["steps"].as_array().unwrap() {
            let ev = do_step(&rig, step, &mut rng);
            let dead = ev["res"].as_str().unwrap().starts_with("hang") || ev["cut"].as_i64().unwrap_or(-1) >= 0;
            trace.emit(ev);
            if dead {
                break;
            }
        }
        // teardown: drop the endpoint, the handler and everything it was lent
        {
            let mut sc = rig.core.s.lock().unwrap();
            sc.keep.clear();
            sc.backends.clear();
            sc.gpus.clear();
            sc.ret_file = None;
        }
        rig.finish();
        trace.emit(watch.finish());
    }
}
