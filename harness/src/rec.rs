//! Scripted, recording implementation of the backend request handler traits.
#![allow(dead_code)]

use crate::common::*;
use serde_json::{json, Value};
use std::fs::File;
use std::os::unix::io::AsRawFd;
use std::sync::{Arc, Mutex};
use vhost::vhost_user::message::*;
use vhost::vhost_user::{
    Backend, Error, GpuBackend, Result, VhostUserBackendReqHandler, VhostUserBackendReqHandlerMut,
};

#[derive(Default)]
pub struct Script {
    /// the next handler call fails
    pub fail: bool,
    /// how a reply-bearing handler misbehaves: "" | "wronglen" | "nofile"
    pub shape: String,
    pub features: u64,
    pub proto: u64,
    pub queue_num: u64,
    pub vring_base: u32,
    pub max_mem_slots: u64,
    pub config_fill: u8,
    pub ret_file: Option<File>,
    pub inflight: (u64, u64, u16, u16),
    pub shmem: Vec<u64>,
    pub calls: Vec<Value>,
    pub keep: Vec<File>,
    pub keep_files: bool,
    pub backends: Vec<Backend>,
    pub gpus: Vec<GpuBackend>,
    /// optional blocking gate inside the handler (C16): (entered flag, release flag)
    pub block: Option<Arc<(Mutex<(bool, bool)>, std::sync::Condvar)>>,
}

pub struct Core {
    pub s: Mutex<Script>,
}

impl Core {
    pub fn new() -> Arc<Core> {
        Arc::new(Core {
            s: Mutex::new(Script {
                queue_num: 2,
                max_mem_slots: 509,
                ..Default::default()
            }),
        })
    }
    pub fn take_calls(&self) -> Vec<Value> {
        std::mem::take(&mut self.s.lock().unwrap().calls)
    }
    fn log(&self, v: Value) -> Result<()> {
        let (fail, gate) = {
            let mut s = self.s.lock().unwrap();
            if s.calls.len() >= STORM_CALLS {
                // invoked over and over for one request: the count is the observation; park until the case is torn down
                drop(s);
                storm_park();
                return Err(Error::ReqHandlerError(std::io::Error::other("handler invoked without end")));
            }
            s.calls.push(v);
            (s.fail, s.block.clone())
        };
        if let Some(g) = gate {
            let (m, cv) = &*g;
            let mut st = m.lock().unwrap();
            st.0 = true;
            cv.notify_all();
            while !st.1 {
                st = cv.wait(st).unwrap();
            }
        }
        if fail {
            Err(Error::ReqHandlerError(std::io::Error::other("scripted failure")))
        } else {
            Ok(())
        }
    }
    fn file_json(&self, f: &File) -> Value {
        json!(fd_id(f.as_raw_fd()))
    }
    fn consume(&self, f: File) {
        let mut s = self.s.lock().unwrap();
        if s.keep_files {
            s.keep.push(f);
        }
    }
    fn region_json(r: &VhostUserMemoryRegion) -> Value {
        json!({"gpa": limbs(r.guest_phys_addr), "size": limbs(r.memory_size),
               "ua": limbs(r.user_addr), "off": limbs(r.mmap_offset)})
    }
}

impl VhostUserBackendReqHandler for Core {
    fn set_owner(&self) -> Result<()> {
        self.log(json!({"op": "set_owner"}))
    }
    fn reset_owner(&self) -> Result<()> {
        self.log(json!({"op": "reset_owner"}))
    }
    fn reset_device(&self) -> Result<()> {
        self.log(json!({"op": "reset_device"}))
    }
    fn get_features(&self) -> Result<u64> {
        self.log(json!({"op": "get_features"}))?;
        Ok(self.s.lock().unwrap().features)
    }
    fn set_features(&self, features: u64) -> Result<()> {
        self.log(json!({"op": "set_features", "v": limbs(features)}))
    }
    fn set_mem_table(&self, ctx: &[VhostUserMemoryRegion], files: Vec<File>) -> Result<()> {
        let regs: Vec<Value> = ctx.iter().map(Core::region_json).collect();
        let ids: Vec<Value> = files.iter().map(|f| self.file_json(f)).collect();
        let r = self.log(json!({"op": "set_mem_table", "regions": regs, "files": ids, "nfiles": files.len()}));
        for f in files {
            self.consume(f);
        }
        r
    }
    fn set_vring_num(&self, index: u32, num: u32) -> Result<()> {
        self.log(json!({"op": "set_vring_num", "index": index, "v": limbs(num as u64)}))
    }
    fn set_vring_addr(
        &self,
        index: u32,
        flags: VhostUserVringAddrFlags,
        descriptor: u64,
        used: u64,
        available: u64,
        log: u64,
    ) -> Result<()> {
        self.log(json!({"op": "set_vring_addr", "index": index, "flags": flags.bits(),
            "desc": limbs(descriptor), "used": limbs(used), "avail": limbs(available), "log": limbs(log)}))
    }
    fn set_vring_base(&self, index: u32, base: u32) -> Result<()> {
        self.log(json!({"op": "set_vring_base", "index": index, "v": limbs(base as u64)}))
    }
    fn get_vring_base(&self, index: u32) -> Result<VhostUserVringState> {
        self.log(json!({"op": "get_vring_base", "index": index}))?;
        Ok(VhostUserVringState::new(index, self.s.lock().unwrap().vring_base))
    }
    fn set_vring_kick(&self, index: u8, fd: Option<File>) -> Result<()> {
        let id = fd.as_ref().map(|f| self.file_json(f));
        let r = self.log(json!({"op": "set_vring_kick", "index": index, "files": id.iter().collect::<Vec<_>>(), "nfiles": id.iter().count()}));
        if let Some(f) = fd {
            self.consume(f);
        }
        r
    }
    fn set_vring_call(&self, index: u8, fd: Option<File>) -> Result<()> {
        let id = fd.as_ref().map(|f| self.file_json(f));
        let r = self.log(json!({"op": "set_vring_call", "index": index, "files": id.iter().collect::<Vec<_>>(), "nfiles": id.iter().count()}));
        if let Some(f) = fd {
            self.consume(f);
        }
        r
    }
    fn set_vring_err(&self, index: u8, fd: Option<File>) -> Result<()> {
        let id = fd.as_ref().map(|f| self.file_json(f));
        let r = self.log(json!({"op": "set_vring_err", "index": index, "files": id.iter().collect::<Vec<_>>(), "nfiles": id.iter().count()}));
        if let Some(f) = fd {
            self.consume(f);
        }
        r
    }
    fn get_protocol_features(&self) -> Result<VhostUserProtocolFeatures> {
        self.log(json!({"op": "get_protocol_features"}))?;
        Ok(VhostUserProtocolFeatures::from_bits_truncate(
            self.s.lock().unwrap().proto,
        ))
    }
    fn set_protocol_features(&self, features: u64) -> Result<()> {
        self.log(json!({"op": "set_protocol_features", "v": limbs(features)}))
    }
    fn get_queue_num(&self) -> Result<u64> {
        self.log(json!({"op": "get_queue_num"}))?;
        Ok(self.s.lock().unwrap().queue_num)
    }
    fn set_vring_enable(&self, index: u32, enable: bool) -> Result<()> {
        self.log(json!({"op": "set_vring_enable", "index": index, "v": limbs(enable as u64)}))
    }
    fn get_config(&self, offset: u32, size: u32, flags: VhostUserConfigFlags) -> Result<Vec<u8>> {
        self.log(json!({"op": "get_config", "offset": limbs(offset as u64), "size": limbs(size as u64), "flags": flags.bits()}))?;
        let s = self.s.lock().unwrap();
        let n = if s.shape == "wronglen" { size as usize + 1 } else { size as usize };
        Ok((0..n).map(|i| s.config_fill.wrapping_add(i as u8)).collect())
    }
    fn set_config(&self, offset: u32, buf: &[u8], flags: VhostUserConfigFlags) -> Result<()> {
        self.log(json!({"op": "set_config", "offset": limbs(offset as u64), "size": limbs(buf.len() as u64), "flags": flags.bits(), "payload": hex(buf)}))
    }
    fn set_backend_req_fd(&self, backend: Backend) {
        let _ = self.log(json!({"op": "set_backend_req_fd", "nfiles": 1}));
        self.s.lock().unwrap().backends.push(backend);
    }
    fn set_gpu_socket(&self, gpu_backend: GpuBackend) -> Result<()> {
        let r = self.log(json!({"op": "set_gpu_socket", "nfiles": 1}));
        self.s.lock().unwrap().gpus.push(gpu_backend);
        r
    }
    fn get_shared_object(&self, uuid: VhostUserSharedMsg) -> Result<File> {
        self.log(json!({"op": "get_shared_object", "uuid": hex(uuid.uuid.as_bytes())}))?;
        let mut s = self.s.lock().unwrap();
        match s.ret_file.take() {
            Some(f) => Ok(f),
            None => Err(Error::ReqHandlerError(std::io::Error::other("no file"))),
        }
    }
    fn get_inflight_fd(&self, inflight: &VhostUserInflight) -> Result<(VhostUserInflight, File)> {
        self.log(json!({"op": "get_inflight_fd", "mmap_size": limbs(inflight.mmap_size),
            "mmap_offset": limbs(inflight.mmap_offset), "num_queues": inflight.num_queues, "queue_size": inflight.queue_size}))?;
        let mut s = self.s.lock().unwrap();
        let i = s.inflight;
        match s.ret_file.take() {
            Some(f) => Ok((VhostUserInflight::new(i.0, i.1, i.2, i.3), f)),
            None => Err(Error::ReqHandlerError(std::io::Error::other("no file"))),
        }
    }
    fn set_inflight_fd(&self, inflight: &VhostUserInflight, file: File) -> Result<()> {
        let r = self.log(json!({"op": "set_inflight_fd", "mmap_size": limbs(inflight.mmap_size),
            "mmap_offset": limbs(inflight.mmap_offset), "num_queues": inflight.num_queues, "queue_size": inflight.queue_size,
            "files": [self.file_json(&file)], "nfiles": 1}));
        self.consume(file);
        r
    }
    fn get_max_mem_slots(&self) -> Result<u64> {
        self.log(json!({"op": "get_max_mem_slots"}))?;
        Ok(self.s.lock().unwrap().max_mem_slots)
    }
    fn add_mem_region(&self, region: &VhostUserSingleMemoryRegion, fd: File) -> Result<()> {
        let r = self.log(json!({"op": "add_mem_region", "regions": [Core::region_json(region)],
            "files": [self.file_json(&fd)], "nfiles": 1}));
        self.consume(fd);
        r
    }
    fn remove_mem_region(&self, region: &VhostUserSingleMemoryRegion) -> Result<()> {
        self.log(json!({"op": "remove_mem_region", "regions": [Core::region_json(region)], "nfiles": 0}))
    }
    fn set_device_state_fd(
        &self,
        direction: VhostTransferStateDirection,
        phase: VhostTransferStatePhase,
        fd: File,
    ) -> Result<Option<File>> {
        let r = self.log(json!({"op": "set_device_state_fd", "direction": direction as u32, "phase": phase as u32,
            "files": [self.file_json(&fd)], "nfiles": 1}));
        self.consume(fd);
        r?;
        Ok(self.s.lock().unwrap().ret_file.take())
    }
    fn check_device_state(&self) -> Result<()> {
        self.log(json!({"op": "check_device_state"}))
    }
    fn get_shmem_config(&self) -> Result<VhostUserShMemConfig> {
        self.log(json!({"op": "get_shmem_config"}))?;
        let s = self.s.lock().unwrap();
        Ok(VhostUserShMemConfig::new(s.shmem.len() as u32, &s.shmem))
    }
    fn set_log_base(&self, log: &VhostUserLog, file: File) -> Result<()> {
        let r = self.log(json!({"op": "set_log_base", "mmap_size": limbs(log.mmap_size), "mmap_offset": limbs(log.mmap_offset),
            "files": [self.file_json(&file)], "nfiles": 1}));
        self.consume(file);
        r
    }
}

/// The same handler through the `Mut` trait (to be wrapped in the library's `Mutex<T>` adapter).
pub struct CoreMut(pub Arc<Core>);

impl VhostUserBackendReqHandlerMut for CoreMut {
    fn set_owner(&mut self) -> Result<()> {
        self.0.set_owner()
    }
    fn reset_owner(&mut self) -> Result<()> {
        self.0.reset_owner()
    }
    fn reset_device(&mut self) -> Result<()> {
        self.0.reset_device()
    }
    fn get_features(&mut self) -> Result<u64> {
        self.0.get_features()
    }
    fn set_features(&mut self, features: u64) -> Result<()> {
        self.0.set_features(features)
    }
    fn set_mem_table(&mut self, ctx: &[VhostUserMemoryRegion], files: Vec<File>) -> Result<()> {
        self.0.set_mem_table(ctx, files)
    }
    fn set_vring_num(&mut self, index: u32, num: u32) -> Result<()> {
        self.0.set_vring_num(index, num)
    }
    fn set_vring_addr(
        &mut self,
        index: u32,
        flags: VhostUserVringAddrFlags,
        descriptor: u64,
        used: u64,
        available: u64,
        log: u64,
    ) -> Result<()> {
        self.0
            .set_vring_addr(index, flags, descriptor, used, available, log)
    }
    fn set_vring_base(&mut self, index: u32, base: u32) -> Result<()> {
        self.0.set_vring_base(index, base)
    }
    fn get_vring_base(&mut self, index: u32) -> Result<VhostUserVringState> {
        self.0.get_vring_base(index)
    }
    fn set_vring_kick(&mut self, index: u8, fd: Option<File>) -> Result<()> {
        self.0.set_vring_kick(index, fd)
    }
    fn set_vring_call(&mut self, index: u8, fd: Option<File>) -> Result<()> {
        self.0.set_vring_call(index, fd)
    }
    fn set_vring_err(&mut self, index: u8, fd: Option<File>) -> Result<()> {
        self.0.set_vring_err(index, fd)
    }
    fn get_protocol_features(&mut self) -> Result<VhostUserProtocolFeatures> {
        self.0.get_protocol_features()
    }
    fn set_protocol_features(&mut self, features: u64) -> Result<()> {
        self.0.set_protocol_features(features)
    }
    fn get_queue_num(&mut self) -> Result<u64> {
        self.0.get_queue_num()
    }
    fn set_vring_enable(&mut self, index: u32, enable: bool) -> Result<()> {
        self.0.set_vring_enable(index, enable)
    }
    fn get_config(
        &mut self,
        offset: u32,
        size: u32,
        flags: VhostUserConfigFlags,
    ) -> Result<Vec<u8>> {
        self.0.get_config(offset, size, flags)
    }
    fn set_config(&mut self, offset: u32, buf: &[u8], flags: VhostUserConfigFlags) -> Result<()> {
        self.0.set_config(offset, buf, flags)
    }
    fn set_backend_req_fd(&mut self, backend: Backend) {
        self.0.set_backend_req_fd(backend)
    }
    fn set_gpu_socket(&mut self, gpu_backend: GpuBackend) -> Result<()> {
        self.0.set_gpu_socket(gpu_backend)
    }
    fn get_shared_object(&mut self, uuid: VhostUserSharedMsg) -> Result<File> {
        self.0.get_shared_object(uuid)
    }
    fn get_inflight_fd(
        &mut self,
        inflight: &VhostUserInflight,
    ) -> Result<(VhostUserInflight, File)> {
        self.0.get_inflight_fd(inflight)
    }
    fn set_inflight_fd(&mut self, inflight: &VhostUserInflight, file: File) -> Result<()> {
        self.0.set_inflight_fd(inflight, file)
    }
    fn get_max_mem_slots(&mut self) -> Result<u64> {
        self.0.get_max_mem_slots()
    }
    fn add_mem_region(&mut self, region: &VhostUserSingleMemoryRegion, fd: File) -> Result<()> {
        self.0.add_mem_region(region, fd)
    }
    fn remove_mem_region(&mut self, region: &VhostUserSingleMemoryRegion) -> Result<()> {
        self.0.remove_mem_region(region)
    }
    fn set_device_state_fd(
        &mut self,
        direction: VhostTransferStateDirection,
        phase: VhostTransferStatePhase,
        fd: File,
    ) -> Result<Option<File>> {
        self.0.set_device_state_fd(direction, phase, fd)
    }
    fn check_device_state(&mut self) -> Result<()> {
        self.0.check_device_state()
    }
    fn get_shmem_config(&mut self) -> Result<VhostUserShMemConfig> {
        self.0.get_shmem_config()
    }
    fn set_log_base(&mut self, log: &VhostUserLog, file: File) -> Result<()> {
        self.0.set_log_base(log, file)
    }
}
