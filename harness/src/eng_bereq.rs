//! Engine "bereq": backend-initiated requests.
//!   mode "pair":    real `Backend` proxy  <->  real `FrontendReqHandler` (recording handler)
//!   mode "rawpeer": real `Backend` proxy  <->  independent raw peer (sees bytes, scripts the ack)
//!   mode "rawsrv":  independent raw peer  ->   real `FrontendReqHandler` (reads the ack bytes)
//!
//! Case: {"id":.., "mode":.., "adapter":"mutex"|"direct", "steps":[
//!     {"t":"flag","f":"ra"|"so"|"sh"|"hra","b":bool} | {"t":"req","k":6..10,"r":class, "peer":.., "nr":bool, "var":.., "seg":[..], "cut":n} ]}

use crate::common::*;
use serde_json::{json, Value};
use std::fs::File;
use std::os::unix::io::{AsRawFd, FromRawFd};
use std::os::unix::net::UnixStream;
use std::sync::mpsc::{channel, Receiver, Sender};
use std::sync::{Arc, Mutex};
use std::time::Duration;
use vhost::vhost_user::message::*;
use vhost::vhost_user::{
    Backend, FrontendReqHandler, HandlerResult, VhostUserFrontendReqHandler,
    VhostUserFrontendReqHandlerMut,
};

#[derive(Default)]
pub struct FScript {
    pub r: String,
    pub val: u64,
    pub errno: i32,
    pub calls: Vec<Value>,
}
pub struct FCore {
    pub s: Mutex<FScript>,
}
impl FCore {
    fn result(&self, v: Value) -> HandlerResult<u64> {
        let mut s = self.s.lock().unwrap();
        if s.calls.len() >= STORM_CALLS {
            // invoked over and over for one request: the count is the observation; park until the case is torn down
            drop(s);
            storm_park();
            return Err(std::io::Error::other("handler invoked without end"));
        }
        s.calls.push(v);
        match s.r.as_str() {
            "zero" => Ok(0),
            "nonzero" => Ok(s.val),
            "errno" => Err(std::io::Error::from_raw_os_error(s.errno)),
            _ => Err(std::io::Error::other("scripted failure without errno")),
        }
    }
    fn mmap_json(req: &VhostUserMMap) -> Value {
        let (shmid, fo, so, len, fl) = (req.shmid, req.fd_offset, req.shm_offset, req.len, req.flags);
        json!({"shmid": shmid, "fd_offset": limbs(fo), "shm_offset": limbs(so), "len": limbs(len), "flags": limbs(fl)})
    }
}
impl VhostUserFrontendReqHandler for FCore {
    fn handle_config_change(&self) -> HandlerResult<u64> {
        self.result(json!({"k": 2, "args": {}, "files": []}))
    }
    fn shared_object_add(&self, uuid: &VhostUserSharedMsg) -> HandlerResult<u64> {
        self.result(json!({"k": 6, "args": {"uuid": hex(uuid.uuid.as_bytes())}, "files": []}))
    }
    fn shared_object_remove(&self, uuid: &VhostUserSharedMsg) -> HandlerResult<u64> {
        self.result(json!({"k": 7, "args": {"uuid": hex(uuid.uuid.as_bytes())}, "files": []}))
    }
    fn shared_object_lookup(&self, uuid: &VhostUserSharedMsg, fd: &dyn AsRawFd) -> HandlerResult<u64> {
        self.result(json!({"k": 8, "args": {"uuid": hex(uuid.uuid.as_bytes())}, "files": [fd_id(fd.as_raw_fd())]}))
    }
    fn shmem_map(&self, req: &VhostUserMMap, fd: &dyn AsRawFd) -> HandlerResult<u64> {
        self.result(json!({"k": 9, "args": FCore::mmap_json(req), "files": [fd_id(fd.as_raw_fd())]}))
    }
    fn shmem_unmap(&self, req: &VhostUserMMap) -> HandlerResult<u64> {
        self.result(json!({"k": 10, "args": FCore::mmap_json(req), "files": []}))
    }
}
pub struct FCoreMut(pub Arc<FCore>);
impl VhostUserFrontendReqHandlerMut for FCoreMut {
    fn handle_config_change(&mut self) -> HandlerResult<u64> {
        self.0.handle_config_change()
    }
    fn shared_object_add(&mut self, uuid: &VhostUserSharedMsg) -> HandlerResult<u64> {
        self.0.shared_object_add(uuid)
    }
    fn shared_object_remove(&mut self, uuid: &VhostUserSharedMsg) -> HandlerResult<u64> {
        self.0.shared_object_remove(uuid)
    }
    fn shared_object_lookup(&mut self, uuid: &VhostUserSharedMsg, fd: &dyn AsRawFd) -> HandlerResult<u64> {
        self.0.shared_object_lookup(uuid, fd)
    }
    fn shmem_map(&mut self, req: &VhostUserMMap, fd: &dyn AsRawFd) -> HandlerResult<u64> {
        self.0.shmem_map(req, fd)
    }
    fn shmem_unmap(&mut self, req: &VhostUserMMap) -> HandlerResult<u64> {
        self.0.shmem_unmap(req)
    }
}

/// Anything that can run one handle_request().
trait Srv: Send {
    fn serve(&mut self) -> String;
    fn set_ra(&mut self, b: bool);
}
impl<S: VhostUserFrontendReqHandler + Send + Sync> Srv for FrontendReqHandler<S> {
    fn serve(&mut self) -> String {
        match std::panic::catch_unwind(std::panic::AssertUnwindSafe(|| self.handle_request())) {
            Ok(Ok(v)) => format!("ok:{v}"),
            Ok(Err(e)) => format!("err:{}", errkind(&e)),
            Err(_) => "panic".into(),
        }
    }
    fn set_ra(&mut self, b: bool) {
        self.set_reply_ack_flag(b)
    }
}

enum Cmd {
    Serve,
    SetRa(bool),
    Quit,
}

struct SrvRig {
    cmd: Sender<Cmd>,
    res: Receiver<String>,
    core: Arc<FCore>,
    /// a dup of the socket end that is handed to the backend (tx side)
    tx: UnixStream,
    /// a dup of the server's receiving socket is not available (private); use tx for shutdown
    thread: Option<std::thread::JoinHandle<()>>,
    /// kernel thread id of the server thread
    tid: Arc<std::sync::atomic::AtomicI32>,
}

fn new_srv(adapter: &str) -> SrvRig {
    let core = Arc::new(FCore {
        s: Mutex::new(FScript::default()),
    });
    let (ctx, crx) = channel::<Cmd>();
    let (rtx, rrx) = channel::<String>();
    let (mut srv, txfd): (Box<dyn Srv>, i32) = if adapter == "direct" {
        let h = FrontendReqHandler::new(core.clone()).unwrap();
        let fd = h.get_tx_raw_fd();
        (Box::new(h), fd)
    } else {
        let h = FrontendReqHandler::new(Arc::new(Mutex::new(FCoreMut(core.clone())))).unwrap();
        let fd = h.get_tx_raw_fd();
        (Box::new(h), fd)
    };
    // SAFETY: dup of a valid socket descriptor, owned by the new UnixStream.
    let tx = unsafe { UnixStream::from_raw_fd(libc::dup(txfd)) };
    let tid = Arc::new(std::sync::atomic::AtomicI32::new(0));
    let tid2 = tid.clone();
    let thread = std::thread::spawn(move || {
        tid2.store(gettid(), std::sync::atomic::Ordering::SeqCst);
        while let Ok(c) = crx.recv() {
            match c {
                Cmd::Serve => {
                    let r = srv.serve();
                    if rtx.send(r).is_err() {
                        break;
                    }
                }
                Cmd::SetRa(b) => srv.set_ra(b),
                Cmd::Quit => break,
            }
        }
    });
    SrvRig {
        cmd: ctx,
        res: rrx,
        core,
        tx,
        thread: Some(thread),
        tid,
    }
}

impl SrvRig {
    fn finish(mut self) {
        storm_release();
        let _ = self.cmd.send(Cmd::Quit);
        let _ = self.tx.shutdown(std::net::Shutdown::Both);
        if let Some(t) = self.thread.take() {
            let _ = t.join();
        }
    }
}

fn script(core: &FCore, r: &str, rng: &mut Rng, step: &Value) -> Value {
    let mut s = core.s.lock().unwrap();
    s.r = r.to_string();
    s.val = *rng.pick(&[1u64, 2, 0xff, 0x1_0000_0000, u64::MAX, 0x8000_0000_0000_0000]);
    s.errno = *rng.pick(&[1, 2, 4, 5, 11, 12, 22, 32, 38, 95, 104, 4095]);
    // the case may fix the handler's value / errno (so that every class of value is certainly exercised)
    if step.get("val").map(|v| v.is_array()).unwrap_or(false) {
        s.val = from_limbs(&step["val"]);
    }
    if let Some(e) = step.get("errno").and_then(|e| e.as_i64()) {
        s.errno = e as i32;
    }
    s.calls.clear();
    json!({"val": limbs(s.val), "errno": s.errno})
}

pub struct BReq {
    pub args: Value,
    pub body: Vec<u8>,
    pub file: Option<File>,
}

/// Arguments of a request of kind k (valid unless `var` names a violated rule).
pub fn make_req(k: u64, var: &str, rng: &mut Rng) -> (VhostUserSharedMsg, VhostUserMMap, BReq) {
    let mut u = [0u8; 16];
    for x in u.iter_mut() {
        *x = rng.next() as u8;
    }
    u[0] |= 1;
    u[1] &= 0xfe;
    match var {
        "body.nil" => u = [0; 16],
        "body.max" => u = [0xff; 16],
        _ => {}
    }
    let mut len = 1 + rng.below(0x10_0000);
    let mut fd_offset = rng.u64_edge() % (u64::MAX - len);
    let mut shm_offset = rng.u64_edge() % (u64::MAX - len);
    let mut flags = rng.below(2);
    // valid ranges that end exactly at the top of the 64-bit space (offset + len = 2^64 - 1: no wrap)
    match rng.below(6) {
        0 => fd_offset = u64::MAX - len,
        1 => shm_offset = u64::MAX - len,
        2 => {
            fd_offset = 0;
            shm_offset = 0;
            len = u64::MAX;
        }
        _ => {}
    }
    match var {
        "body.len0" => len = 0,
        "body.fd_wrap" => fd_offset = u64::MAX - len + 1,
        "body.shm_wrap" => shm_offset = u64::MAX - len + 1,
        "body.flags_undef" => flags |= 1 << (1 + rng.below(63)),
        _ => {}
    }
    let shmid = rng.next() as u8;
    let m = VhostUserMMap {
        shmid,
        padding: [0; 7],
        fd_offset,
        shm_offset,
        len,
        flags,
    };
    let sm = VhostUserSharedMsg {
        uuid: uuid::Uuid::from_bytes(u),
    };
    let mut body = Vec::new();
    let args;
    if k == 2 {
        // CONFIG_CHANGE_MSG: no body
        args = json!({});
    } else if k <= 8 {
        body.extend_from_slice(&u);
        args = json!({"uuid": hex(&u), "ubytes": bytes_json(&u)});
    } else {
        body.push(shmid);
        body.extend_from_slice(&[0u8; 7]);
        body.extend_from_slice(&fd_offset.to_le_bytes());
        body.extend_from_slice(&shm_offset.to_le_bytes());
        body.extend_from_slice(&len.to_le_bytes());
        body.extend_from_slice(&flags.to_le_bytes());
        args = json!({"shmid": shmid, "fd_offset": limbs(fd_offset), "shm_offset": limbs(shm_offset), "len": limbs(len), "flags": limbs(flags)});
    }
    let file = if k == 8 || k == 9 { Some(memfd("bereq", 0x1000)) } else { None };
    (sm, m, BReq { args, body, file })
}

fn proxy_call(b: &Backend, k: u64, sm: &VhostUserSharedMsg, m: &VhostUserMMap, f: &Option<File>) -> String {
    let r = match k {
        6 => b.shared_object_add(sm),
        7 => b.shared_object_remove(sm),
        8 => b.shared_object_lookup(sm, f.as_ref().unwrap()),
        9 => b.shmem_map(m, f.as_ref().unwrap()),
        _ => b.shmem_unmap(m),
    };
    match r {
        Ok(v) => format!("ok:{v}"),
        Err(e) => {
            let s = format!("{e}");
            let kind = if s.contains("not negotiated") {
                "NotNegotiated".to_string()
            } else {
                s.split(|c: char| c == ':' || c == ' ').next().unwrap_or("").to_string()
            };
            format!("err:{kind}")
        }
    }
}

fn flagval(st: &Value, f: &str) -> bool {
    st[f].as_bool().unwrap_or(false)
}

pub fn run(cases: &[Value], trace: &mut Trace, seed: u64) {
    static SENT: std::sync::atomic::AtomicU64 = std::sync::atomic::AtomicU64::new(0);
    vhost::verif::set_controller(Some(Arc::new(|p: &'static str, _a: &[u64]| {
        if p == "be.sent" {
            SENT.fetch_add(1, std::sync::atomic::Ordering::SeqCst);
        }
    })));
    // every hang verdict costs a third of a second at best: once a process has established a few hundred of them the remaining
    // cases add nothing (the unchanged tree has none in this engine)
    let mut nhangs = 0usize;
    let budget_file = std::env::var("VH_BUDGET_FILE").ok();
    for (kc, case) in cases.iter().enumerate() {
        if nhangs >= 200 {
            if let Some(f) = &budget_file {
                let _ = std::fs::write(f, b"200 hang verdicts in one process\n");
            }
            break;
        }
        if kc % 64 == 0 && budget_file.as_ref().map(|f| std::path::Path::new(f).exists()).unwrap_or(false) {
            break;
        }
        let mut rng = Rng::new(seed ^ (kc as u64).wrapping_mul(0x77_1234_5));
        let mode = case["mode"].as_str().unwrap_or("pair");
        let adapter = case["adapter"].as_str().unwrap_or("mutex");
        trace.emit(json!({"ev": "reset", "id": case["id"], "mode": mode, "adapter": adapter}));
        let watch = FdWatch::start();
        let mut st = json!({"ra": false, "so": false, "sh": false, "hra": false});
        // endpoints
        let srv = if mode != "rawpeer" { Some(new_srv(adapter)) } else { None };
        let (peer_sock, backend) = match mode {
            "pair" => (None, Some(Backend::from_stream(srv.as_ref().unwrap().tx.try_clone().unwrap()))),
            "rawpeer" => {
                let (a, b) = UnixStream::pair().unwrap();
                (Some(b), Some(Backend::from_stream(a)))
            }
            _ => (Some(srv.as_ref().unwrap().tx.try_clone().unwrap()), None),
        };
        let recvfault: Vec<i32> = case["recvfault"].as_array().map(|a| a.iter().map(|x| x.as_i64().unwrap_or(0) as i32).collect()).unwrap_or_default();
        let mut dead = false;
        for step in case["steps"].as_array().unwrap() {
            if dead {
                break;
            }
            if step["t"].as_str() == Some("flag") {
                let f = step["f"].as_str().unwrap();
                let b = step["b"].as_bool().unwrap();
                st[f] = json!(b);
                if let Some(be) = &backend {
                    match f {
                        "ra" => be.set_reply_ack_flag(b),
                        "so" => be.set_shared_object_flag(b),
                        "sh" => be.set_shmem_flag(b),
                        _ => {}
                    }
                }
                if f == "hra" {
                    if let Some(s) = &srv {
                        s.cmd.send(Cmd::SetRa(b)).unwrap();
                    }
                }
                trace.emit(json!({"ev": "flag", "f": f, "b": b}));
                continue;
            }
            let k = step["k"].as_u64().unwrap();
            let r = step["r"].as_str().unwrap_or("zero");
            let var = step["var"].as_str().unwrap_or("valid");
            let peer_beh = step["peer"].as_str().unwrap_or("auto");
            let (sm, m, req) = make_req(k, var, &mut rng);
            let lent_id = req.file.as_ref().map(|f| fd_id(f.as_raw_fd())).unwrap_or_else(|| "none".to_string());
            let hv = srv.as_ref().map(|s| script(&s.core, r, &mut rng, step)).unwrap_or_else(|| {
                let mut val = *rng.pick(&[1u64, 2, 0xff, 0x1_0000_0000, u64::MAX, 0x8000_0000_0000_0000]);
                let mut errno = *rng.pick(&[1i32, 22, 38]);
                if step.get("val").map(|v| v.is_array()).unwrap_or(false) {
                    val = from_limbs(&step["val"]);
                }
                if let Some(e) = step.get("errno").and_then(|e| e.as_i64()) {
                    errno = e as i32;
                }
                json!({"val": limbs(val), "errno": errno})
            });
            let sent0 = SENT.load(std::sync::atomic::Ordering::SeqCst);
            match mode {
                "pair" => {
                    let s = srv.as_ref().unwrap();
                    let be = backend.clone().unwrap();
                    if !recvfault.is_empty() {
                        // the proxy's end of the channel (it reads the acknowledgement there)
                        crate::eng_sender::arm_recv(&s.tx, &recvfault);
                    }
                    let (tx, rx) = channel();
                    let f2 = req.file.as_ref().map(|f| f.try_clone().unwrap());
                    let call_tid = Arc::new(std::sync::atomic::AtomicI32::new(0));
                    let ct2 = call_tid.clone();
                    let t = std::thread::spawn(move || {
                        ct2.store(gettid(), std::sync::atomic::Ordering::SeqCst);
                        let r = std::panic::catch_unwind(std::panic::AssertUnwindSafe(|| proxy_call(&be, k, &sm, &m, &f2)));
                        let _ = tx.send(r.unwrap_or_else(|_| "panic".into()));
                    });
                    // the server serves exactly the requests the proxy wrote
                    let mut res = None;
                    let mut srv_res = Vec::new();
                    let t0 = std::time::Instant::now();
                    let mut serving = false;
                    let mut hang = false;
                    loop {
                        if res.is_none() {
                            if let Ok(x) = rx.recv_timeout(Duration::from_micros(100)) {
                                res = Some(x);
                            }
                        }
                        let sent = SENT.load(std::sync::atomic::Ordering::SeqCst) - sent0;
                        if !serving && (srv_res.len() as u64) < sent {
                            s.cmd.send(Cmd::Serve).unwrap();
                            serving = true;
                        }
                        if serving {
                            if let Ok(x) = s.res.recv_timeout(Duration::from_micros(100)) {
                                srv_res.push(x);
                                serving = false;
                            }
                        }
                        let sent = SENT.load(std::sync::atomic::Ordering::SeqCst) - sent0;
                        if res.is_some() && !serving && srv_res.len() as u64 >= sent {
                            break;
                        }
                        // "never completes": watchdog expired and both the proxy's caller and the server thread are seen asleep
                        // in a blocking call with nothing left to read (or one of them spins) -- not merely a slow machine
                        // When the server has been asked to serve every request the proxy wrote and has returned from each, nobody
                        // is left who would read what may still sit in its socket: the caller asleep in its read is then stuck for
                        // good, whatever the clock says (a closed system with every thread asleep makes no progress).
                        let all_served = !serving && srv_res.len() as u64 >= sent;
                        let tids = [call_tid.load(std::sync::atomic::Ordering::SeqCst), s.tid.load(std::sync::atomic::Ordering::SeqCst)];
                        // (the caller must have written its request and be asleep in a socket read -- not in some lock on its way
                        // there -- for this early verdict; everything else takes the watchdog path)
                        let caller_reads = matches!(thread_state(tids[0]), ('S', 0) | ('S', 45) | ('S', 47) | ('S', 63) | ('S', 207) | ('S', 212));
                        if (all_served && sent >= 1 && caller_reads && t0.elapsed() > Duration::from_millis(300) && res.is_none() && all_blocked(&tids, &[]))
                            || (t0.elapsed() > Duration::from_millis(2000) && hang_confirmed(t0, &tids, &[s.tx.as_raw_fd()]))
                        {
                            hang = true;
                            nhangs += 1;
                            let _ = s.tx.shutdown(std::net::Shutdown::Both);
                            if res.is_none() {
                                res = rx.recv_timeout(Duration::from_millis(3000)).ok();
                            }
                            // a call that comes back with a success after all had completed on its own: not a hang
                            if res.as_deref().map(|r| r.starts_with("ok")).unwrap_or(false) {
                                hang = false;
                            }
                            break;
                        }
                    }
                    if !hang || res.is_some() || t.is_finished() {
                        let _ = t.join();
                    }
                    if !recvfault.is_empty() {
                        crate::eng_sender::disarm_recv();
                    }
                    let calls = std::mem::take(&mut s.core.s.lock().unwrap().calls);
                    let lent_ok = req.file.as_ref().map(|f| fd_id(f.as_raw_fd()) != "closed").unwrap_or(true);
                    trace.emit(json!({"ev": "breq", "mode": mode, "k": k, "r": r, "var": var, "args": req.args, "lent": lent_id,
                        "res": res.unwrap_or_else(|| "stuck".into()), "hang": hang, "calls": calls, "ncalls": calls.len(),
                        "srv_res": srv_res, "sent": SENT.load(std::sync::atomic::Ordering::SeqCst) - sent0, "hv": hv, "lent_ok": lent_ok,
                        "wire": [], "nwire": 0, "ack": {}, "peer": "real", "nr": flagval(&st, "ra"), "out": [], "nout": 0, "seg": [], "cut": -1, "leftover": 0}));
                    if hang {
                        dead = true;
                    }
                }
                "rawpeer" => {
                    let be = backend.clone().unwrap();
                    let ps = peer_sock.as_ref().unwrap();
                    let (tx, rx) = channel();
                    let f2 = req.file.as_ref().map(|f| f.try_clone().unwrap());
                    let call_tid = Arc::new(std::sync::atomic::AtomicI32::new(0));
                    let ct2 = call_tid.clone();
                    let t = std::thread::spawn(move || {
                        ct2.store(gettid(), std::sync::atomic::Ordering::SeqCst);
                        let r = std::panic::catch_unwind(std::panic::AssertUnwindSafe(|| proxy_call(&be, k, &sm, &m, &f2)));
                        let _ = tx.send(r.unwrap_or_else(|_| "panic".into()));
                    });
                    let t0 = std::time::Instant::now();
                    let mut chunks_all = Vec::new();
                    let mut res = None;
                    let mut answered = 0usize;
                    let mut ack = json!({});
                    let mut hang = false;
                    loop {
                        if res.is_none() {
                            if let Ok(x) = rx.recv_timeout(Duration::from_micros(200)) {
                                res = Some(x);
                            }
                        }
                        let (chunks, _) = raw_drain(ps);
                        chunks_all.extend(chunks);
                        let (msgs, _) = split_messages(&chunks_all);
                        while answered < msgs.len() {
                            let mm = &msgs[answered];
                            answered += 1;
                            let flags = mm["flags"].as_u64().unwrap();
                            if flags & 8 != 0 && res.is_none() {
                                // an independent frontend acknowledges iff NEED_REPLY is set
                                let code = mm["c"].as_u64().unwrap() as u32;
                                let (val, mut rcode, mut rflags, mut size) = match r {
                                    "zero" => (0u64, code, 5u32, 8u32),
                                    "nonzero" => (from_limbs(&hv["val"]), code, 5, 8),
                                    "errno" => ((-(hv["errno"].as_i64().unwrap())) as u64, code, 5, 8),
                                    _ => ((-22i64) as u64, code, 5, 8),
                                };
                                let mut body = val.to_le_bytes().to_vec();
                                let mut extra: Vec<File> = Vec::new();
                                match peer_beh {
                                    "code+1" => rcode = if code == 10 { 1 } else { code + 1 },
                                    "code=0" => rcode = 0,
                                    "code=999" => rcode = 999,
                                    "flag-reply" => rflags &= !4,
                                    "ver0" => rflags &= !3,
                                    "ver2" => rflags = (rflags & !3) | 2,
                                    "resv" => rflags |= 1 << (4 + rng.below(28)),
                                    "size-1" => {
                                        body.pop();
                                        size -= 1
                                    }
                                    "size_field>max" => size = 5000,
                                    "body_short" => body.truncate(3),
                                    // a well-formed acknowledgement that reports failure with a value whose low half is zero
                                    "val=2^32" => body = (1u64 << 32).to_le_bytes().to_vec(),
                                    "val=2^63" => body = (1u64 << 63).to_le_bytes().to_vec(),
                                    "val=-2^32" => body = ((-(1i64 << 32)) as u64).to_le_bytes().to_vec(),
                                    "fds+1" => extra.push(memfd("x", 0)),
                                    "random" => {
                                        rcode = rng.next() as u32;
                                        rflags = rng.next() as u32;
                                        size = rng.next() as u32;
                                    }
                                    _ => {}
                                }
                                if peer_beh != "silent" {
                                    let mut bytes = Vec::new();
                                    bytes.extend_from_slice(&rcode.to_le_bytes());
                                    bytes.extend_from_slice(&rflags.to_le_bytes());
                                    bytes.extend_from_slice(&size.to_le_bytes());
                                    bytes.extend_from_slice(&body);
                                    let fds: Vec<i32> = extra.iter().map(|f| f.as_raw_fd()).collect();
                                    let _ = raw_send_all(ps, &bytes, &fds);
                                    if peer_beh != "auto" {
                                        let _ = ps.shutdown(std::net::Shutdown::Write);
                                    }
                                }
                                ack = json!({"val": limbs(val), "c": rcode, "flags": rflags, "size": size});
                            }
                        }
                        if res.is_some() {
                            let (chunks, _) = raw_drain(ps);
                            chunks_all.extend(chunks);
                            break;
                        }
                        if t0.elapsed() > Duration::from_millis(2000) && hang_confirmed(t0, &[call_tid.load(std::sync::atomic::Ordering::SeqCst)], &[]) {
                            hang = true;
                            nhangs += 1;
                            let _ = ps.shutdown(std::net::Shutdown::Both);
                            res = rx.recv_timeout(Duration::from_millis(3000)).ok();
                            break;
                        }
                    }
                    if !hang || res.is_some() || t.is_finished() {
                        let _ = t.join();
                    }
                    let (msgs, leftover) = split_messages(&chunks_all);
                    close_chunk_fds(&chunks_all);
                    let lent_ok = req.file.as_ref().map(|f| fd_id(f.as_raw_fd()) != "closed").unwrap_or(true);
                    trace.emit(json!({"ev": "breq", "mode": mode, "k": k, "r": r, "var": var, "args": req.args, "lent": lent_id,
                        "res": res.unwrap_or_else(|| "stuck".into()), "hang": hang, "calls": [], "ncalls": 0, "srv_res": [],
                        "sent": SENT.load(std::sync::atomic::Ordering::SeqCst) - sent0, "hv": hv, "lent_ok": lent_ok,
                        "wire": msgs, "nwire": msgs.len(), "ack": ack, "peer": peer_beh, "nr": flagval(&st, "ra"), "out": [], "nout": 0,
                        "seg": [], "cut": -1, "leftover": leftover}));
                    if hang || peer_beh != "auto" {
                        dead = true;
                    }
                }
                _ => {
                    // rawsrv: raw peer -> real FrontendReqHandler
                    let s = srv.as_ref().unwrap();
                    let ps = peer_sock.as_ref().unwrap();
                    let nr = step["nr"].as_bool().unwrap_or(true);
                    let mut flags: u32 = 1 | if nr { 8 } else { 0 };
                    let mut body = req.body.clone();
                    let mut size = body.len() as u32;
                    let mut code = k as u32;
                    let mut nfds = if req.file.is_some() { 1 } else { 0 };
                    match var {
                        "flags.reply" => flags |= 4,
                        "flags.ver0" => flags &= !3,
                        "flags.ver2" => flags = (flags & !3) | 2,
                        "flags.resv" => flags |= 1 << (4 + rng.below(28)),
                        "size.short" => {
                            body.pop();
                            size -= 1
                        }
                        "size.long" => {
                            body.push(0);
                            size += 1
                        }
                        "size.zero" => {
                            body.clear();
                            size = 0
                        }
                        "size.over" => {
                            size = 4097 + rng.below(1000) as u32;
                            body.clear()
                        }
                        "code.unknown" => code = 11 + rng.below(1000) as u32,
                        "code.zero" => code = 0,
                        "code.unserved" => code = *rng.pick(&[1u32, 3, 4, 5]),
                        "random" => {
                            let n = rng.below(80) as usize;
                            body = (0..n).map(|_| rng.next() as u8).collect();
                            code = rng.below(14) as u32;
                            flags = if rng.bool() { rng.next() as u32 } else { 1 | (rng.below(4) as u32) << 2 };
                            size = if rng.bool() { n as u32 } else { rng.below(5000) as u32 };
                        }
                        _ => {}
                    }
                    if let Some(kk) = var.strip_prefix("nfds.") {
                        nfds = kk.parse().unwrap();
                    }
                    let files: Vec<File> = (0..nfds).map(|i| if i == 0 && req.file.is_some() { req.file.as_ref().unwrap().try_clone().unwrap() } else { memfd("extra", 0) }).collect();
                    let fds: Vec<i32> = files.iter().map(|f| f.as_raw_fd()).collect();
                    let fdids: Vec<String> = fds.iter().map(|f| fd_id(*f)).collect();
                    let mut bytes = Vec::new();
                    bytes.extend_from_slice(&code.to_le_bytes());
                    bytes.extend_from_slice(&flags.to_le_bytes());
                    bytes.extend_from_slice(&size.to_le_bytes());
                    bytes.extend_from_slice(&body);
                    let seg: Vec<usize> = step["seg"].as_array().map(|a| a.iter().map(|x| x.as_u64().unwrap() as usize).collect()).unwrap_or_default();
                    let cut: i64 = step["cut"].as_i64().unwrap_or(-1);
                    s.cmd.send(Cmd::Serve).unwrap();
                    let end = if cut >= 0 { (cut as usize).min(bytes.len()) } else { bytes.len() };
                    let mut bounds: Vec<usize> = seg.iter().cloned().filter(|x| *x < end).collect();
                    bounds.push(end);
                    let mut from = 0;
                    let mut early: Option<String> = None;
                    for (i, to) in bounds.iter().enumerate() {
                        if *to > from {
                            let _ = raw_send_all(ps, &bytes[from..*to], if i == 0 { &fds } else { &[] });
                            // wait until the receiver consumed the segment (SIOCOUTQ == 0) or returned
                            let t0 = std::time::Instant::now();
                            loop {
                                let mut q: libc::c_int = 0;
                                // SAFETY: TIOCOUTQ writes one int.
                                unsafe { libc::ioctl(ps.as_raw_fd(), libc::TIOCOUTQ, &mut q) };
                                if q == 0 || early.is_some() || t0.elapsed() > Duration::from_millis(500) {
                                    break;
                                }
                                if let Ok(x) = s.res.try_recv() {
                                    early = Some(x);
                                }
                                std::thread::sleep(Duration::from_micros(20));
                            }
                        }
                        from = *to;
                    }
                    if cut >= 0 {
                        let _ = ps.shutdown(std::net::Shutdown::Write);
                    }
                    let (sres, hang) = match early {
                        Some(x) => (x, false),
                        None => match recv_or_blocked(&s.res, Duration::from_millis(2000), Duration::from_secs(120), &|| vec![s.tid.load(std::sync::atomic::Ordering::SeqCst)], &[]) {
                            Some(x) => (x, false),
                            None => {
                                let _ = ps.shutdown(std::net::Shutdown::Both);
                                (s.res.recv_timeout(Duration::from_millis(3000)).unwrap_or_else(|_| "stuck".into()), true)
                            }
                        },
                    };
                    let (chunks, _) = raw_drain(ps);
                    let (msgs, extra) = split_messages(&chunks);
                    close_chunk_fds(&chunks);
                    let calls = std::mem::take(&mut s.core.s.lock().unwrap().calls);
                    let judged_valid = var == "valid";
                    trace.emit(json!({"ev": "breq", "mode": mode, "k": k, "r": r, "var": var, "args": req.args, "lent": fdids.first().cloned().unwrap_or_else(|| "none".to_string()),
                        "res": sres, "hang": hang, "calls": calls, "ncalls": calls.len(), "srv_res": [], "sent": 0, "hv": hv, "lent_ok": true,
                        "wire": [], "nwire": 0, "ack": {}, "peer": "raw", "nr": nr, "out": msgs, "nout": msgs.len(), "seg": seg, "cut": cut,
                        "leftover": extra, "code": code, "nfds": nfds, "valid": judged_valid}));
                    if hang || cut >= 0 {
                        dead = true;
                    }
                }
            }
        }
        drop(backend);
        drop(peer_sock);
        if let Some(s) = srv {
            s.finish();
        }
        trace.emit(watch.finish());
    }
}
