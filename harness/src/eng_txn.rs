//! Engine "txn" (C10): clones of one endpoint used from several threads, driven through the
//! instrumented hold points (`*.sent`, `*.before_recv`) by a TLC-generated schedule; an
//! independent raw peer answers every request in arrival order, tagging answers by request.
//!
//! Case: {"id":.., "ep":"fe"|"be"|"gpu", "kinds":["reply","ack","ff",..], "sched":[["start",t]|["release",t],..],
//!        "free": bool (no hold points: uncontrolled stress, "n": iterations)}
//! Trace: reset{ep,kinds}, then events start/sent/before_recv/done/peer in global order, then end.

use crate::common::*;
use serde_json::{json, Value};
use std::cell::Cell;
use std::os::unix::net::UnixStream;
use std::sync::{Arc, Condvar, Mutex};
use std::time::{Duration, Instant};
use vhost::vhost_user::gpu_message::*;
use vhost::vhost_user::message::*;
use vhost::vhost_user::{Backend, Frontend, GpuBackend, VhostUserFrontend, VhostUserFrontendReqHandler};
use vhost::VhostBackend;

thread_local! { static TID: Cell<u64> = const { Cell::new(0) }; }

/// Hand-over forcing (controlled schedules only): the callers of one case share one CPU, and a caller that
/// has just been released from its `sent` hold point runs in the idle scheduling class until its next hook.
/// If the endpoint lock is (wrongly) released between writing the request and reading the answer, the caller
/// blocked on that lock is woken on the same CPU, preempts the idle-class holder at once and wins the lock --
/// the hidden window becomes an observed `sent` inside the other caller's transaction instead of a lucky race.
static FORCE_HANDOVER: std::sync::atomic::AtomicBool = std::sync::atomic::AtomicBool::new(false);
static KTIDS: Mutex<Vec<i32>> = Mutex::new(Vec::new());
/// the current case negotiated its protocol features without acknowledging bit 30 in SET_FEATURES
static PF_FIRST: std::sync::atomic::AtomicBool = std::sync::atomic::AtomicBool::new(false);

fn set_sched(tid: i32, idle: bool) {
    let p = libc::sched_param { sched_priority: 0 };
    // SAFETY: plain syscall on a thread id of this process; failure is harmless (only weakens the forcing).
    unsafe {
        libc::sched_setscheduler(tid, if idle { libc::SCHED_IDLE } else { libc::SCHED_OTHER }, &p);
    }
}

fn pin_to(cpu: usize) {
    // SAFETY: cpu_set_t manipulated through the libc helpers; failure is harmless.
    unsafe {
        let mut set: libc::cpu_set_t = std::mem::zeroed();
        libc::CPU_SET(cpu, &mut set);
        libc::sched_setaffinity(0, std::mem::size_of::<libc::cpu_set_t>(), &set);
    }
}

#[derive(Default)]
struct CtlState {
    events: Vec<Value>,
    held: Vec<u64>,      // threads currently blocked at a hold point
    release: Vec<u64>,   // threads allowed to proceed
    hold_enabled: bool,
    ndone: usize,
    /// threads that are to die (panic) when they leave the hold point they are at
    crash: Vec<u64>,
}
struct Ctl {
    m: Mutex<CtlState>,
    cv: Condvar,
}

impl Ctl {
    fn log(&self, v: Value) {
        let mut s = self.m.lock().unwrap();
        if v["ev"] == "done" {
            s.ndone += 1;
        }
        s.events.push(v);
        self.cv.notify_all();
    }
    fn hit(&self, point: &'static str) {
        let tid = TID.with(|t| t.get());
        if tid == 0 {
            return;
        }
        let kind = if point.ends_with(".sent") {
            "sent"
        } else if point.ends_with(".received") {
            "received"
        } else {
            "before_recv"
        };
        let force = FORCE_HANDOVER.load(std::sync::atomic::Ordering::SeqCst);
        if force && kind != "sent" {
            set_sched(0, false);
        }
        let mut s = self.m.lock().unwrap();
        s.events.push(json!({"ev": kind, "t": tid}));
        if !s.hold_enabled || kind == "received" {
            self.cv.notify_all();
            return;
        }
        s.held.push(tid);
        self.cv.notify_all();
        while !s.release.contains(&tid) {
            s = self.cv.wait(s).unwrap();
        }
        s.release.retain(|x| *x != tid);
        s.held.retain(|x| *x != tid);
        if s.crash.contains(&tid) {
            s.crash.retain(|x| *x != tid);
            s.events.push(json!({"ev": "crashed", "t": tid}));
            self.cv.notify_all();
            drop(s);
            if force {
                set_sched(0, false);
            }
            // unwinds through the library code that holds the endpoint lock
            panic!("scripted death of the caller inside its transaction");
        }
        drop(s);
        if force && kind == "sent" {
            set_sched(0, true);
        }
    }
    /// wait until no new event arrived for `quiet`
    fn quiesce(&self, quiet: Duration) {
        let mut s = self.m.lock().unwrap();
        let mut n = s.events.len();
        loop {
            let (g, to) = self.cv.wait_timeout(s, quiet).unwrap();
            s = g;
            if s.events.len() == n && to.timed_out() {
                return;
            }
            n = s.events.len();
        }
    }
}

fn spawn_peer(ep: &str, sock: UnixStream, ctl: Arc<Ctl>) -> std::thread::JoinHandle<()> {
    let ep = ep.to_string();
    std::thread::spawn(move || {
        let mut all: Vec<(Vec<u8>, Vec<i32>)> = Vec::new();
        let mut answered = 0usize;
        let mut seqno = 0usize;
        let mut reply_ack = ep == "be";
        loop {
            let mut buf = vec![0u8; 70000];
            match raw_recv(&sock, &mut buf, 0) {
                Ok((0, _)) | Err(_) => break,
                Ok((n, fds)) => {
                    buf.truncate(n);
                    for f in &fds {
                        close_fd(*f);
                    }
                    all.push((buf, vec![]));
                }
            }
            let (msgs, rest) = split_messages(&all);
            // only the unparsed tail is carried over (re-parsing everything received so far made long free-running cases quadratic)
            let total: usize = all.iter().map(|c| c.0.len()).sum();
            let flat: Vec<u8> = all.iter().flat_map(|c| c.0.iter().copied()).collect();
            all = vec![(flat[total - rest..].to_vec(), vec![])];
            answered = 0;
            while answered < msgs.len() {
                let m = &msgs[answered];
                answered += 1;
                seqno += 1;
                let code = m["c"].as_u64().unwrap() as u32;
                let flags = m["flags"].as_u64().unwrap() as u32;
                let body = unhex(m["body"].as_str().unwrap());
                ctl.log(json!({"ev": "peer", "c": code, "seq": seqno}));
                let mut out: Option<(u32, Vec<u8>)> = None;
                let mut with_fd = false;
                match ep.as_str() {
                    "fe" => {
                        if code == 16 && body.len() == 8 {
                            reply_ack = le64(&body, 0) & 8 != 0;
                        }
                        match code {
                            1 => out = Some((5, (1u64 << 30).to_le_bytes().to_vec())),
                            15 => out = Some((5, 0xffffffu64.to_le_bytes().to_vec())),
                            11 => {
                                let idx = le32(&body, 0);
                                let mut b = idx.to_le_bytes().to_vec();
                                b.extend_from_slice(&(100 + idx).to_le_bytes());
                                out = Some((5, b));
                            }
                            36 => out = Some((5, 509u64.to_le_bytes().to_vec())),
                            17 => out = Some((5, 8u64.to_le_bytes().to_vec())),
                            // GET_CONFIG, GET_INFLIGHT_FD (with a descriptor): the request body comes back
                            24 => out = Some((5, body.clone())),
                            31 => {
                                out = Some((5, body.clone()));
                                with_fd = true;
                            }
                            // SET_DEVICE_STATE_FD: "no descriptor comes back"; CHECK_DEVICE_STATE: fine
                            42 => out = Some((5, 0x100u64.to_le_bytes().to_vec())),
                            43 => out = Some((5, 0u64.to_le_bytes().to_vec())),
                            // GET_SHMEM_CONFIG: one region; GET_SHARED_OBJECT: an empty reply carrying the descriptor
                            44 => {
                                let mut b = vec![0u8; 8 + 8 * 256];
                                b[0] = 1;
                                b[8..16].copy_from_slice(&0x1000u64.to_le_bytes());
                                out = Some((5, b));
                            }
                            41 => {
                                out = Some((5, vec![]));
                                with_fd = true;
                            }
                            _ => {
                                if flags & 8 != 0 && reply_ack {
                                    out = Some((5, 0u64.to_le_bytes().to_vec()));
                                }
                            }
                        }
                    }
                    "be" => {
                        if flags & 8 != 0 {
                            out = Some((5, 0u64.to_le_bytes().to_vec()));
                        }
                    }
                    _ => match code {
                        1 => out = Some((4, 7u64.to_le_bytes().to_vec())),
                        3 => out = Some((4, vec![0u8; 408])),
                        10 => out = Some((4, vec![])),
                        11 => out = Some((4, vec![0u8; 1056])),
                        _ => {}
                    },
                }
                if let Some((rflags, b)) = out {
                    let mut bytes = Vec::new();
                    bytes.extend_from_slice(&code.to_le_bytes());
                    bytes.extend_from_slice(&rflags.to_le_bytes());
                    bytes.extend_from_slice(&(b.len() as u32).to_le_bytes());
                    bytes.extend_from_slice(&b);
                    let f = if with_fd { Some(memfd("txnreply", 0x1000)) } else { None };
                    let fds: Vec<i32> = f.iter().map(std::os::unix::io::AsRawFd::as_raw_fd).collect();
                    if raw_send_all(&sock, &bytes, &fds).is_err() {
                        return;
                    }
                }
            }
        }
    })
}

#[derive(Clone)]
enum Ep {
    Fe(Frontend),
    Be(Backend),
    Gpu(GpuBackend),
}

/// The call thread t performs; returns (ok, own-answer?)
fn do_call(ep: &Ep, kind: &str, t: u64, var: u64) -> (bool, bool) {
    // a setting change instead of a call: switches the endpoint's reply-ack behaviour off / on
    if kind == "cfg0" || kind == "cfg1" {
        let on = kind == "cfg1";
        match ep {
            Ep::Fe(fe) => fe.set_hdr_flags(if on { VhostUserHeaderFlag::NEED_REPLY } else { VhostUserHeaderFlag::empty() }),
            Ep::Be(be) => be.set_reply_ack_flag(on),
            Ep::Gpu(_) => {}
        }
        return (true, true);
    }
    match ep {
        Ep::Fe(fe) => {
            let mut fe = fe.clone();
            let q = (t - 1) as usize;
            match kind {
                // every operation of a kind takes its turn (`var` comes from the case): a lock that one operation bypasses
                // is only seen when that operation is the one running beside another caller's transaction
                "reply" => match (t + var) % 11 {
                    1 => {
                        let r = fe.get_queue_num();
                        (r.is_ok(), r.map(|v| v == 8).unwrap_or(false))
                    }
                    2 => {
                        let r = fe.get_max_mem_slots();
                        (r.is_ok(), r.map(|v| v == 509).unwrap_or(false))
                    }
                    3 => {
                        let r = fe.get_features();
                        (r.is_ok(), r.map(|v| v == 1 << 30).unwrap_or(false))
                    }
                    4 => {
                        let r = fe.get_protocol_features();
                        (r.is_ok(), r.is_ok())
                    }
                    5 => {
                        // the peer echoes the request: the payload that comes back is this caller's own
                        let pay = [t as u8; 8];
                        let r = fe.get_config(8 * t as u32, 8, VhostUserConfigFlags::WRITABLE, &pay);
                        (r.is_ok(), r.map(|(c, b)| c.offset == 8 * t as u32 && b == pay).unwrap_or(false))
                    }
                    6 => {
                        let inf = VhostUserInflight { mmap_size: 0x1000 * t, mmap_offset: 0, num_queues: t as u16, queue_size: 8 };
                        let r = fe.get_inflight_fd(&inf);
                        (r.is_ok(), r.map(|(i, _f)| i.num_queues == t as u16 && i.mmap_size == 0x1000 * t).unwrap_or(false))
                    }
                    7 => {
                        let r = fe.check_device_state();
                        (r.is_ok(), r.is_ok())
                    }
                    8 => {
                        let f = memfd("txnstate", 0x1000);
                        let r = fe.set_device_state_fd(VhostTransferStateDirection::SAVE, VhostTransferStatePhase::STOPPED, f.into());
                        (r.is_ok(), r.map(|o| o.is_none()).unwrap_or(false))
                    }
                    9 => {
                        let r = fe.get_shmem_config();
                        (r.is_ok(), r.map(|c| c.nregions == 1).unwrap_or(false))
                    }
                    10 => {
                        let mut u = [0u8; 16];
                        u[0] = t as u8;
                        let r = fe.get_shared_object(&VhostUserSharedMsg { uuid: uuid::Uuid::from_bytes(u) });
                        (r.is_ok(), r.is_ok())
                    }
                    _ => match fe.get_vring_base(q) {
                        Ok(v) => (true, v == 100 + q as u32),
                        Err(_) => (false, false),
                    },
                },
                _ => {
                    let e = vmm_sys_util::eventfd::EventFd::new(0).unwrap();
                    let f = memfd("txnreg", 0x1000);
                    let reg = vhost::VhostUserMemoryRegionInfo {
                        guest_phys_addr: 0x10000 * t,
                        memory_size: 0x1000,
                        userspace_addr: 0x7000_0000 + 0x10000 * t,
                        mmap_offset: 0,
                        mmap_handle: std::os::unix::io::AsRawFd::as_raw_fd(&f),
                    };
                    let r = match (t + var) % 19 {
                        11 => fe.set_config(8 * t as u32, VhostUserConfigFlags::WRITABLE, &[t as u8; 8]),
                        12 => fe.add_mem_region(&reg),
                        13 => fe.remove_mem_region(&reg),
                        14 => fe.set_inflight_fd(&VhostUserInflight { mmap_size: 0x1000, mmap_offset: 0, num_queues: 1, queue_size: 8 }, std::os::unix::io::AsRawFd::as_raw_fd(&f)),
                        15 => fe.set_log_base(0x1000, None),
                        16 => fe.set_log_fd(std::os::unix::io::AsRawFd::as_raw_fd(&e)),
                        17 => fe.reset_device(),
                        18 => fe.set_backend_request_fd(&f),
                        1 => fe.set_vring_num(q, 8),
                        2 => fe.set_vring_base(q, 3),
                        3 => fe.set_owner(),
                        4 => fe.reset_owner(),
                        5 => fe.set_features(1 << 30),
                        6 => fe.set_vring_kick(q, &e),
                        7 => fe.set_vring_call(q, &e),
                        8 => fe.set_vring_err(q, &e),
                        9 => fe.set_mem_table(&[vhost::VhostUserMemoryRegionInfo {
                            guest_phys_addr: 0x10000 * t,
                            memory_size: 0x1000,
                            userspace_addr: 0x7000_0000 + 0x10000 * t,
                            mmap_offset: 0,
                            mmap_handle: std::os::unix::io::AsRawFd::as_raw_fd(&f),
                        }]),
                        10 => fe.set_vring_addr(q, &vhost::VringConfigData {
                            queue_max_size: 256,
                            queue_size: 128,
                            flags: 0,
                            desc_table_addr: 0x1000,
                            used_ring_addr: 0x2000,
                            avail_ring_addr: 0x3000,
                            log_addr: None,
                        }),
                        // (SET_VRING_ENABLE is refused locally unless SET_FEATURES has acknowledged bit 30)
                        _ if PF_FIRST.load(std::sync::atomic::Ordering::SeqCst) => fe.set_vring_num(q, 16),
                        _ => fe.set_vring_enable(q, true),
                    };
                    (r.is_ok(), r.is_ok())
                }
            }
        }
        Ep::Be(be) => {
            let mut u = [0u8; 16];
            u[0] = t as u8;
            let m = VhostUserSharedMsg {
                uuid: uuid::Uuid::from_bytes(u),
            };
            let f = memfd("txnmap", 0x1000);
            let r = match (t + var) % 5 {
                1 => be.shared_object_add(&m),
                2 => be.shared_object_remove(&m),
                3 => be.shared_object_lookup(&m, &f),
                4 => be.shmem_map(&VhostUserMMap { shmid: t as u8, padding: [0; 7], fd_offset: 0, shm_offset: 0x1000, len: 4096, flags: 1 }, &f),
                _ => be.shmem_unmap(&VhostUserMMap {
                    shmid: t as u8,
                    padding: [0; 7],
                    fd_offset: 0,
                    shm_offset: 0,
                    len: 4096,
                    flags: 0,
                }),
            };
            (r.is_ok(), r.is_ok())
        }
        Ep::Gpu(g) => match kind {
            "reply" => match (t + var) % 3 {
                1 => {
                    let r = g.get_protocol_features();
                    (r.is_ok(), r.map(|v| v.value == 7).unwrap_or(false))
                }
                2 => {
                    let r = g.get_display_info();
                    (r.is_ok(), r.is_ok())
                }
                _ => {
                    let r = g.get_edid(&VhostUserGpuEdidRequest { scanout_id: t as u32 });
                    (r.is_ok(), r.is_ok())
                }
            },
            "ack" => {
                let r = g.update_dmabuf_scanout(&VhostUserGpuUpdate::default());
                (r.is_ok(), r.is_ok())
            }
            _ => {
                let pos = VhostUserGpuCursorPos { scanout_id: t as u32, x: 1, y: 2 };
                let f = memfd("txndmabuf", 0x1000);
                let dm = VhostUserGpuDMABUFScanout { scanout_id: t as u32, x: 0, y: 0, width: 1, height: 1, fd_width: 1, fd_height: 1, fd_stride: 4, fd_flags: 0, fd_drm_fourcc: 0 };
                let r = match (t + var) % 8 {
                    1 => g.cursor_pos(&pos),
                    2 => g.cursor_pos_hide(&pos),
                    3 => g.cursor_update(&VhostUserGpuCursorUpdate { pos, hot_x: 0, hot_y: 0 }, &[0u8; 4 * 64 * 64]),
                    4 => g.update_scanout(&VhostUserGpuUpdate { scanout_id: t as u32, x: 0, y: 0, width: 2, height: 2 }, &[7u8; 16]),
                    5 => g.set_dmabuf_scanout(&dm, Some(&f)),
                    6 => g.set_dmabuf_scanout2(&VhostUserGpuDMABUFScanout2 { dmabuf_scanout: dm, modifier: 0 }, Some(&f)),
                    7 => g.set_protocol_features(&VhostUserU64::new(0)),
                    _ => g.set_scanout(&VhostUserGpuScanout { scanout_id: t as u32, width: 1, height: 1 }),
                };
                (r.is_ok(), r.is_ok())
            }
        },
    }
}

pub fn run(cases: &[Value], trace: &mut Trace, _seed: u64) {
    let ctl = Arc::new(Ctl {
        m: Mutex::new(CtlState::default()),
        cv: Condvar::new(),
    });
    let c2 = ctl.clone();
    vhost::verif::set_controller(Some(Arc::new(move |p: &'static str, _a: &[u64]| {
        if p.ends_with(".sent") || p.ends_with(".before_recv") || p.ends_with(".received") {
            c2.hit(p);
        }
    })));
    let ncpu = std::thread::available_parallelism().map(|n| n.get()).unwrap_or(1);
    for (case_no, case) in cases.iter().enumerate() {
        let ep_name = case["ep"].as_str().unwrap();
        let kinds: Vec<String> = case["kinds"].as_array().unwrap().iter().map(|k| k.as_str().unwrap().to_string()).collect();
        let free = case["free"].as_bool().unwrap_or(false);
        let var = case["var"].as_u64().unwrap_or(0);
        {
            let mut s = ctl.m.lock().unwrap();
            *s = CtlState::default();
            s.hold_enabled = false;
        }
        let (a, b) = UnixStream::pair().unwrap();
        let adup = a.try_clone().unwrap();
        let bdup = b.try_clone().unwrap();
        // temporary receive conditions (EAGAIN / EINTR) met by the first attempts to read an answer during the schedule
        let recvfault: Vec<i32> = case["recvfault"].as_array().map(|x| x.iter().map(|v| v.as_i64().unwrap_or(0) as i32).collect()).unwrap_or_default();
        let peer = spawn_peer(ep_name, b, ctl.clone());
        let any_ack = kinds.iter().any(|k| k == "ack");
        let ep = match ep_name {
            "fe" => {
                let mut fe = Frontend::from_stream(a, 8);
                // negotiation (uncontrolled): PF, REPLY_ACK; NEED_REPLY iff some call is ack-bearing
                let _ = fe.get_features();
                // "pf_first": protocol features are negotiated before (here: without) SET_FEATURES acknowledging bit 30, the order
                // QEMU uses -- acknowledgements are due all the same (the backend keys them on the offered bit)
                PF_FIRST.store(case["negorder"].as_str() == Some("pf_first"), std::sync::atomic::Ordering::SeqCst);
                if case["negorder"].as_str() != Some("pf_first") {
                    let _ = fe.set_features(1 << 30);
                }
                let _ = fe.get_protocol_features();
                let _ = fe.set_protocol_features(
                    VhostUserProtocolFeatures::REPLY_ACK
                        | VhostUserProtocolFeatures::MQ
                        | VhostUserProtocolFeatures::CONFIGURE_MEM_SLOTS
                        | VhostUserProtocolFeatures::CONFIG
                        | VhostUserProtocolFeatures::INFLIGHT_SHMFD
                        | VhostUserProtocolFeatures::BACKEND_REQ
                        | VhostUserProtocolFeatures::RESET_DEVICE
                        | VhostUserProtocolFeatures::SHARED_OBJECT
                        | VhostUserProtocolFeatures::DEVICE_STATE
                        | VhostUserProtocolFeatures::SHMEM,
                );
                if any_ack {
                    fe.set_hdr_flags(VhostUserHeaderFlag::NEED_REPLY);
                }
                Ep::Fe(fe)
            }
            "be" => {
                let be = Backend::from_stream(a);
                be.set_shared_object_flag(true);
                be.set_shmem_flag(true);
                be.set_reply_ack_flag(any_ack);
                Ep::Be(be)
            }
            _ => Ep::Gpu(GpuBackend::from_stream(a)),
        };
        ctl.quiesce(Duration::from_millis(1));
        {
            let mut s = ctl.m.lock().unwrap();
            s.events.clear();
            s.ndone = 0;
            s.hold_enabled = !free;
        }
        trace.emit(json!({"ev": "reset", "id": case["id"], "ep": ep_name, "kinds": kinds, "free": free}));
        if !recvfault.is_empty() {
            crate::eng_sender::arm_recv(&adup, &recvfault);
        }
        FORCE_HANDOVER.store(!free, std::sync::atomic::Ordering::SeqCst);
        KTIDS.lock().unwrap().clear();
        let cpu = (std::process::id() as usize + case_no) % ncpu;
        let mut handles = Vec::new();
        let start = |t: u64, handles: &mut Vec<std::thread::JoinHandle<()>>, iters: u64| {
            let ep2 = ep.clone();
            let kind = kinds[(t - 1) as usize].clone();
            let ctl2 = ctl.clone();
            ctl.log(json!({"ev": "start", "t": t}));
            handles.push(std::thread::spawn(move || {
                TID.with(|x| x.set(t));
                if FORCE_HANDOVER.load(std::sync::atomic::Ordering::SeqCst) {
                    pin_to(cpu);
                    // SAFETY: gettid has no preconditions.
                    KTIDS.lock().unwrap().push(unsafe { libc::gettid() });
                }
                for it in 0..iters {
                    let r = std::panic::catch_unwind(std::panic::AssertUnwindSafe(|| do_call(&ep2, &kind, t, var + it)));
                    let (ok, own) = r.unwrap_or((false, false));
                    if FORCE_HANDOVER.load(std::sync::atomic::Ordering::SeqCst) {
                        set_sched(0, false);
                    }
                    ctl2.log(json!({"ev": "done", "t": t, "ok": ok, "own": own}));
                }
            }));
        };
        let quiet = Duration::from_millis(3);
        if free {
            let iters = case["n"].as_u64().unwrap_or(200);
            for t in 1..=kinds.len() as u64 {
                start(t, &mut handles, iters);
            }
        } else {
            for cmd in case["sched"].as_array().unwrap() {
                let c = cmd[0].as_str().unwrap();
                let t = cmd[1].as_u64().unwrap();
                if c == "start" {
                    start(t, &mut handles, 1);
                } else if c == "crash" {
                    // thread t (stopped at a hold point) dies there
                    let t0 = Instant::now();
                    loop {
                        let mut s = ctl.m.lock().unwrap();
                        if s.held.contains(&t) {
                            s.crash.push(t);
                            s.release.push(t);
                            ctl.cv.notify_all();
                            break;
                        }
                        drop(s);
                        if t0.elapsed() > Duration::from_millis(200) {
                            break;
                        }
                        std::thread::sleep(Duration::from_micros(100));
                    }
                } else {
                    // release whoever is held (the mutex decides who got the lock, not the schedule)
                    let t0 = Instant::now();
                    loop {
                        let mut s = ctl.m.lock().unwrap();
                        if !s.held.is_empty() {
                            let h = s.held.clone();
                            s.release.extend(h);
                            ctl.cv.notify_all();
                            break;
                        }
                        drop(s);
                        if t0.elapsed() > Duration::from_millis(20) {
                            break;
                        }
                        std::thread::sleep(Duration::from_micros(100));
                    }
                }
                ctl.quiesce(quiet);
            }
        }
        // drain: release everything until all threads are done (or give up: hang)
        let t0 = Instant::now();
        let total: usize = if free { kinds.len() * case["n"].as_u64().unwrap_or(200) as usize } else { handles.len() };
        let mut hang = false;
        // "the calls do not complete" is decided by lack of progress (no new event for a long time), not by total duration
        let mut last_n = 0usize;
        let mut last_progress = Instant::now();
        loop {
            {
                let mut s = ctl.m.lock().unwrap();
                if s.events.len() != last_n {
                    last_n = s.events.len();
                    last_progress = Instant::now();
                }
                if s.ndone >= total {
                    break;
                }
                let h = s.held.clone();
                s.release.extend(h);
                ctl.cv.notify_all();
            }
            if !free && t0.elapsed() > Duration::from_millis(100) {
                // never let the idle class turn slowness into a verdict: back to the normal class while draining
                for k in KTIDS.lock().unwrap().iter() {
                    set_sched(*k, false);
                }
            }
            if last_progress.elapsed() > Duration::from_millis(if free { 15000 } else { 8000 }) {
                hang = true;
                let _ = bdup.shutdown(std::net::Shutdown::Both);
                let mut s = ctl.m.lock().unwrap();
                s.hold_enabled = false;
                let h = s.held.clone();
                s.release.extend(h);
                ctl.cv.notify_all();
                break;
            }
            std::thread::sleep(Duration::from_micros(200));
        }
        if hang {
            // unblock anything still held
            for _ in 0..50 {
                let mut s = ctl.m.lock().unwrap();
                let h = s.held.clone();
                s.release.extend(h);
                ctl.cv.notify_all();
                drop(s);
                std::thread::sleep(Duration::from_millis(5));
            }
        }
        // callers that are deadlocked on locks of the library (not on the socket, which is shut down by now) never come back:
        // after a hang verdict they get a bounded time to finish, then they are left behind (the process ends after this case
        // and the driver runs the remaining cases in a fresh one)
        let mut left_behind = false;
        for h in handles {
            if hang {
                let t1 = Instant::now();
                while !h.is_finished() && t1.elapsed() < Duration::from_secs(3) {
                    std::thread::sleep(Duration::from_millis(5));
                }
                if !h.is_finished() {
                    left_behind = true;
                    continue;
                }
            }
            let _ = h.join();
        }
        if !recvfault.is_empty() {
            crate::eng_sender::disarm_recv();
        }
        drop(adup);
        drop(ep);
        let _ = bdup.shutdown(std::net::Shutdown::Both);
        let _ = peer.join();
        let evs = std::mem::take(&mut ctl.m.lock().unwrap().events);
        for e in evs {
            let mut e = e;
            for k in ["t", "ok", "own", "c", "seq"] {
                if e.get(k).is_none() {
                    e[k] = if k == "ok" || k == "own" { json!(false) } else { json!(0) };
                }
            }
            trace.emit(e);
        }
        trace.emit(json!({"ev": "end", "hang": hang}));
        if left_behind {
            trace.flush();
            eprintln!("vh txn: callers deadlocked for good; ending this process after case {case_no}");
            std::process::exit(77);
        }
    }
    FORCE_HANDOVER.store(false, std::sync::atomic::Ordering::SeqCst);
    vhost::verif::set_controller(None);
}
