//! Engine "session": the real `Frontend` talks to the real `BackendReqHandler` (scripted recording
//! handler behind it, server loop that keeps serving after request errors).
//!
//! Case: {"id":.., "dev":{"vf":[..],"pf":[..]}, "adapter":"mutex"|"direct",
//!        "steps":[{"op":..,"cls":..,"v":[bits],"h":"ok"|"fail","shape":""|"wronglen"|"file"}]}
//! Trace: reset, then one "call" event per step.

use crate::common::*;
use crate::feops::*;
use crate::rec::*;
use serde_json::{json, Value};
use std::os::unix::net::UnixStream;
use std::sync::atomic::{AtomicBool, AtomicU64, Ordering};
use std::sync::mpsc::channel;
use std::sync::{Arc, Mutex};
use std::time::Duration;
use vhost::vhost_user::message::VhostUserHeaderFlag;
use vhost::vhost_user::{BackendReqHandler, Error, Frontend, VhostUserBackendReqHandler};

/// kernel thread id of the server thread of the current case (for `all_blocked`)
pub static SRV_TID: std::sync::atomic::AtomicI32 = std::sync::atomic::AtomicI32::new(0);

fn serve_loop<S: VhostUserBackendReqHandler>(
    mut h: BackendReqHandler<S>,
    stop: Arc<AtomicBool>,
    served: Arc<AtomicU64>,
    errs: Arc<Mutex<Vec<String>>>,
) {
    SRV_TID.store(gettid(), Ordering::SeqCst);
    loop {
        let r = std::panic::catch_unwind(std::panic::AssertUnwindSafe(|| h.handle_request()));
        served.fetch_add(1, Ordering::SeqCst);
        match r {
            Ok(Ok(())) => {}
            Ok(Err(Error::Disconnected)) | Ok(Err(Error::SocketBroken(_))) => break,
            Ok(Err(e)) => {
                errs.lock().unwrap().push(errkind(&e));
                if matches!(e, Error::PartialMessage | Error::SocketError(_)) {
                    break;
                }
            }
            Err(_) => {
                errs.lock().unwrap().push("panic".into());
                break;
            }
        }
        if stop.load(Ordering::SeqCst) {
            break;
        }
    }
}

/// number of requests the frontend endpoint has written (hook `fe.sent`)
pub static SENT: AtomicU64 = AtomicU64::new(0);

pub fn install_counter() {
    vhost::verif::set_controller(Some(Arc::new(|p: &'static str, _a: &[u64]| {
        if p == "fe.sent" {
            SENT.fetch_add(1, Ordering::SeqCst);
        }
    })));
}

pub fn run(cases: &[Value], trace: &mut Trace, seed: u64) {
    install_counter();
    for (k, case) in cases.iter().enumerate() {
        let mut rng = Rng::new(seed ^ (k as u64).wrapping_mul(0x9876543));
        let adapter = case["adapter"].as_str().unwrap_or("mutex");
        // descriptor accounting over the whole session (C09): everything either end received, and everything the handler
        // handed to the library for transmission, must be gone once both endpoints are dropped
        let watch = FdWatch::start();
        let mut any_hang = false;
        let (fsock, bsock) = UnixStream::pair().unwrap();
        let fdup = fsock.try_clone().unwrap();
        let bdup = bsock.try_clone().unwrap();
        // transient send faults under the calls of this case: the first send attempts of every call (frontend side) or of
        // every answer (server side) are refused (0) or accept only that many bytes
        let sendfault: Vec<u64> = case["sendfault"].as_array().map(|a| a.iter().map(|x| x.as_u64().unwrap_or(0)).collect()).unwrap_or_default();
        let fault_be = case["faultside"].as_str() == Some("be");
        // transient receive conditions (EAGAIN = 11, EINTR = 4) met by the first receive attempts of every call / request
        let recvfault: Vec<i32> = case["recvfault"].as_array().map(|a| a.iter().map(|x| x.as_i64().unwrap_or(0) as i32).collect()).unwrap_or_default();
        let core = Core::new();
        crate::eng_server::apply_dev(&core, &case["dev"]);
        let stop = Arc::new(AtomicBool::new(false));
        let served = Arc::new(AtomicU64::new(0));
        let errs = Arc::new(Mutex::new(Vec::new()));
        let (st, sv, er) = (stop.clone(), served.clone(), errs.clone());
        let th = if adapter == "direct" {
            let h = BackendReqHandler::from_stream(bsock, core.clone());
            std::thread::spawn(move || serve_loop(h, st, sv, er))
        } else {
            let h = BackendReqHandler::from_stream(bsock, Arc::new(Mutex::new(CoreMut(core.clone()))));
            std::thread::spawn(move || serve_loop(h, st, sv, er))
        };
        let fe = Frontend::from_stream(fsock, MAXQ);
        trace.emit(json!({"ev": "reset", "id": case["id"], "dev": case["dev"], "adapter": adapter}));
        for step in case["steps"].as_array().unwrap() {
            let op = step["op"].as_str().unwrap().to_string();
            let cls = step["cls"].as_str().unwrap_or("ok").to_string();
            let v = from_bits(&step["v"]);
            // set_backend_req_fd's handler method returns (): it cannot fail
            let h = if op == "set_backend_request_fd" { "ok" } else { step["h"].as_str().unwrap_or("ok") };
            let shape = step["shape"].as_str().unwrap_or("");
            if op == "set_hdr_flags" {
                let nr = step["nr"].as_bool().unwrap_or(false);
                fe.set_hdr_flags(if nr { VhostUserHeaderFlag::NEED_REPLY } else { VhostUserHeaderFlag::empty() });
                trace.emit(json!({"ev": "flags", "nr": nr}));
                continue;
            }
            {
                let mut s = core.s.lock().unwrap();
                s.fail = h == "fail";
                s.shape = shape.to_string();
                s.calls.clear();
                s.config_fill = rng.next() as u8;
                s.queue_num = if shape == "big" { 0x8001 } else { 2 };
                // the full 32-bit range (a packed ring's state needs more than 16 bits)
                s.vring_base = match rng.below(4) {
                    0 => rng.below(65536) as u32,
                    1 => 0x10000 + rng.below(0xffff) as u32,
                    2 => *rng.pick(&[0x8000_0000u32, 0xffff_ffff, 0x7fff_7fff, 0x10000]),
                    _ => rng.next() as u32,
                };
                s.max_mem_slots = rng.u64_edge();
                s.inflight = (rng.u64_edge(), rng.u64_edge(), 3, 77);
                s.shmem = vec![0x1000, 0x2000];
                s.ret_file = match (op.as_str(), h, shape) {
                    ("get_shared_object", "ok", _) | ("get_inflight_fd", "ok", _) => Some(memfd("ret", 0x1000)),
                    ("set_device_state_fd", "ok", "file") => Some(memfd("ret", 0x1000)),
                    _ => None,
                };
            }
            let handler_vals = {
                let s = core.s.lock().unwrap();
                json!({"features": limbs(s.features), "proto": limbs(s.proto | 8), "queue_num": limbs(s.queue_num),
                    "vring_base": limbs(s.vring_base as u64), "max_mem_slots": limbs(s.max_mem_slots), "config_fill": s.config_fill,
                    "inflight": [limbs(s.inflight.0), limbs(s.inflight.1), s.inflight.2, s.inflight.3],
                    "ret_file": s.ret_file.as_ref().map(|f| fd_id(std::os::unix::io::AsRawFd::as_raw_fd(f))).unwrap_or_else(|| "none".into())})
            };
            let served0 = served.load(Ordering::SeqCst);
            let sent0 = SENT.load(Ordering::SeqCst);
            if !sendfault.is_empty() {
                crate::eng_sender::arm_send_only(if fault_be { &bdup } else { &fdup }, &sendfault, k % 2 == 1);
            }
            if !recvfault.is_empty() {
                crate::eng_sender::arm_recv(if fault_be { &bdup } else { &fdup }, &recvfault);
            }
            let (tx, rx) = channel();
            let mut fe2 = fe.clone();
            let (op2, cls2) = (op.clone(), cls.clone());
            let mut rng2 = Rng::new(rng.next());
            let call_tid = Arc::new(std::sync::atomic::AtomicI32::new(0));
            let ct2 = call_tid.clone();
            let t = std::thread::spawn(move || {
                ct2.store(gettid(), Ordering::SeqCst);
                let r = std::panic::catch_unwind(std::panic::AssertUnwindSafe(|| call_op(&mut fe2, &op2, &cls2, v, &mut rng2)));
                let _ = tx.send(r.ok());
            });
            // "the call never returns" is only concluded once the caller and the server are both seen asleep in a blocking
            // system call with nothing left to read on either socket -- on a loaded machine the wait just gets longer
            let tids = || vec![call_tid.load(Ordering::SeqCst), SRV_TID.load(Ordering::SeqCst)];
            let socks = [std::os::unix::io::AsRawFd::as_raw_fd(&fdup), std::os::unix::io::AsRawFd::as_raw_fd(&bdup)];
            let (out, hang) = match recv_or_blocked(&rx, Duration::from_millis(2000), Duration::from_secs(120), &tids, &socks) {
                Some(o) => (o, false),
                None => {
                    // the call is stuck: was the server still serving? record, then cut the connection
                    let _ = fdup.shutdown(std::net::Shutdown::Both);
                    (rx.recv_timeout(Duration::from_millis(5000)).ok().flatten(), true)
                }
            };
            // a call that never returns even after its socket was shut down (e.g. a self-deadlock) must not take the
            // harness with it: the thread is left behind and the call is recorded as hung
            if !hang || out.is_some() || t.is_finished() {
                let _ = t.join();
            }
            // wait until the server has finished every request this call put on the wire
            let sent = SENT.load(Ordering::SeqCst) - sent0;
            let mut server_stuck = false;
            if !hang && sent > 0 {
                let t0 = std::time::Instant::now();
                while served.load(Ordering::SeqCst) < served0 + sent {
                    if t0.elapsed() > Duration::from_millis(2000)
                        && hang_confirmed(t0, &[SRV_TID.load(Ordering::SeqCst)], &[std::os::unix::io::AsRawFd::as_raw_fd(&bdup)])
                    {
                        server_stuck = true;
                        break;
                    }
                    std::thread::yield_now();
                }
            }
            if !sendfault.is_empty() {
                crate::eng_sender::disarm_quiet();
            }
            if !recvfault.is_empty() {
                crate::eng_sender::disarm_recv();
            }
            let calls = core.take_calls();
            let srv_errs: Vec<String> = std::mem::take(&mut *errs.lock().unwrap());
            let stray = if hang { 0 } else { fionread(std::os::unix::io::AsRawFd::as_raw_fd(&fdup)) };
            let (res, ret, args, fdids, lent_ok) = match out {
                Some(o) => (o.res, o.ret, o.args, o.fdids, o.lent_ok),
                None => ((if hang { "stuck" } else { "panic" }).to_string(), json!({}), json!({}), vec![], true),
            };
            let mut handler_vals = handler_vals;
            if op == "get_config" {
                let n = args["plen"].as_u64().unwrap_or(0) as usize;
                let fill = handler_vals["config_fill"].as_u64().unwrap() as u8;
                let exp: Vec<u8> = (0..n).map(|i| fill.wrapping_add(i as u8)).collect();
                handler_vals["config_payload"] = json!(hex(&exp));
            }
            trace.emit(json!({"ev": "call", "op": op, "cls": cls, "v": bits(v), "h": h, "shape": shape,
                "res": res, "ret": ret, "args": args, "fdids": fdids, "lent_ok": lent_ok, "hang": hang,
                "calls": calls, "ncalls": calls.len(), "srv_errs": srv_errs, "stray": stray,
                "served": served.load(Ordering::SeqCst) - served0, "sent": sent, "server_stuck": server_stuck, "hv": handler_vals}));
            if hang {
                any_hang = true;
                break;
            }
        }
        stop.store(true, Ordering::SeqCst);
        storm_release();
        drop(bdup);
        drop(fe);
        let _ = fdup.shutdown(std::net::Shutdown::Both);
        let _ = th.join();
        {
            let mut sc = core.s.lock().unwrap();
            sc.keep.clear();
            sc.backends.clear();
            sc.gpus.clear();
            sc.ret_file = None;
        }
        drop(fdup);
        if !any_hang {
            // (after a hang the server thread may have been left with the connection: nothing to account for)
            trace.emit(watch.finish());
        }
    }
}
