//! Engine "listen": life-cycle of `Listener` / `BackendListener` objects on one socket path (ListenerLife.tla, X04).
//!
//! Case: {"id":.., "steps":[{"op":"new"|"adopt"|"plant"|"connect"|"accept"|"baccept"|"nonblock"|"drop","i":slot,"f":flag}..]}
//! Every client writes one byte (its number) right after connecting, so that the acceptor can tell which connection
//! it was handed; `baccept` goes through `BackendListener` and lets the request server it yields answer one request.

use crate::common::*;
use serde_json::{json, Value};
use std::io::{Read, Write};
use std::os::unix::net::{UnixListener, UnixStream};
use std::sync::{Arc, Mutex};
use std::time::Duration;
use vhost::vhost_user::{BackendListener, Listener};

static SEQ: std::sync::atomic::AtomicU64 = std::sync::atomic::AtomicU64::new(0);

fn kind_of(path: &str) -> &'static str {
    use std::os::unix::fs::FileTypeExt;
    match std::fs::symlink_metadata(path) {
        Err(_) => "absent",
        Ok(m) if m.file_type().is_socket() => "sock",
        Ok(_) => "file",
    }
}

pub fn run(cases: &[Value], trace: &mut Trace, _seed: u64) {
    for case in cases {
        let path = format!("/tmp/vh-listen-{}-{}.sock", std::process::id(), SEQ.fetch_add(1, std::sync::atomic::Ordering::SeqCst));
        let _ = std::fs::remove_file(&path);
        let watch = FdWatch::start();
        trace.emit(json!({"ev": "reset", "id": case["id"]}));
        let mut slots: Vec<Option<Listener>> = vec![None, None, None];
        let mut clients: Vec<UnixStream> = Vec::new();
        for step in case["steps"].as_array().unwrap() {
            let op = step["op"].as_str().unwrap();
            let i = step["i"].as_u64().unwrap_or(0) as usize;
            let f = step["f"].as_bool().unwrap_or(false);
            let mut res = "ok".to_string();
            let mut who = 0u64;
            let mut served = "na".to_string();
            let r = std::panic::catch_unwind(std::panic::AssertUnwindSafe(|| match op {
                "new" => match Listener::new(&path, f) {
                    Ok(l) => slots[i] = Some(l),
                    Err(_) => res = "err".into(),
                },
                "adopt" => match UnixListener::bind(&path) {
                    Ok(l) => slots[i] = Some(Listener::from(l)),
                    Err(_) => res = "err".into(),
                },
                "plant" => {
                    std::fs::write(&path, b"x").unwrap();
                }
                "connect" => match UnixStream::connect(&path) {
                    Ok(mut c) => {
                        let n = clients.len() as u8 + 1;
                        let _ = c.write_all(&[n]);
                        c.set_read_timeout(Some(Duration::from_millis(2000))).unwrap();
                        clients.push(c);
                    }
                    Err(_) => res = "err".into(),
                },
                "accept" => match slots[i].as_ref().unwrap().accept() {
                    Ok(Some(mut st)) => {
                        res = "some".into();
                        st.set_read_timeout(Some(Duration::from_millis(2000))).unwrap();
                        let mut b = [0u8; 1];
                        if st.read_exact(&mut b).is_ok() {
                            who = b[0] as u64;
                        }
                    }
                    Ok(None) => res = "none".into(),
                    Err(_) => res = "err".into(),
                },
                "baccept" => {
                    let l = slots[i].as_mut().unwrap();
                    let backend = Arc::new(Mutex::new(crate::rec::CoreMut(crate::rec::Core::new())));
                    let mut bl = BackendListener::new(l, backend).unwrap();
                    match bl.accept() {
                        Ok(Some(mut h)) => {
                            res = "some".into();
                            // the first byte on the stream is the client's number: take it off through a clone of the connection
                            if let Ok(mut st) = h.try_clone_connection() {
                                st.set_read_timeout(Some(Duration::from_millis(2000))).unwrap();
                                let mut b = [0u8; 1];
                                if st.read_exact(&mut b).is_ok() {
                                    who = b[0] as u64;
                                }
                            }
                            // that client now sends GET_FEATURES; the request server must answer it on the same connection
                            served = "no".into();
                            if who >= 1 && (who as usize) <= clients.len() {
                                let c = &mut clients[who as usize - 1];
                                let mut req = Vec::new();
                                req.extend_from_slice(&1u32.to_le_bytes());
                                req.extend_from_slice(&1u32.to_le_bytes());
                                req.extend_from_slice(&0u32.to_le_bytes());
                                let _ = c.write_all(&req);
                                let hr = h.handle_request();
                                let mut rep = [0u8; 20];
                                if hr.is_ok() && c.read_exact(&mut rep).is_ok() && le32(&rep, 0) == 1 && le32(&rep, 4) == 5 && le32(&rep, 8) == 8 {
                                    served = "yes".into();
                                }
                            }
                        }
                        Ok(None) => res = "none".into(),
                        Err(_) => res = "err".into(),
                    }
                }
                "nonblock" => {
                    if slots[i].as_ref().unwrap().set_nonblocking(f).is_err() {
                        res = "err".into();
                    }
                }
                "drop" => {
                    slots[i] = None;
                }
                other => panic!("unknown listener letter {other}"),
            }));
            if r.is_err() {
                res = "panic".into();
            }
            trace.emit(json!({"ev": "step", "op": op, "i": i, "f": f, "res": res, "who": who, "served": served, "fs": kind_of(&path), "panics": take_panics()}));
        }
        drop(clients);
        drop(slots);
        let _ = std::fs::remove_file(&path);
        let mut e = watch.finish();
        e["ev"] = json!("teardown");
        trace.emit(e);
    }
}
