//! Independent little-endian packer for frontend->backend requests (written from the protocol
//! document; shares nothing with vhost::vhost_user::message).
#![allow(dead_code)]

use crate::common::*;
use serde_json::{json, Value};
use std::fs::File;

pub const PF_BIT: u64 = 1 << 30;

pub struct Built {
    pub code: u32,
    pub flags: u32,
    pub size: u32,
    pub body: Vec<u8>,
    pub files: Vec<File>,
    /// abstract description of the arguments carried (for the monitor)
    pub args: Value,
}

impl Built {
    pub fn bytes(&self) -> Vec<u8> {
        let mut v = Vec::with_capacity(12 + self.body.len());
        v.extend_from_slice(&self.code.to_le_bytes());
        v.extend_from_slice(&self.flags.to_le_bytes());
        v.extend_from_slice(&self.size.to_le_bytes());
        v.extend_from_slice(&self.body);
        v
    }
}

fn p32(v: &mut Vec<u8>, x: u32) {
    v.extend_from_slice(&x.to_le_bytes());
}
fn p64(v: &mut Vec<u8>, x: u64) {
    v.extend_from_slice(&x.to_le_bytes());
}
fn p16(v: &mut Vec<u8>, x: u16) {
    v.extend_from_slice(&x.to_le_bytes());
}

/// A valid region: non-zero size, no wrap of gpa/ua/off ranges.
fn valid_region(rng: &mut Rng) -> (u64, u64, u64, u64) {
    let size = match rng.below(4) {
        0 => 0x1000,
        1 => 1,
        2 => 0x1000 * (1 + rng.below(16)),
        _ => 1 + rng.below(0x10_0000),
    };
    let lim = u64::MAX - size;
    let pickaddr = |rng: &mut Rng| -> u64 {
        match rng.below(4) {
            0 => 0,
            1 => lim,
            2 => rng.next() % (lim.max(1)),
            _ => (rng.below(0x1_0000) << 12).min(lim),
        }
    };
    (pickaddr(rng), size, pickaddr(rng), pickaddr(rng))
}

fn region_json(r: (u64, u64, u64, u64)) -> Value {
    json!({"gpa": limbs(r.0), "size": limbs(r.1), "ua": limbs(r.2), "off": limbs(r.3)})
}

fn put_region(b: &mut Vec<u8>, r: (u64, u64, u64, u64)) {
    p64(b, r.0);
    p64(b, r.1);
    p64(b, r.2);
    p64(b, r.3);
}

/// Apply a body rule violation to a region.
fn break_region(r: (u64, u64, u64, u64), rule: &str) -> (u64, u64, u64, u64) {
    match rule {
        "size0" => (r.0, 0, r.2, r.3),
        "gpa_wrap" => (u64::MAX - r.1 + 1, r.1, r.2, r.3),
        "ua_wrap" => (r.0, r.1, u64::MAX - r.1 + 1, r.3),
        "off_wrap" => (r.0, r.1, r.2, u64::MAX - r.1 + 1),
        "size_max" => (1, u64::MAX, 1, 1),
        _ => r,
    }
}

/// Build request `code` with variant `var` ("valid" or a single violated rule).
/// `v` = value bits for SET_FEATURES/SET_PROTOCOL_FEATURES.
pub fn build(code: u32, need_reply: bool, var: &str, v: u64, rng: &mut Rng) -> Built {
    let mut body = Vec::new();
    let mut files: Vec<File> = Vec::new();
    let mut args = json!({});
    let rule = var.strip_prefix("body.").unwrap_or("");
    let mf = |n: &str| memfd(n, 0x1000);
    match code {
        // no body, no fds
        1 | 3 | 4 | 15 | 17 | 34 | 36 | 43 | 44 | 7 | 19 | 20 | 22 | 23 | 26 | 27 | 28 | 29
        | 30 | 35 | 39 | 40 => {
            if code == 7 {
                files.push(mf("logfd"));
            }
        }
        2 | 16 => {
            p64(&mut body, v);
            args = json!({"v": limbs(v)});
        }
        5 => {
            let nmax = if rng.below(4) == 0 { 32 } else { 4 };
            let mut n = 1 + rng.below(nmax) as u32;
            if var == "fixed" {
                n = 2;
            }
            let mut padding = 0u32;
            match rule {
                "nregions0" => n = 0,
                "nregions33" => n = 33,
                "padding" => padding = 1 + rng.below(u32::MAX as u64) as u32,
                _ => {}
            }
            p32(&mut body, n);
            p32(&mut body, padding);
            let mut regs = Vec::new();
            let bad = rng.below(n.max(1) as u64) as u32;
            for i in 0..n {
                let mut r = valid_region(rng);
                if i == bad {
                    r = break_region(r, rule);
                }
                put_region(&mut body, r);
                regs.push(region_json(r));
                files.push(mf("region"));
            }
            if rule == "len_short" {
                body.truncate(body.len() - 32);
            }
            if rule == "len_long" {
                body.extend_from_slice(&[0u8; 32]);
            }
            args = json!({"regions": regs, "n": n});
        }
        6 => {
            let mut size = 1 + rng.below(0x10_0000);
            let mut off = rng.below(4) * 0x1000;
            match rule {
                "size0" => size = 0,
                "wrap" => off = u64::MAX - size + 1,
                _ => {}
            }
            p64(&mut body, size);
            p64(&mut body, off);
            files.push(mf("log"));
            args = json!({"mmap_size": limbs(size), "mmap_offset": limbs(off)});
        }
        8 | 10 | 11 => {
            let index = rng.below(4) as u32;
            let num = match rng.below(4) {
                0 => 0,
                1 => 256,
                2 => 65535,
                _ => rng.below(70000) as u32,
            };
            p32(&mut body, index);
            p32(&mut body, num);
            args = json!({"index": index, "v": limbs(num as u64)});
        }
        18 => {
            let index = rng.below(4) as u32;
            let mut num = rng.below(2) as u32;
            if rule == "num2" {
                num = 2 + rng.below(1000) as u32;
            }
            p32(&mut body, index);
            p32(&mut body, num);
            args = json!({"index": index, "v": limbs(num as u64)});
        }
        9 => {
            let index = rng.below(4) as u32;
            let mut flags = rng.below(2) as u32;
            let mut desc = rng.u64_edge() & !0xf;
            let mut used = rng.u64_edge() & !0x3;
            let mut avail = rng.u64_edge() & !0x1;
            let log = rng.u64_edge();
            match rule {
                "flags_undef" => flags |= 1 << (1 + rng.below(31)),
                "desc_unaligned" => desc |= 1 + rng.below(15),
                "used_unaligned" => used |= 1 + rng.below(3),
                "avail_unaligned" => avail |= 1,
                _ => {}
            }
            p32(&mut body, index);
            p32(&mut body, flags);
            p64(&mut body, desc);
            p64(&mut body, used);
            p64(&mut body, avail);
            p64(&mut body, log);
            args = json!({"index": index, "flags": flags, "desc": limbs(desc), "used": limbs(used),
                "avail": limbs(avail), "log": limbs(log)});
        }
        12 | 13 | 14 => {
            let index = rng.below(4);
            let mut val = index;
            let mut with_fd = rng.below(3) != 0 || var == "fixed";
            if !with_fd {
                val |= 0x100;
            }
            match rule {
                "nofdbit_with_fd" => {
                    val |= 0x100;
                    with_fd = true;
                }
                "fdbit_without_fd" => {
                    val &= !0x100;
                    with_fd = false;
                }
                "highbits" => val |= rng.next() << 9,
                _ => {}
            }
            p64(&mut body, val);
            if with_fd {
                files.push(mf("vringfd"));
            }
            args = json!({"index": index, "v": limbs(val), "nofd": val & 0x100 != 0});
        }
        21 | 33 => {
            // a unix socket descriptor
            let (a, _b) = std::os::unix::net::UnixStream::pair().unwrap();
            use std::os::unix::io::IntoRawFd;
            use std::os::unix::io::FromRawFd;
            // SAFETY: converting an owned socket into an owned File.
            files.push(unsafe { File::from_raw_fd(a.into_raw_fd()) });
        }
        24 | 25 => {
            let mut off = 0x100 * rng.below(8) as u32;
            // the whole message (header + body + payload) must fit the 4096-byte limit of the protocol
            let smax = if rng.below(3) == 0 { (0x1000 - off as u64).min(0x1000 - 12) } else { 64 };
            let mut size = 1 + rng.below(smax) as u32;
            if var == "fixed" {
                size = 8;
            }
            if var == "max" {
                // the largest message the protocol allows: header size field = 12 + 4084 = 4096
                off = rng.below(13) as u32;
                size = 0x1000 - 12;
            }
            let mut flags = rng.below(4) as u32;
            let mut plen = size as usize;
            match rule {
                "size0" => {
                    size = 0;
                    plen = 0
                }
                "end_gt" => {
                    off = 0x1000 - size + 1;
                }
                "wrap" => {
                    off = (u32::MAX - size).wrapping_add(1 + (size > 1) as u32);
                }
                "size_huge" => {
                    // a window that starts inside the configuration space and whose 32-bit end wraps
                    off = 1 + rng.below(0xfff) as u32;
                    size = if rng.bool() { u32::MAX } else { (0u32).wrapping_sub(off) };
                    plen = 8;
                }
                "flags_undef" => flags |= 1 << (2 + rng.below(30)),
                "payload_short" => plen -= 1,
                "payload_long" => plen += 1,
                _ => {}
            }
            p32(&mut body, off);
            p32(&mut body, size);
            p32(&mut body, flags);
            let payload: Vec<u8> = (0..plen).map(|i| (i as u8) ^ 0x5a).collect();
            body.extend_from_slice(&payload);
            args = json!({"offset": limbs(off as u64), "size": limbs(size as u64), "flags": flags, "plen": plen,
                "payload": hex(&payload)});
        }
        31 | 32 => {
            let msize = if code == 32 { 1 + rng.below(0x10000) } else { rng.u64_edge() };
            let moff = rng.u64_edge();
            let mut nq = 1 + rng.below(65535) as u16;
            let mut qs = 1 + rng.below(65535) as u16;
            match rule {
                "nq0" => nq = 0,
                "qs0" => qs = 0,
                _ => {}
            }
            p64(&mut body, msize);
            p64(&mut body, moff);
            p16(&mut body, nq);
            p16(&mut body, qs);
            p32(&mut body, 0);
            if code == 32 {
                files.push(mf("inflight"));
            }
            args = json!({"mmap_size": limbs(msize), "mmap_offset": limbs(moff), "num_queues": nq, "queue_size": qs});
        }
        37 | 38 => {
            let mut r = valid_region(rng);
            r = break_region(r, rule);
            let mut pad = 0u64;
            if rule == "padding" {
                pad = 1 + rng.next() % 1000;
            }
            p64(&mut body, pad);
            put_region(&mut body, r);
            if code == 37 {
                files.push(mf("region"));
            }
            args = json!({"regions": [region_json(r)], "n": 1});
        }
        41 => {
            let mut u = [0u8; 16];
            for x in u.iter_mut() {
                *x = rng.next() as u8;
            }
            u[0] |= 1;
            u[1] &= 0xfe;
            match rule {
                "nil" => u = [0u8; 16],
                "max" => u = [0xff; 16],
                _ => {}
            }
            body.extend_from_slice(&u);
            args = json!({"uuid": hex(&u)});
        }
        42 => {
            let mut dir = rng.below(2) as u32;
            let mut phase = 0u32;
            match rule {
                "dir2" => dir = 2 + rng.below(1000) as u32,
                "phase1" => phase = 1 + rng.below(1000) as u32,
                _ => {}
            }
            p32(&mut body, dir);
            p32(&mut body, phase);
            files.push(mf("devstate"));
            args = json!({"direction": dir, "phase": phase});
        }
        _ => {}
    }
    let mut flags: u32 = 1 | if need_reply { 8 } else { 0 };
    let mut size = body.len() as u32;
    match var {
        "flags.reply" => flags |= 4,
        "flags.ver0" => flags &= !3,
        "flags.ver2" => flags = (flags & !3) | 2,
        "flags.ver3" => flags |= 3,
        "flags.resv" => flags |= 1 << (4 + rng.below(28)),
        "size.short" => {
            if size > 0 {
                size -= 1;
                body.truncate(size as usize);
            } else {
                size = 0
            }
        }
        "size.long" => {
            size += 1 + rng.below(8) as u32;
            body.resize(size as usize, 0xee);
        }
        "size.zero" => {
            size = 0;
            body.clear();
        }
        "size.max" => {
            size = 4096;
            body.resize(4096, 0x11);
        }
        "size.over" => {
            size = 4097 + rng.below(100000) as u32;
            body.clear(); // header is invalid: nothing more is read
        }
        _ => {}
    }
    if let Some(k) = var.strip_prefix("nfds.") {
        let k: usize = k.parse().unwrap();
        files.clear();
        for _ in 0..k {
            files.push(mf("extra"));
        }
    }
    Built {
        code,
        flags,
        size,
        body,
        files,
        args,
    }
}

/// The violated-rule variants that exist for each request code.
pub fn body_rules(code: u32) -> &'static [&'static str] {
    match code {
        5 => &["nregions0", "nregions33", "padding", "size0", "gpa_wrap", "ua_wrap", "off_wrap", "size_max", "len_short", "len_long"],
        6 => &["size0", "wrap"],
        9 => &["flags_undef", "desc_unaligned", "used_unaligned", "avail_unaligned"],
        12 | 13 | 14 => &["nofdbit_with_fd", "fdbit_without_fd"],
        18 => &["num2"],
        24 | 25 => &["size0", "end_gt", "wrap", "size_huge", "flags_undef", "payload_short", "payload_long"],
        31 | 32 => &["nq0", "qs0"],
        37 | 38 => &["size0", "gpa_wrap", "ua_wrap", "off_wrap", "size_max"],
        41 => &["nil", "max"],
        42 => &["dir2", "phase1"],
        _ => &[],
    }
}
