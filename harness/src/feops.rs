//! Frontend API operations by name and argument class (the letters of FrontendEndpoint.tla).
#![allow(dead_code)]

use crate::common::*;
use serde_json::{json, Value};
use std::fs::File;
use std::os::fd::OwnedFd;
use std::os::unix::io::AsRawFd;
use vhost::vhost_user::message::*;
use vhost::vhost_user::{Frontend, VhostUserFrontend};
use vhost::{VhostBackend, VhostUserDirtyLogRegion, VhostUserMemoryRegionInfo, VringConfigData};
use vmm_sys_util::eventfd::EventFd;

pub const MAXQ: u64 = 2;

pub struct CallOut {
    /// "ok" | "err:<Kind>"
    pub res: String,
    /// returned values (limbs / hex / file identity)
    pub ret: Value,
    /// the arguments of the call (for comparison with the handler's view)
    pub args: Value,
    /// identities of files lent to the call
    pub fdids: Vec<String>,
    /// descriptors lent to the call still open and unchanged afterwards?
    pub lent_ok: bool,
}

fn res_of<T>(r: &vhost::Result<T>) -> String {
    match r {
        Ok(_) => "ok".into(),
        Err(vhost::Error::VhostUserProtocol(e)) => format!("err:{}", errkind(e)),
        Err(e) => format!("err:{}", errkind(e)),
    }
}

fn region(rng: &mut Rng, fd: i32) -> VhostUserMemoryRegionInfo {
    let size = 0x1000 * (1 + rng.below(8));
    VhostUserMemoryRegionInfo {
        guest_phys_addr: rng.u64_edge() % (u64::MAX - size),
        memory_size: size,
        userspace_addr: rng.u64_edge() % (u64::MAX - size),
        mmap_offset: 0x1000 * rng.below(4),
        mmap_handle: fd,
    }
}
fn region_json(r: &VhostUserMemoryRegionInfo) -> Value {
    json!({"gpa": limbs(r.guest_phys_addr), "size": limbs(r.memory_size),
           "ua": limbs(r.userspace_addr), "off": limbs(r.mmap_offset)})
}

/// Perform operation `op` with argument class `cls` on the real Frontend.
pub fn call_op(fe: &mut Frontend, op: &str, cls: &str, v: u64, rng: &mut Rng) -> CallOut {
    let mut ret = json!({});
    let mut args = json!({});
    let mut lent: Vec<File> = Vec::new();
    let mut lent_ev: Vec<EventFd> = Vec::new();
    let mut extra_ids: Vec<String> = Vec::new();
    let q = if cls == "q_oob" { (MAXQ + rng.below(3) * 100) as usize } else { rng.below(MAXQ) as usize };
    let res: String = match op {
        "get_features" => {
            let r = fe.get_features();
            if let Ok(x) = &r {
                ret = json!({"v": limbs(*x)});
            }
            res_of(&r)
        }
        "set_features" => {
            args = json!({"v": limbs(v)});
            res_of(&fe.set_features(v))
        }
        "set_owner" => res_of(&fe.set_owner()),
        "reset_owner" => res_of(&fe.reset_owner()),
        "set_mem_table" => {
            let n = match cls {
                "empty" => 0,
                "toomany" => 33,
                "n32" => 32,
                _ => 1 + rng.below(4) as usize,
            };
            let mut regs = Vec::new();
            for i in 0..n {
                let f = memfd("reg", 0x1000);
                let mut r = region(rng, f.as_raw_fd());
                if cls == "zero_size" && i == n - 1 {
                    r.memory_size = 0;
                }
                if cls == "neg_fd" && i == n - 1 {
                    r.mmap_handle = -1;
                }
                lent.push(f);
                regs.push(r);
            }
            args = json!({"regions": regs.iter().map(region_json).collect::<Vec<_>>(), "n": n});
            res_of(&fe.set_mem_table(&regs))
        }
        "set_log_base" => {
            let base = rng.u64_edge();
            if cls == "shmfd" {
                let f = memfd("log", 0x4000);
                let reg = VhostUserDirtyLogRegion {
                    mmap_size: 0x1000 * (1 + rng.below(3)),
                    mmap_offset: 0x1000 * rng.below(2),
                    mmap_handle: f.as_raw_fd(),
                };
                args = json!({"base": limbs(base), "mmap_size": limbs(reg.mmap_size), "mmap_offset": limbs(reg.mmap_offset)});
                lent.push(f);
                res_of(&fe.set_log_base(base, Some(reg)))
            } else {
                args = json!({"base": limbs(base)});
                res_of(&fe.set_log_base(base, None))
            }
        }
        "set_log_fd" => {
            let f = memfd("logfd", 0);
            let r = fe.set_log_fd(f.as_raw_fd());
            lent.push(f);
            res_of(&r)
        }
        "set_vring_num" => {
            let num = *rng.pick(&[0u16, 1, 2, 3, 256, 32768, 65535]);
            args = json!({"index": q, "v": limbs(num as u64)});
            res_of(&fe.set_vring_num(q, num))
        }
        "set_vring_base" => {
            let num = *rng.pick(&[0u16, 1, 32767, 65535]);
            args = json!({"index": q, "v": limbs(num as u64)});
            res_of(&fe.set_vring_base(q, num))
        }
        "get_vring_base" => {
            args = json!({"index": q});
            let r = fe.get_vring_base(q);
            if let Ok(x) = &r {
                ret = json!({"v": limbs(*x as u64)});
            }
            res_of(&r)
        }
        "set_vring_addr" => {
            let mut flags = rng.below(2) as u32;
            if cls == "flags_undef" {
                flags |= 1 << (1 + rng.below(31));
            }
            let cfg = VringConfigData {
                queue_max_size: 256,
                queue_size: 128,
                flags,
                desc_table_addr: rng.u64_edge() & !0xf,
                used_ring_addr: rng.u64_edge() & !0x3,
                avail_ring_addr: rng.u64_edge() & !0x1,
                log_addr: if rng.bool() { Some(rng.u64_edge()) } else { None },
            };
            args = json!({"index": q, "flags": flags, "desc": limbs(cfg.desc_table_addr), "used": limbs(cfg.used_ring_addr),
                "avail": limbs(cfg.avail_ring_addr), "log": limbs(cfg.log_addr.unwrap_or(0))});
            res_of(&fe.set_vring_addr(q, &cfg))
        }
        "set_vring_kick" | "set_vring_call" | "set_vring_err" => {
            let e = EventFd::new(0).unwrap();
            args = json!({"index": q});
            let r = match op {
                "set_vring_kick" => fe.set_vring_kick(q, &e),
                "set_vring_call" => fe.set_vring_call(q, &e),
                _ => fe.set_vring_err(q, &e),
            };
            lent_ev.push(e);
            res_of(&r)
        }
        "get_protocol_features" => {
            let r = fe.get_protocol_features();
            if let Ok(x) = &r {
                ret = json!({"v": limbs(x.bits())});
            }
            res_of(&r)
        }
        "set_protocol_features" => {
            args = json!({"v": limbs(v)});
            res_of(&fe.set_protocol_features(VhostUserProtocolFeatures::from_bits_truncate(v)))
        }
        "get_queue_num" => {
            let r = fe.get_queue_num();
            if let Ok(x) = &r {
                ret = json!({"v": limbs(*x)});
            }
            res_of(&r)
        }
        "reset_device" => res_of(&fe.reset_device()),
        "set_vring_enable" => {
            let en = rng.bool();
            args = json!({"index": q, "v": limbs(en as u64)});
            res_of(&fe.set_vring_enable(q, en))
        }
        "get_config" => {
            let (off, size): (u32, u32) = match cls {
                "size0" => (0x100, 0),
                "end_gt" => (0x1000 - 7, 8),
                "wrap" => (u32::MAX - 3, 8),
                // the largest payload a message can carry (header size field = 12 + 4084 = 4096), at offsets 0..=12
                "max" => (rng.below(13) as u32, 0x1000 - 12),
                _ => (0x100 * rng.below(8) as u32, 1 + rng.below(64) as u32),
            };
            let flags = VhostUserConfigFlags::from_bits_truncate(rng.below(4) as u32);
            let buf: Vec<u8> = (0..size.min(0x1000) as usize).map(|i| i as u8 ^ 0x33).collect();
            args = json!({"offset": limbs(off as u64), "size": limbs(size as u64), "flags": flags.bits(), "plen": buf.len(), "payload": hex(&buf), "pbytes": bytes_json(&buf)});
            let r = fe.get_config(off, size, flags, &buf);
            if let Ok((c, p)) = &r {
                let (o, s, f) = (c.offset, c.size, c.flags);
                ret = json!({"offset": o, "size": s, "flags": f, "payload": hex(p)});
            }
            res_of(&r)
        }
        "set_config" => {
            let (off, len): (u32, usize) = match cls {
                "size0" => (0x100, 0),
                "end_gt" => (0x1000 - 7, 8),
                "toolong" => (0, 0x1001),
                "max" => (rng.below(13) as u32, 0x1000 - 12),
                _ => (0x100 * rng.below(8) as u32, 1 + rng.below(64) as usize),
            };
            let flags = VhostUserConfigFlags::from_bits_truncate(rng.below(4) as u32);
            let buf: Vec<u8> = (0..len).map(|i| i as u8 ^ 0x77).collect();
            args = json!({"offset": limbs(off as u64), "size": limbs(len as u64), "flags": flags.bits(), "plen": len, "payload": hex(&buf), "pbytes": bytes_json(&buf)});
            res_of(&fe.set_config(off, flags, &buf))
        }
        "set_backend_request_fd" => {
            let (a, b) = std::os::unix::net::UnixStream::pair().unwrap();
            let r = fe.set_backend_request_fd(&a);
            drop(b);
            use std::os::unix::io::{FromRawFd, IntoRawFd};
            // SAFETY: owned socket into owned File
            lent.push(unsafe { File::from_raw_fd(a.into_raw_fd()) });
            res_of(&r)
        }
        "get_shared_object" => {
            let mut u = [0u8; 16];
            for x in u.iter_mut() {
                *x = rng.next() as u8;
            }
            u[0] |= 1;
            u[1] &= 0xfe;
            if cls == "nil" {
                u = [0; 16];
            }
            if cls == "max" {
                u = [0xff; 16];
            }
            let m = VhostUserSharedMsg {
                uuid: uuid::Uuid::from_bytes(u),
            };
            args = json!({"uuid": hex(&u), "ubytes": bytes_json(&u)});
            let r = fe.get_shared_object(&m);
            if let Ok(f) = &r {
                ret = json!({"file": fd_id(f.as_raw_fd())});
            }
            res_of(&r)
        }
        "get_inflight_fd" => {
            let i = VhostUserInflight::new(rng.u64_edge(), rng.u64_edge(), 1 + rng.below(8) as u16, 1 + rng.below(1024) as u16);
            args = json!({"mmap_size": limbs(i.mmap_size), "mmap_offset": limbs(i.mmap_offset), "num_queues": i.num_queues, "queue_size": i.queue_size});
            let r = fe.get_inflight_fd(&i);
            if let Ok((o, f)) = &r {
                ret = json!({"mmap_size": limbs(o.mmap_size), "mmap_offset": limbs(o.mmap_offset), "num_queues": o.num_queues,
                    "queue_size": o.queue_size, "file": fd_id(f.as_raw_fd())});
            }
            res_of(&r)
        }
        "set_inflight_fd" => {
            let f = memfd("infl", 0x1000);
            let mut i = VhostUserInflight::new(1 + rng.below(0x10000), rng.u64_edge(), 1 + rng.below(8) as u16, 1 + rng.below(1024) as u16);
            let mut fd = f.as_raw_fd();
            match cls {
                "size0" => i.mmap_size = 0,
                "nq0" => i.num_queues = 0,
                "qs0" => i.queue_size = 0,
                "neg_fd" => fd = -1,
                _ => {}
            }
            args = json!({"mmap_size": limbs(i.mmap_size), "mmap_offset": limbs(i.mmap_offset), "num_queues": i.num_queues, "queue_size": i.queue_size});
            let r = fe.set_inflight_fd(&i, fd);
            lent.push(f);
            res_of(&r)
        }
        "get_max_mem_slots" => {
            let r = fe.get_max_mem_slots();
            if let Ok(x) = &r {
                ret = json!({"v": limbs(*x)});
            }
            res_of(&r)
        }
        "add_mem_region" | "remove_mem_region" => {
            let f = memfd("reg", 0x1000);
            let mut r = region(rng, f.as_raw_fd());
            if cls == "zero_size" {
                r.memory_size = 0;
            }
            if cls == "neg_fd" {
                r.mmap_handle = -1;
            }
            args = json!({"regions": [region_json(&r)], "n": 1});
            let rr = if op == "add_mem_region" { fe.add_mem_region(&r) } else { fe.remove_mem_region(&r) };
            if op == "add_mem_region" {
                lent.push(f);
            }
            res_of(&rr)
        }
        "get_shmem_config" => {
            let r = fe.get_shmem_config();
            if let Ok(c) = &r {
                let sizes: Vec<Value> = c.memory_sizes.iter().take(8).map(|x| limbs(*x)).collect();
                ret = json!({"nregions": c.nregions, "sizes": sizes});
            }
            res_of(&r)
        }
        "set_device_state_fd" => {
            let f = memfd("state", 0);
            let id = fd_id(f.as_raw_fd());
            let dir = if rng.bool() { VhostTransferStateDirection::SAVE } else { VhostTransferStateDirection::LOAD };
            args = json!({"direction": dir as u32, "phase": 0});
            extra_ids.push(id);
            let r = fe.set_device_state_fd(dir, VhostTransferStatePhase::STOPPED, OwnedFd::from(f));
            if let Ok(o) = &r {
                ret = json!({"file": o.as_ref().map(|f| fd_id(f.as_raw_fd())).unwrap_or_else(|| "none".into())});
            }
            res_of(&r)
        }
        "check_device_state" => res_of(&fe.check_device_state()),
        _ => panic!("unknown op {op}"),
    };
    let mut fdids = extra_ids;
    let mut lent_ok = true;
    for f in &lent {
        let id = fd_id(f.as_raw_fd());
        if id == "closed" {
            lent_ok = false;
        }
        fdids.push(id);
    }
    for e in &lent_ev {
        if fd_id(e.as_raw_fd()) == "closed" {
            lent_ok = false;
        }
    }
    // a descriptor the library closed although it was only lent must not be closed a second time by our own File
    // (the Rust runtime aborts the process on a double close): the observation is `lent_ok`, not a crash of the harness
    for f in lent {
        if fd_id(f.as_raw_fd()) == "closed" {
            std::mem::forget(f);
        }
    }
    for e in lent_ev {
        if fd_id(e.as_raw_fd()) == "closed" {
            std::mem::forget(e);
        }
    }
    CallOut {
        res,
        ret,
        args,
        fdids,
        lent_ok,
    }
}
