//! Engine "sender" (C08, sender clause): every message an endpoint of the library sends must reach the
//! peer exactly once and in order, with its descriptors attached to the first byte only, whatever part of
//! each write the socket accepts.
//!
//! The harness binary defines `sendmsg` itself (the same technique as `ioctl` in eng_kern.rs): for the one
//! socket under test the scripted pattern decides how many bytes each attempt may transfer (the real system
//! call is issued with the iovec cut down to that many bytes, so the kernel really transfers that part, with
//! whatever ancillary data the caller passed), or fails it with EAGAIN / EINTR without transferring anything
//! -- exactly what a non-blocking socket with a small send buffer does, but reproducible. The independent peer
//! then reads the stream with the same granularity (one recvmsg per transferred part), so the offset at which
//! descriptors arrive is exact.
//!
//! Case: {"id":.., "ep":"fe"|"srv"|"be"|"gpu", "op":.., "cls":.., "script":[k..], "eintr":bool, "dlen":n}
//! Trace: {"ev":"send", ..., "attempts":[[len, nfds_passed, ret]..], "wire":hex, "fdoffs":[[off,n]..], "ref":hex, "ref_nfds":n}

use crate::common::*;
use crate::eng_gpu::gpu_call;
use crate::eng_server::{apply_dev, do_step, do_step_ex, ServerRig};
use crate::feops::call_op;
use libc::c_int;
use serde_json::{json, Value};
use std::collections::VecDeque;
use std::os::unix::io::AsRawFd;
use std::os::unix::net::UnixStream;
use std::sync::Mutex;
use vhost::vhost_user::message::VhostUserProtocolFeatures;
use vhost::vhost_user::{Backend, Frontend, GpuBackend, VhostUserFrontend};
use vhost::VhostBackend;

pub struct Script {
    send_ino: u64,
    drain_ino: u64,
    chunks: VecDeque<u64>,
    errno: i32,
    /// (bytes offered, descriptors passed, result) of every intercepted attempt
    pub attempts: Vec<(usize, usize, i64)>,
    pub iovs: Vec<usize>,
    drained: bool,
    /// waits for writability of the socket under test that are still to come back "timed out, not writable"
    poll_timeouts: u32,
    pub polls: u32,
}

pub static SCRIPT: Mutex<Option<Script>> = Mutex::new(None);

fn ino_of(fd: i32) -> u64 {
    // SAFETY: fstat on a descriptor number; result checked.
    unsafe {
        let mut st: libc::stat = std::mem::zeroed();
        if libc::fstat(fd, &mut st) == 0 {
            st.st_ino
        } else {
            0
        }
    }
}

/// # Safety
/// Same contract as sendmsg(2).
#[no_mangle]
pub unsafe extern "C" fn sendmsg(fd: c_int, msg: *const libc::msghdr, flags: c_int) -> isize {
    let mut limit: Option<usize> = None;
    let mut fail: Option<i32> = None;
    let mut matched = false;
    // (blocking lock: a contended try_lock used to skip the scripted step silently, so that the pattern depended on timing; the
    // lock is only ever held for a few instructions and never across a system call)
    {
        let mut g = SCRIPT.lock().unwrap_or_else(|e| e.into_inner());
        if let Some(s) = g.as_mut() {
            if s.send_ino != 0 && ino_of(fd) == s.send_ino {
                matched = true;
                let iov = std::slice::from_raw_parts((*msg).msg_iov, (*msg).msg_iovlen as usize);
                let total: usize = iov.iter().map(|v| v.iov_len).sum();
                if s.attempts.is_empty() {
                    s.iovs = iov.iter().map(|v| v.iov_len).collect();
                }
                match s.chunks.pop_front() {
                    Some(0) => fail = Some(s.errno),
                    Some(k) => limit = Some((k as usize).min(total)),
                    None => {}
                }
            }
        }
    }
    let nf = if matched { passed_fds(msg) } else { 0 };
    let total: usize = if matched {
        std::slice::from_raw_parts((*msg).msg_iov, (*msg).msg_iovlen as usize).iter().map(|v| v.iov_len).sum()
    } else {
        0
    };
    let ret: isize = if let Some(e) = fail {
        *libc::__errno_location() = e;
        -1
    } else if let Some(k) = limit {
        // the same message with the data cut down to k bytes
        let iov = std::slice::from_raw_parts((*msg).msg_iov, (*msg).msg_iovlen as usize);
        let mut cut: Vec<libc::iovec> = Vec::new();
        let mut left = k;
        for v in iov {
            if left == 0 {
                break;
            }
            let n = v.iov_len.min(left);
            cut.push(libc::iovec { iov_base: v.iov_base, iov_len: n });
            left -= n;
        }
        let mut m2: libc::msghdr = std::ptr::read(msg);
        m2.msg_iov = cut.as_mut_ptr();
        m2.msg_iovlen = cut.len() as _;
        libc::syscall(libc::SYS_sendmsg, fd, &m2 as *const libc::msghdr, flags) as isize
    } else {
        libc::syscall(libc::SYS_sendmsg, fd, msg, flags) as isize
    };
    if matched {
        let saved = *libc::__errno_location();
        {
            let mut g = SCRIPT.lock().unwrap_or_else(|e| e.into_inner());
            if let Some(s) = g.as_mut() {
                s.attempts.push((total, nf, ret as i64));
            }
        }
        *libc::__errno_location() = saved;
    }
    ret
}

/// A sender that, refused by a full socket buffer, waits for writability: the first waits on the socket under test come back
/// as "timed out" without sleeping (a reader that stays away longer than any bound the sender may have chosen) -- the message
/// must still go out whole or not at all.  Everything else is forwarded to the kernel.
/// # Safety
/// Same contract as poll(2).
#[no_mangle]
pub unsafe extern "C" fn poll(fds: *mut libc::pollfd, nfds: libc::nfds_t, timeout: c_int) -> c_int {
    if !fds.is_null() && nfds > 0 {
        {
            let mut g = SCRIPT.lock().unwrap_or_else(|e| e.into_inner());
            if let Some(s) = g.as_mut() {
                let pf = std::slice::from_raw_parts_mut(fds, nfds as usize);
                if s.send_ino != 0 && s.poll_timeouts > 0 && pf.iter().any(|p| p.fd >= 0 && p.events & libc::POLLOUT != 0 && ino_of(p.fd) == s.send_ino) {
                    s.poll_timeouts -= 1;
                    s.polls += 1;
                    for p in pf.iter_mut() {
                        p.revents = 0;
                    }
                    return 0;
                }
            }
        }
    }
    let ts = libc::timespec { tv_sec: (timeout / 1000) as _, tv_nsec: ((timeout % 1000) as i64 * 1_000_000) as _ };
    let tsp: *const libc::timespec = if timeout < 0 { std::ptr::null() } else { &ts };
    libc::syscall(libc::SYS_ppoll, fds, nfds, tsp, std::ptr::null::<libc::sigset_t>(), 8usize) as c_int
}

/// Transient receive conditions: the next receive attempts on the socket with inode `ino` fail with the given errno values
/// (EAGAIN: a receive timeout expired / non-blocking socket; EINTR: a signal) before anything was transferred.
pub struct RecvScript {
    ino: u64,
    fails: VecDeque<i32>,
    pub injected: usize,
}
pub static RSCRIPT: Mutex<Option<RecvScript>> = Mutex::new(None);

/// # Safety
/// Same contract as recvmsg(2).
#[no_mangle]
pub unsafe extern "C" fn recvmsg(fd: c_int, msg: *mut libc::msghdr, flags: c_int) -> isize {
    let mut fail: Option<i32> = None;
    {
        let mut g = RSCRIPT.lock().unwrap_or_else(|e| e.into_inner());
        if let Some(s) = g.as_mut() {
            if !s.fails.is_empty() && s.ino != 0 && ino_of(fd) == s.ino {
                if let Some(e) = s.fails.pop_front() {
                    if e != 0 {
                        s.injected += 1;
                        fail = Some(e);
                    }
                }
            }
        }
    }
    if let Some(e) = fail {
        *libc::__errno_location() = e;
        return -1;
    }
    libc::syscall(libc::SYS_recvmsg, fd, msg, flags) as isize
}

pub fn arm_recv(sock: &UnixStream, errnos: &[i32]) {
    *RSCRIPT.lock().unwrap() = Some(RecvScript { ino: ino_of(sock.as_raw_fd()), fails: errnos.iter().cloned().collect(), injected: 0 });
}
pub fn disarm_recv() -> usize {
    RSCRIPT.lock().unwrap().take().map(|s| s.injected).unwrap_or(0)
}

unsafe fn passed_fds(msg: *const libc::msghdr) -> usize {
    let mut n = 0;
    if (*msg).msg_control.is_null() || (*msg).msg_controllen == 0 {
        return 0;
    }
    let mut c = libc::CMSG_FIRSTHDR(msg);
    while !c.is_null() {
        if (*c).cmsg_level == libc::SOL_SOCKET && (*c).cmsg_type == libc::SCM_RIGHTS {
            n += ((*c).cmsg_len as usize - libc::CMSG_LEN(0) as usize) / 4;
        }
        c = libc::CMSG_NXTHDR(msg, c);
    }
    n
}

/// Sizes of the parts the scripted socket really transferred, if `sock` is the peer that must read them
/// with the same granularity (consulted once by common::raw_drain).
pub fn drain_sizes_for(sock: &UnixStream) -> Option<Vec<usize>> {
    let mut g = SCRIPT.try_lock().ok()?;
    let s = g.as_mut()?;
    if s.drained || s.drain_ino == 0 || ino_of(sock.as_raw_fd()) != s.drain_ino {
        return None;
    }
    s.drained = true;
    Some(s.attempts.iter().filter(|a| a.2 > 0).map(|a| a.2 as usize).collect())
}

fn arm(send: &UnixStream, drain: &UnixStream, script: &[u64], eintr: bool) {
    *SCRIPT.lock().unwrap() = Some(Script {
        send_ino: ino_of(send.as_raw_fd()),
        drain_ino: ino_of(drain.as_raw_fd()),
        chunks: script.iter().cloned().collect(),
        errno: if eintr { libc::EINTR } else { libc::EAGAIN },
        attempts: Vec::new(),
        iovs: Vec::new(),
        drained: false,
        poll_timeouts: 2,
        polls: 0,
    });
}

/// Script the next send attempts on `send` only (no peer reads with matching granularity): used by the session engine
/// to put transient refusals and partial writes under ordinary calls.
pub fn arm_send_only(send: &UnixStream, script: &[u64], eintr: bool) {
    *SCRIPT.lock().unwrap() = Some(Script {
        send_ino: ino_of(send.as_raw_fd()),
        drain_ino: 0,
        chunks: script.iter().cloned().collect(),
        errno: if eintr { libc::EINTR } else { libc::EAGAIN },
        attempts: Vec::new(),
        iovs: Vec::new(),
        drained: false,
        poll_timeouts: 2,
        polls: 0,
    });
}
pub fn disarm_quiet() {
    let _ = SCRIPT.lock().unwrap().take();
}

fn disarm() -> (Vec<(usize, usize, i64)>, Vec<usize>) {
    match SCRIPT.lock().unwrap().take() {
        Some(s) => (s.attempts, s.iovs),
        None => (Vec::new(), Vec::new()),
    }
}

fn reply_bytes(code: u32, val: u64) -> Vec<u8> {
    let mut b = Vec::new();
    b.extend_from_slice(&code.to_le_bytes());
    b.extend_from_slice(&5u32.to_le_bytes());
    b.extend_from_slice(&8u32.to_le_bytes());
    b.extend_from_slice(&val.to_le_bytes());
    b
}

fn discard(sock: &UnixStream) {
    let (c, _) = raw_drain(sock);
    close_chunk_fds(&c);
}

/// What the peer received: all bytes, and where descriptors arrived.
fn collect(peer: &UnixStream) -> (Vec<u8>, Vec<(usize, usize)>) {
    let (chunks, _) = raw_drain(peer);
    let mut wire = Vec::new();
    let mut fdoffs = Vec::new();
    for (b, f) in chunks.iter() {
        if !f.is_empty() {
            fdoffs.push((wire.len(), f.len()));
        }
        wire.extend_from_slice(b);
    }
    close_chunk_fds(&chunks);
    (wire, fdoffs)
}

struct Sent {
    res_ok: bool,
    wire: Vec<u8>,
    fdoffs: Vec<(usize, usize)>,
    attempts: Vec<(usize, usize, i64)>,
    iovs: Vec<usize>,
}

fn frontend_pair() -> (Frontend, UnixStream, UnixStream) {
    let (a, b) = UnixStream::pair().unwrap();
    let a2 = a.try_clone().unwrap();
    let mut fe = Frontend::from_stream(a, 2);
    // negotiation without acknowledgements: the answers are queued before the calls that read them
    let all_pf = VhostUserProtocolFeatures::all().bits() & !VhostUserProtocolFeatures::REPLY_ACK.bits();
    let _ = raw_send_all(&b, &reply_bytes(1, u64::MAX), &[]);
    let f = fe.get_features().unwrap_or(0);
    let _ = fe.set_features(f);
    let _ = raw_send_all(&b, &reply_bytes(15, all_pf), &[]);
    if let Ok(pf) = fe.get_protocol_features() {
        let _ = fe.set_protocol_features(pf);
    }
    discard(&b);
    (fe, a2, b)
}

fn run_one(ep: &str, op: &str, cls: &str, dlen: usize, script: Option<(&[u64], bool)>, seed: u64) -> Sent {
    let mut rng = Rng::new(seed);
    match ep {
        "fe" => {
            let (mut fe, a2, b) = frontend_pair();
            if let Some((s, e)) = script {
                arm(&a2, &b, s, e);
            } else {
                arm(&a2, &b, &[], false);
            }
            let out = call_op(&mut fe, op, cls, 0x1_0000_0003, &mut rng);
            let (wire, fdoffs) = collect(&b);
            let (attempts, iovs) = disarm();
            Sent { res_ok: out.res == "ok", wire, fdoffs, attempts, iovs }
        }
        "gpu" => {
            let (a, b) = UnixStream::pair().unwrap();
            let a2 = a.try_clone().unwrap();
            let g = GpuBackend::from_stream(a);
            arm(&a2, &b, script.map(|s| s.0).unwrap_or(&[]), script.map(|s| s.1).unwrap_or(false));
            let out = gpu_call(&g, op, dlen, true, &mut rng);
            let (wire, fdoffs) = collect(&b);
            let (attempts, iovs) = disarm();
            Sent { res_ok: out.res == "ok", wire, fdoffs, attempts, iovs }
        }
        "be" => {
            let (a, b) = UnixStream::pair().unwrap();
            let a2 = a.try_clone().unwrap();
            let be = Backend::from_stream(a);
            be.set_shared_object_flag(true);
            be.set_shmem_flag(true);
            let k: u64 = match op {
                "shared_object_add" => 6,
                "shared_object_remove" => 7,
                "shared_object_lookup" => 8,
                "shmem_map" => 9,
                _ => 10,
            };
            let (sm, m, req) = crate::eng_bereq::make_req(k, "valid", &mut rng);
            arm(&a2, &b, script.map(|s| s.0).unwrap_or(&[]), script.map(|s| s.1).unwrap_or(false));
            use vhost::vhost_user::VhostUserFrontendReqHandler;
            let r = match k {
                6 => be.shared_object_add(&sm),
                7 => be.shared_object_remove(&sm),
                8 => be.shared_object_lookup(&sm, req.file.as_ref().unwrap()),
                9 => be.shmem_map(&m, req.file.as_ref().unwrap()),
                _ => be.shmem_unmap(&m),
            };
            let (wire, fdoffs) = collect(&b);
            let (attempts, iovs) = disarm();
            Sent { res_ok: r.is_ok(), wire, fdoffs, attempts, iovs }
        }
        _ => {
            // "srv": the reply of the backend request server to request code `op`
            let code: u64 = op.parse().unwrap_or(1);
            let rig = ServerRig::new("mutex");
            apply_dev(&rig.core, &json!({"vf": [30], "pf": [0, 1, 3, 5, 8, 9, 12, 13, 15, 18, 19, 21]}));
            let gates: Vec<u64> = vec![0, 1, 3, 5, 8, 9, 12, 13, 15, 18, 19, 21];
            for st in [json!({"c": 1, "nr": false, "h": "ok", "v": [], "var": "valid"}), json!({"c": 2, "nr": false, "h": "ok", "v": [30], "var": "valid"}),
                       json!({"c": 16, "nr": false, "h": "ok", "v": gates, "var": "valid"})] {
                let _ = do_step(&rig, &st, &mut rng);
            }
            arm(&rig.srv_dup, &rig.peer, script.map(|s| s.0).unwrap_or(&[]), script.map(|s| s.1).unwrap_or(false));
            let (ev, raw) = do_step_ex(&rig, &json!({"c": code, "nr": cls == "nr", "h": "ok", "v": [], "var": "fixed"}), &mut rng);
            let (attempts, iovs) = disarm();
            let mut wire = Vec::new();
            let mut fdoffs = Vec::new();
            for (b, n) in raw.iter() {
                if *n > 0 {
                    fdoffs.push((wire.len(), *n));
                }
                wire.extend_from_slice(b);
            }
            {
                let mut sc = rig.core.s.lock().unwrap();
                sc.keep.clear();
                sc.ret_file = None;
            }
            let ok = ev["res"].as_str() == Some("ok");
            rig.finish();
            Sent { res_ok: ok, wire, fdoffs, attempts, iovs }
        }
    }
}

pub fn run(cases: &[Value], trace: &mut Trace, seed: u64) {
    for case in cases {
        let ep = case["ep"].as_str().unwrap_or("fe");
        let op = case["op"].as_str().unwrap_or("");
        let cls = case["cls"].as_str().unwrap_or("valid");
        let dlen = case["dlen"].as_u64().unwrap_or(0) as usize;
        let script: Vec<u64> = case["script"].as_array().map(|a| a.iter().map(|x| x.as_u64().unwrap_or(0)).collect()).unwrap_or_default();
        let eintr = case["eintr"].as_bool().unwrap_or(false);
        // the arguments depend on the operation only, so that the reference run produces the same message
        let s = seed ^ (op.len() as u64 * 0x9e37 + dlen as u64 + cls.len() as u64 * 131);
        let reference = run_one(ep, op, cls, dlen, None, s);
        // a panic inside the send path (e.g. a slice index derived from a wrong resume position) is data
        let mut panicked = false;
        let got = match std::panic::catch_unwind(std::panic::AssertUnwindSafe(|| run_one(ep, op, cls, dlen, Some((&script, eintr)), s))) {
            Ok(g) => g,
            Err(_) => {
                panicked = true;
                let (attempts, iovs) = disarm();
                let _ = take_panics();
                Sent { res_ok: false, wire: Vec::new(), fdoffs: Vec::new(), attempts, iovs }
            }
        };
        let ref_nfds: usize = reference.fdoffs.iter().map(|x| x.1).sum();
        trace.emit(json!({
            "ev": "send", "id": case["id"], "ep": ep, "op": op, "cls": cls, "dlen": dlen, "script": script, "eintr": eintr,
            "len": reference.wire.len(), "iovs": reference.iovs, "ref_nfds": ref_nfds, "ref_ok": reference.res_ok,
            "ref_at_first": reference.fdoffs.iter().all(|x| x.0 == 0),
            "attempts": got.attempts.iter().map(|a| json!([a.0, a.1, a.2])).collect::<Vec<_>>(),
            "accepted": got.attempts.iter().map(|a| a.2.max(0)).collect::<Vec<_>>(),
            "got_len": got.wire.len(), "same_bytes": got.wire == reference.wire,
            "is_prefix": reference.wire.starts_with(&got.wire),
            "fdoffs": got.fdoffs.iter().map(|x| json!([x.0, x.1])).collect::<Vec<_>>(),
            "res": if panicked { "panic" } else if got.res_ok { "ok" } else { "err" },
        }));
    }
}
