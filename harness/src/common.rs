//! Shared helpers: PRNG, raw unix-socket I/O with SCM_RIGHTS (independent of the code under
//! test), descriptor identity, trace output.
#![allow(dead_code)]

use serde_json::{json, Value};
use std::fs::File;
use std::io::{BufRead, BufReader, BufWriter, Write};
use std::os::unix::io::{AsRawFd, FromRawFd, RawFd};
use std::os::unix::net::UnixStream;

// ---------------------------------------------------------------- PRNG (xorshift64*)
pub struct Rng(pub u64);
impl Rng {
    pub fn new(seed: u64) -> Self {
        Rng(seed.wrapping_mul(0x9E3779B97F4A7C15) ^ 0xD1B54A32D192ED03 | 1)
    }
    pub fn next(&mut self) -> u64 {
        let mut x = self.0;
        x ^= x >> 12;
        x ^= x << 25;
        x ^= x >> 27;
        self.0 = x;
        x.wrapping_mul(0x2545F4914F6CDD1D)
    }
    pub fn below(&mut self, n: u64) -> u64 {
        if n == 0 {
            0
        } else {
            self.next() % n
        }
    }
    pub fn pick<'a, T>(&mut self, v: &'a [T]) -> &'a T {
        &v[self.below(v.len() as u64) as usize]
    }
    pub fn bool(&mut self) -> bool {
        self.next() & 1 == 1
    }
    /// 64-bit value biased to boundaries.
    pub fn u64_edge(&mut self) -> u64 {
        const E: [u64; 14] = [
            0,
            1,
            0xfff,
            0x1000,
            0x7fff_ffff,
            0x8000_0000,
            0xffff_ffff,
            0x1_0000_0000,
            0x7fff_ffff_ffff_ffff,
            0x8000_0000_0000_0000,
            0xffff_ffff_ffff_f000,
            0xffff_ffff_ffff_fffe,
            0xffff_ffff_ffff_ffff,
            0x1234_5678_9abc_def0,
        ];
        match self.below(4) {
            0 => *self.pick(&E),
            1 => self.pick(&E).wrapping_add(self.below(3)).wrapping_sub(1),
            _ => self.next(),
        }
    }
}

// ---------------------------------------------------------------- trace output
pub struct Trace {
    w: BufWriter<File>,
    pub n: u64,
    /// write every event through at once (VH_FLUSH=1): the driver then knows which step killed the process
    pub autoflush: bool,
}
impl Trace {
    pub fn create(path: &str) -> Self {
        Trace {
            w: BufWriter::new(File::create(path).expect("create trace")),
            n: 0,
            autoflush: std::env::var("VH_FLUSH").is_ok(),
        }
    }
    pub fn emit(&mut self, mut v: Value) {
        // strings cannot be indexed in TLC: spell out whether a textual result is a success
        if let Some(r) = v.get("res").and_then(|r| r.as_str()) {
            let ok = r.starts_with("ok");
            v["res_ok"] = serde_json::json!(ok);
        }
        serde_json::to_writer(&mut self.w, &v).unwrap();
        self.w.write_all(b"\n").unwrap();
        self.n += 1;
        if self.autoflush {
            self.w.flush().unwrap();
        }
    }
    pub fn flush(&mut self) {
        self.w.flush().unwrap();
    }
}

pub fn read_cases(path: &str) -> Vec<Value> {
    let f = File::open(path).unwrap_or_else(|e| panic!("open {path}: {e}"));
    BufReader::new(f)
        .lines()
        .map(|l| l.unwrap())
        .filter(|l| !l.trim().is_empty())
        .map(|l| serde_json::from_str(&l).unwrap_or_else(|e| panic!("bad case line {l}: {e}")))
        .collect()
}

/// 64-bit value as four 16-bit limbs, least significant first (TLC integers are 32-bit).
pub fn limbs(v: u64) -> Value {
    json!([v & 0xffff, (v >> 16) & 0xffff, (v >> 32) & 0xffff, (v >> 48) & 0xffff])
}
pub fn from_limbs(v: &Value) -> u64 {
    let a = v.as_array().expect("limbs");
    (0..4).fold(0u64, |acc, i| acc | (a[i].as_u64().unwrap() << (16 * i)))
}
/// Set bits of a mask as a JSON list of bit numbers.
pub fn bits(v: u64) -> Value {
    Value::Array((0..64).filter(|b| v >> b & 1 == 1).map(|b| json!(b)).collect())
}
pub fn from_bits(v: &Value) -> u64 {
    v.as_array()
        .map(|a| a.iter().fold(0u64, |m, b| m | 1u64 << b.as_u64().unwrap()))
        .unwrap_or(0)
}
pub fn hex(b: &[u8]) -> String {
    const D: &[u8; 16] = b"0123456789abcdef";
    let mut s = String::with_capacity(2 * b.len());
    for x in b {
        s.push(D[(x >> 4) as usize] as char);
        s.push(D[(x & 15) as usize] as char);
    }
    s
}
pub fn unhex(s: &str) -> Vec<u8> {
    (0..s.len() / 2)
        .map(|i| u8::from_str_radix(&s[2 * i..2 * i + 2], 16).unwrap())
        .collect()
}
pub fn bytes_json(b: &[u8]) -> Value {
    Value::Array(b.iter().map(|x| json!(*x)).collect())
}

// ---------------------------------------------------------------- descriptors
pub fn memfd(name: &str, size: u64) -> File {
    let cname = std::ffi::CString::new(name).unwrap();
    // SAFETY: plain syscall, result checked.
    let fd = unsafe { libc::memfd_create(cname.as_ptr(), libc::MFD_CLOEXEC) };
    assert!(fd >= 0, "memfd_create failed");
    // SAFETY: fd is a fresh valid descriptor.
    let f = unsafe { File::from_raw_fd(fd) };
    if size > 0 {
        f.set_len(size).unwrap();
    }
    f
}

/// Identity of the open file behind a descriptor: "dev:ino".
pub fn fd_id(fd: RawFd) -> String {
    // SAFETY: zeroed stat is a valid out-parameter.
    let mut st: libc::stat = unsafe { std::mem::zeroed() };
    // SAFETY: fd may be invalid, result checked.
    let r = unsafe { libc::fstat(fd, &mut st) };
    if r != 0 {
        return "closed".to_string();
    }
    format!("{}:{}", st.st_dev, st.st_ino)
}

/// Identity of the open file behind a descriptor that also tells eventfds apart (they share one anonymous inode; the
/// kernel numbers them in /proc/<pid>/fdinfo).
pub fn fd_ident(fd: RawFd) -> String {
    if let Ok(info) = std::fs::read_to_string(format!("/proc/self/fdinfo/{fd}")) {
        for l in info.lines() {
            if let Some(v) = l.strip_prefix("eventfd-id:") {
                return format!("efd:{}", v.trim());
            }
        }
    }
    fd_id(fd)
}

/// How many descriptors of this process refer to the open file `ident`?
pub fn count_ident(ident: &str) -> usize {
    open_fds().into_iter().filter(|fd| fd_ident(*fd) == ident).count()
}

pub fn fd_is_open(fd: RawFd) -> bool {
    // SAFETY: fcntl on arbitrary number is harmless.
    unsafe { libc::fcntl(fd, libc::F_GETFD) != -1 }
}

/// All open descriptor numbers of this process (excluding the one used for listing).
pub fn open_fds() -> Vec<RawFd> {
    let mut v = Vec::new();
    let dir = std::fs::read_dir("/proc/self/fd").unwrap();
    let mut names = Vec::new();
    for e in dir {
        names.push(e.unwrap().file_name().to_string_lossy().parse::<RawFd>().unwrap());
    }
    for fd in names {
        if fd_is_open(fd) {
            v.push(fd);
        }
    }
    v.sort();
    v
}

/// Identities (dev:ino) of all open descriptors, as a multiset (sorted vec).
pub fn open_fd_ids() -> Vec<String> {
    let mut v: Vec<String> = open_fds().into_iter().map(fd_id).collect();
    v.sort();
    v
}

// ---------------------------------------------------------------- raw socket I/O
/// sendmsg with optional SCM_RIGHTS; returns bytes sent.
pub fn raw_send(sock: &UnixStream, data: &[u8], fds: &[RawFd]) -> std::io::Result<usize> {
    let mut iov = libc::iovec {
        iov_base: data.as_ptr() as *mut libc::c_void,
        iov_len: data.len(),
    };
    // SAFETY: zeroed msghdr is valid.
    let mut msg: libc::msghdr = unsafe { std::mem::zeroed() };
    msg.msg_iov = &mut iov;
    msg.msg_iovlen = 1;
    let space = unsafe { libc::CMSG_SPACE((fds.len() * 4) as u32) } as usize;
    let mut cbuf = vec![0u64; space / 8 + 1];
    if !fds.is_empty() {
        msg.msg_control = cbuf.as_mut_ptr() as *mut libc::c_void;
        msg.msg_controllen = space as _;
        // SAFETY: control buffer is large enough for one cmsg with fds.len() ints.
        unsafe {
            let c = libc::CMSG_FIRSTHDR(&msg);
            (*c).cmsg_level = libc::SOL_SOCKET;
            (*c).cmsg_type = libc::SCM_RIGHTS;
            (*c).cmsg_len = libc::CMSG_LEN((fds.len() * 4) as u32) as _;
            std::ptr::copy_nonoverlapping(
                fds.as_ptr() as *const u8,
                libc::CMSG_DATA(c),
                fds.len() * 4,
            );
        }
    }
    // SAFETY: msg points to valid buffers for the duration of the call.
    let r = unsafe { libc::sendmsg(sock.as_raw_fd(), &msg, libc::MSG_NOSIGNAL) };
    if r < 0 {
        Err(std::io::Error::last_os_error())
    } else {
        Ok(r as usize)
    }
}

pub fn raw_send_all(sock: &UnixStream, data: &[u8], fds: &[RawFd]) -> std::io::Result<()> {
    let mut off = 0;
    let mut first = true;
    if data.is_empty() {
        return Ok(());
    }
    while off < data.len() {
        let n = raw_send(sock, &data[off..], if first { fds } else { &[] })?;
        first = false;
        off += n;
    }
    Ok(())
}

/// One recvmsg: returns (bytes, received descriptors). `flags` e.g. MSG_DONTWAIT.
pub fn raw_recv(
    sock: &UnixStream,
    buf: &mut [u8],
    flags: i32,
) -> std::io::Result<(usize, Vec<RawFd>)> {
    let mut iov = libc::iovec {
        iov_base: buf.as_mut_ptr() as *mut libc::c_void,
        iov_len: buf.len(),
    };
    // SAFETY: zeroed msghdr is valid.
    let mut msg: libc::msghdr = unsafe { std::mem::zeroed() };
    msg.msg_iov = &mut iov;
    msg.msg_iovlen = 1;
    let mut cbuf = vec![0u64; 128];
    msg.msg_control = cbuf.as_mut_ptr() as *mut libc::c_void;
    msg.msg_controllen = (cbuf.len() * 8) as _;
    // SAFETY: buffers valid for the call.
    let r = unsafe { libc::recvmsg(sock.as_raw_fd(), &mut msg, flags | libc::MSG_CMSG_CLOEXEC) };
    if r < 0 {
        return Err(std::io::Error::last_os_error());
    }
    let mut fds = Vec::new();
    // SAFETY: walking the control messages the kernel filled in.
    unsafe {
        let mut c = libc::CMSG_FIRSTHDR(&msg);
        while !c.is_null() {
            if (*c).cmsg_level == libc::SOL_SOCKET && (*c).cmsg_type == libc::SCM_RIGHTS {
                let n = ((*c).cmsg_len as usize - libc::CMSG_LEN(0) as usize) / 4;
                let p = libc::CMSG_DATA(c) as *const RawFd;
                for i in 0..n {
                    fds.push(std::ptr::read_unaligned(p.add(i)));
                }
            }
            c = libc::CMSG_NXTHDR(&msg, c);
        }
    }
    Ok((r as usize, fds))
}

/// Drain everything currently readable (non-blocking). Returns the list of chunks
/// (bytes, fds attached to that chunk) and whether EOF was seen.
pub fn raw_drain(sock: &UnixStream) -> (Vec<(Vec<u8>, Vec<RawFd>)>, bool) {
    let mut chunks = Vec::new();
    let mut eof = false;
    // sender engine: read the stream with the granularity it was written in, so that the offset at which
    // descriptors arrive is exact (one recvmsg never crosses the boundary between two transferred parts)
    if let Some(sizes) = crate::eng_sender::drain_sizes_for(sock) {
        for sz in sizes {
            let mut left = sz;
            while left > 0 {
                let mut buf = vec![0u8; left];
                match raw_recv(sock, &mut buf, libc::MSG_DONTWAIT) {
                    Ok((0, _)) | Err(_) => {
                        left = 0;
                    }
                    Ok((n, fds)) => {
                        buf.truncate(n);
                        chunks.push((buf, fds));
                        left -= n;
                    }
                }
            }
        }
    }
    loop {
        let mut buf = vec![0u8; 70000];
        match raw_recv(sock, &mut buf, libc::MSG_DONTWAIT) {
            Ok((0, _)) => {
                eof = true;
                break;
            }
            Ok((n, fds)) => {
                buf.truncate(n);
                chunks.push((buf, fds));
            }
            Err(e) if e.kind() == std::io::ErrorKind::WouldBlock => break,
            Err(_) => {
                eof = true;
                break;
            }
        }
    }
    (chunks, eof)
}

/// Bytes queued for reading on a socket.
pub fn fionread(fd: RawFd) -> i32 {
    let mut n: libc::c_int = 0;
    // SAFETY: FIONREAD writes one int.
    unsafe { libc::ioctl(fd, libc::FIONREAD, &mut n) };
    n
}

pub fn close_fd(fd: RawFd) {
    // SAFETY: closing a descriptor we own.
    unsafe { libc::close(fd) };
}

pub fn le32(b: &[u8], off: usize) -> u32 {
    u32::from_le_bytes(b[off..off + 4].try_into().unwrap())
}
pub fn le64(b: &[u8], off: usize) -> u64 {
    u64::from_le_bytes(b[off..off + 8].try_into().unwrap())
}

/// Split a byte stream written by an endpoint into vhost-user messages (header + size bytes).
/// Returns (messages as JSON, leftover byte count). fds are attributed to the message in which
/// the chunk carrying them starts.
pub fn split_messages(chunks: &[(Vec<u8>, Vec<RawFd>)]) -> (Vec<Value>, usize) {
    let mut all = Vec::new();
    let mut fd_at: Vec<(usize, Vec<RawFd>)> = Vec::new();
    for (b, f) in chunks {
        if !f.is_empty() {
            fd_at.push((all.len(), f.clone()));
        }
        all.extend_from_slice(b);
    }
    let mut out = Vec::new();
    let mut off = 0;
    while all.len() - off >= 12 {
        let code = le32(&all, off);
        let flags = le32(&all, off + 4);
        let size = le32(&all, off + 8) as usize;
        if all.len() - off - 12 < size {
            break;
        }
        let body = &all[off + 12..off + 12 + size];
        let mut nfds = 0;
        let mut fdids = Vec::new();
        let mut fd_first_byte = true;
        for (pos, f) in &fd_at {
            if *pos >= off && *pos < off + 12 + size.max(0) || (*pos == off) {
                nfds += f.len();
                if *pos != off {
                    fd_first_byte = false;
                }
                for x in f {
                    fdids.push(fd_id(*x));
                }
            }
        }
        out.push(json!({
            "c": code, "flags": flags, "size": size,
            "body": hex(body), "bytes": bytes_json(body), "nfds": nfds, "fdids": fdids, "fd_first": fd_first_byte,
            "val": if size >= 8 { limbs(le64(body, 0)) } else { limbs(0) },
        }));
        off += 12 + size;
    }
    (out, all.len() - off)
}

pub fn close_chunk_fds(chunks: &[(Vec<u8>, Vec<RawFd>)]) {
    for (_, f) in chunks {
        for x in f {
            close_fd(*x);
        }
    }
}

pub fn errkind<E: std::fmt::Debug>(e: &E) -> String {
    let s = format!("{e:?}");
    s.split(|c: char| c == '(' || c == ' ' || c == '{')
        .next()
        .unwrap_or("")
        .to_string()
}

// ---------------------------------------------------------------- a handler invoked without end
/// A recording handler that has been invoked this many times for one step stops recording and parks its caller until the
/// engine tears the case down (a library that keeps re-invoking the handler would otherwise fill the disk with call records).
pub const STORM_CALLS: usize = 64;
pub static STORM_GEN: std::sync::atomic::AtomicU64 = std::sync::atomic::AtomicU64::new(0);
pub fn storm_park() {
    let g = STORM_GEN.load(std::sync::atomic::Ordering::SeqCst);
    let t0 = std::time::Instant::now();
    while STORM_GEN.load(std::sync::atomic::Ordering::SeqCst) == g && t0.elapsed() < std::time::Duration::from_secs(300) {
        std::thread::sleep(std::time::Duration::from_millis(1));
    }
}
pub fn storm_release() {
    STORM_GEN.fetch_add(1, std::sync::atomic::Ordering::SeqCst);
}

// ---------------------------------------------------------------- "never returns" as a positive observation
/// Kernel thread id of the calling thread.
pub fn gettid() -> i32 {
    // SAFETY: gettid has no preconditions.
    unsafe { libc::gettid() }
}

/// (scheduler state letter, number of the system call the thread is blocked in or -1) of a thread of this process.
pub fn thread_state(tid: i32) -> (char, i64) {
    let stat = match std::fs::read_to_string(format!("/proc/self/task/{tid}/stat")) {
        Ok(s) => s,
        Err(_) => return ('X', -1), // the thread has ended: it will not make progress either
    };
    // the state letter follows the parenthesised command name
    let st = stat.rsplit(')').next().and_then(|r| r.trim().chars().next()).unwrap_or('?');
    let sc = std::fs::read_to_string(format!("/proc/self/task/{tid}/syscall")).unwrap_or_default();
    let nr = sc.split_whitespace().next().and_then(|x| x.parse::<i64>().ok()).unwrap_or(-1);
    (st, nr)
}

/// CPU time (user + system, in clock ticks of 10 ms) a thread of this process has consumed so far.
pub fn thread_cpu_ticks(tid: i32) -> u64 {
    let stat = std::fs::read_to_string(format!("/proc/self/task/{tid}/stat")).unwrap_or_default();
    let rest: Vec<&str> = stat.rsplit(')').next().unwrap_or("").split_whitespace().collect();
    // after the command name: state(0) ppid pgrp session tty tpgid flags minflt cminflt majflt cmajflt utime(11) stime(12)
    let f = |i: usize| rest.get(i).and_then(|x| x.parse::<u64>().ok()).unwrap_or(0);
    f(11) + f(12)
}

/// Is every one of these threads asleep inside a blocking system call (receive, read, poll, lock wait, sleep) -- not merely
/// waiting for a CPU -- and is there nothing left to read on any of these sockets?  Then nobody is going to make progress:
/// the wait is a real one, whatever the load of the machine.  Sampled twice, 50 ms apart.
pub fn all_blocked(tids: &[i32], socks: &[RawFd]) -> bool {
    // x86-64: read 0, poll 7, nanosleep 35, recvfrom 45, recvmsg 47, futex 202, epoll_wait 232, clock_nanosleep 230,
    // ppoll 271, epoll_pwait 281; aarch64: read 63, ppoll 73, recvfrom 207, recvmsg 212, futex 98, epoll_pwait 22, nanosleep 101/115
    // (also write 1, select 23, connect 42, accept 43, sendto 44, sendmsg 46, wait4 61, pselect6 270, accept4 288)
    const BLOCKING: [i64; 27] = [0, 1, 7, 23, 35, 42, 43, 44, 45, 46, 47, 61, 202, 232, 230, 270, 271, 281, 288, 63, 73, 207, 212, 98, 22, 101, 115];
    let sample = || {
        tids.iter().all(|t| {
            let (st, nr) = thread_state(*t);
            *t != 0 && (st == 'X' || ((st == 'S' || st == 'D') && BLOCKING.contains(&nr)))
        }) && socks.iter().all(|s| fionread(*s) == 0)
    };
    if !sample() {
        return false;
    }
    std::thread::sleep(std::time::Duration::from_millis(50));
    sample()
}

/// One look at the threads: is every one of them asleep in a blocking system call right now (parked at a hold point, waiting in
/// epoll / a socket read)?  Used by the schedule replays to tell "nothing more is coming" from "the machine is slow": a thread
/// that is runnable or running has not finished what the last command set in motion.
pub fn blocked_now(tids: &[i32]) -> bool {
    const BLOCKING: [i64; 27] = [0, 1, 7, 23, 35, 42, 43, 44, 45, 46, 47, 61, 202, 232, 230, 270, 271, 281, 288, 63, 73, 207, 212, 98, 22, 101, 115];
    tids.iter().all(|t| {
        let (st, nr) = thread_state(*t);
        *t != 0 && (st == 'X' || ((st == 'S' || st == 'D') && BLOCKING.contains(&nr)))
    })
}

/// Kernel thread ids of the threads of this process whose name is `name`.
pub fn tids_named(name: &str) -> Vec<i32> {
    let mut v = Vec::new();
    if let Ok(d) = std::fs::read_dir("/proc/self/task") {
        for e in d.flatten() {
            if std::fs::read_to_string(e.path().join("comm")).map(|c| c.trim() == name).unwrap_or(false) {
                if let Ok(t) = e.file_name().to_string_lossy().parse::<i32>() {
                    v.push(t);
                }
            }
        }
    }
    v
}

/// The watchdog of a polling loop has expired `since` ago: is the wait really over (everybody asleep with nothing to read),
/// or has it merely been going on for a very long time (2 minutes)?  Otherwise the machine is just slow: keep polling.
pub fn hang_confirmed(since: std::time::Instant, tids: &[i32], socks: &[RawFd]) -> bool {
    // (a thread that has used more than five seconds of CPU of its own since the loop began is spinning, not starved)
    since.elapsed() > std::time::Duration::from_secs(120)
        || all_blocked(tids, socks)
        || (since.elapsed() > std::time::Duration::from_secs(5) && tids.iter().any(|t| *t != 0 && thread_cpu_ticks(*t) > 500))
}

/// Wait for a result that normally arrives within microseconds.  Returns None ("it never comes") only once the watchdog
/// `first` has expired AND all the threads involved are seen blocked with nothing left to read (see `all_blocked`), or after
/// `cap` at the latest; a machine that is merely slow just makes this wait longer.
pub fn recv_or_blocked<T>(rx: &std::sync::mpsc::Receiver<T>, first: std::time::Duration, cap: std::time::Duration, tids: &dyn Fn() -> Vec<i32>, socks: &[RawFd]) -> Option<T> {
    let t0 = std::time::Instant::now();
    if let Ok(v) = rx.recv_timeout(first) {
        return Some(v);
    }
    // a thread that has burnt three seconds of CPU of its own since the watchdog expired without producing the result is
    // not starved either: it spins
    let cpu0: Vec<(i32, u64)> = tids().into_iter().map(|t| (t, thread_cpu_ticks(t))).collect();
    loop {
        if all_blocked(&tids(), socks) {
            // one more look at the channel: the result may have been sent just before the threads went to sleep
            return rx.try_recv().ok();
        }
        if cpu0.iter().any(|(t, c0)| *t != 0 && thread_cpu_ticks(*t) >= *c0 + 300) {
            return rx.try_recv().ok();
        }
        if let Ok(v) = rx.recv_timeout(std::time::Duration::from_millis(200)) {
            return Some(v);
        }
        if t0.elapsed() > cap {
            return None;
        }
    }
}

// ---------------------------------------------------------------- descriptor accounting (C09)
pub struct FdWatch {
    before: Vec<String>,
}
impl FdWatch {
    pub fn start() -> FdWatch {
        FdWatch {
            before: open_fd_ids(),
        }
    }
    /// Identities open now that were not open at start (multiset difference), and the reverse.
    pub fn finish(&self) -> Value {
        let after = open_fd_ids();
        let mut b = self.before.clone();
        let mut leaked = Vec::new();
        for id in after.iter() {
            if let Some(pos) = b.iter().position(|x| x == id) {
                b.swap_remove(pos);
            } else {
                leaked.push(id.clone());
            }
        }
        json!({"ev": "teardown", "leaked": leaked, "nleaked": leaked.len(), "lost": b, "nlost": b.len()})
    }
}

/// Panics of any thread of the process (daemon thread, workers, callers): recorded as data.
pub static PANICS: std::sync::Mutex<Vec<String>> = std::sync::Mutex::new(Vec::new());

pub fn take_panics() -> Vec<String> {
    std::mem::take(&mut *PANICS.lock().unwrap_or_else(|e| e.into_inner()))
}
