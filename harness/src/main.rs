//! vh: conformance harness. `vh <engine> --cases <file> --out <trace.ndjson> [--seed N] [--tier quick|thorough]`
mod common;
mod eng_bereq;
mod daemon_conc;
mod daemon_seq;
mod daemon_shut;
mod eng_client;
mod eng_daemon;
mod eng_gpu;
mod eng_errs;
mod eng_kern;
mod eng_listen;
mod eng_sender;
mod eng_sticky;
mod eng_server;
mod eng_session;
mod eng_txn;
mod eng_valid;
mod feops;
mod rec;
mod wire;

use common::*;

fn arg(args: &[String], name: &str) -> Option<String> {
    args.iter().position(|a| a == name).and_then(|i| args.get(i + 1).cloned())
}

fn main() {
    let args: Vec<String> = std::env::args().collect();
    if args.len() < 2 {
        eprintln!("usage: vh <engine> --cases F --out F [--seed N] [--tier T]");
        std::process::exit(2);
    }
    let engine = args[1].as_str();
    let seed: u64 = arg(&args, "--seed").and_then(|s| s.parse().ok()).unwrap_or(1);
    let _tier = arg(&args, "--tier").unwrap_or_else(|| "quick".into());
    if engine == "lens" {
        // total wire length of the deterministic ("fixed") form of every served request
        let mut rng = Rng::new(1);
        let v: Vec<serde_json::Value> = [1u32, 2, 3, 4, 5, 6, 8, 9, 10, 11, 12, 13, 14, 15, 16, 17, 18, 21, 24, 25, 31, 32, 33, 34, 36, 37, 38, 41, 42, 43, 44]
            .iter()
            .map(|c| serde_json::json!({"c": c, "len": wire::build(*c, false, "fixed", 0, &mut rng).bytes().len()}))
            .collect();
        println!("{}", serde_json::Value::Array(v));
        return;
    }
    let out = arg(&args, "--out").expect("--out");
    // panics in code under test are data: keep the default hook quiet
    let debug = std::env::var("VH_DEBUG").is_ok();
    std::panic::set_hook(Box::new(move |info| {
        let th = std::thread::current();
        let loc = info.location().map(|l| format!("{}:{}", l.file().rsplit('/').next().unwrap_or(""), l.line())).unwrap_or_default();
        let msg = info.payload().downcast_ref::<&str>().map(|s| s.to_string()).or_else(|| info.payload().downcast_ref::<String>().cloned()).unwrap_or_default();
        let short: String = msg.chars().take(80).collect();
        if debug {
            eprintln!("PANIC thread={:?} at {loc}: {msg}", th.name());
        }
        let _ = short;
        PANICS.lock().unwrap_or_else(|e| e.into_inner()).push(loc);
    }));
    let mut trace = Trace::create(&out);
    match engine {
        "server" => {
            let cases = read_cases(&arg(&args, "--cases").expect("--cases"));
            eng_server::run(&cases, &mut trace, seed);
        }
        "bereq" => {
            let cases = read_cases(&arg(&args, "--cases").expect("--cases"));
            eng_bereq::run(&cases, &mut trace, seed);
        }
        "valid" => {
            let cases = read_cases(&arg(&args, "--cases").expect("--cases"));
            let n: usize = arg(&args, "--random").and_then(|s| s.parse().ok()).unwrap_or(0);
            eng_valid::run(&cases, &mut trace, seed, n);
        }
        "daemon" => {
            let cases = read_cases(&arg(&args, "--cases").expect("--cases"));
            eng_daemon::run(&cases, &mut trace, seed);
        }
        "kern" => {
            let cases = read_cases(&arg(&args, "--cases").expect("--cases"));
            eng_kern::run(&cases, &mut trace, seed);
        }
        "txn" => {
            let cases = read_cases(&arg(&args, "--cases").expect("--cases"));
            eng_txn::run(&cases, &mut trace, seed);
        }
        "gpu" => {
            let cases = read_cases(&arg(&args, "--cases").expect("--cases"));
            eng_gpu::run(&cases, &mut trace, seed);
        }
        "client" => {
            let cases = read_cases(&arg(&args, "--cases").expect("--cases"));
            eng_client::run(&cases, &mut trace, seed);
        }
        "sticky" => {
            let cases = read_cases(&arg(&args, "--cases").expect("--cases"));
            eng_sticky::run(&cases, &mut trace, seed);
        }
        "sender" => {
            let cases = read_cases(&arg(&args, "--cases").expect("--cases"));
            eng_sender::run(&cases, &mut trace, seed);
        }
        "errs" => {
            let cases = read_cases(&arg(&args, "--cases").expect("--cases"));
            eng_errs::run(&cases, &mut trace, seed);
        }
        "listen" => {
            let cases = read_cases(&arg(&args, "--cases").expect("--cases"));
            eng_listen::run(&cases, &mut trace, seed);
        }
        "session" => {
            let cases = read_cases(&arg(&args, "--cases").expect("--cases"));
            eng_session::run(&cases, &mut trace, seed);
        }
        _ => {
            eprintln!("unknown engine {engine}");
            std::process::exit(2);
        }
    }
    trace.flush();
    eprintln!("vh {engine}: {} events", trace.n);
}
