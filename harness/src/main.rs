fn main(){}
