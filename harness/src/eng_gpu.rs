//! Engine "gpu": the real `GpuBackend` proxy against an independent raw peer (vhost-user-gpu).
//! Case: {"id":.., "steps":[{"op":.., "peer":"auto"|<mutation>, "dlen": n, "fd": bool}]}

use crate::common::*;
use serde_json::{json, Value};
use std::os::unix::io::AsRawFd;
use std::os::unix::net::UnixStream;
use std::sync::mpsc::channel;
use std::time::{Duration, Instant};
use vhost::vhost_user::gpu_message::*;
use vhost::vhost_user::message::VhostUserU64;
use vhost::vhost_user::GpuBackend;

fn res_of<T>(r: &std::io::Result<T>) -> String {
    match r {
        Ok(_) => "ok".into(),
        Err(_) => "err:Io".into(),
    }
}

pub struct GOut {
    pub res: String,
    pub args: Value,
    pub dec: Value,
    pub data: Vec<u8>,
    pub lent: String,
}

fn r32(rng: &mut Rng) -> u32 {
    rng.u64_edge() as u32
}

pub fn gpu_call(g: &GpuBackend, op: &str, dlen: usize, with_fd: bool, rng: &mut Rng) -> GOut {
    let mut args = json!({});
    let mut dec = json!([]);
    let mut data: Vec<u8> = Vec::new();
    let mut lent = "none".to_string();
    let l = |x: u32| limbs(x as u64);
    let res = match op {
        "get_protocol_features" => {
            let r = g.get_protocol_features();
            if let Ok(v) = &r {
                dec = json!([limbs(v.value)]);
            }
            res_of(&r)
        }
        "set_protocol_features" => {
            let v = rng.u64_edge();
            args = json!({"v": limbs(v)});
            res_of(&g.set_protocol_features(&VhostUserU64::new(v)))
        }
        "get_display_info" => {
            let r = g.get_display_info();
            if let Ok(d) = &r {
                let mut v = vec![l(d.hdr.type_), l(d.hdr.flags), limbs(d.hdr.fence_id), l(d.hdr.ctx_id), l(d.hdr.ring_idx as u32)];
                for p in d.pmodes.iter() {
                    v.extend([l(p.r.x), l(p.r.y), l(p.r.width), l(p.r.height), l(p.enabled), l(p.flags)]);
                }
                dec = json!(v);
            }
            res_of(&r)
        }
        "get_edid" => {
            let id = r32(rng);
            args = json!({"scanout_id": l(id)});
            let r = g.get_edid(&VhostUserGpuEdidRequest { scanout_id: id });
            if let Ok(d) = &r {
                let mut sum: u64 = 0;
                for (i, b) in d.edid.iter().enumerate() {
                    sum = sum.wrapping_mul(31).wrapping_add(*b as u64 + i as u64);
                }
                dec = json!([l(d.hdr.type_), l(d.hdr.flags), limbs(d.hdr.fence_id), l(d.hdr.ctx_id), l(d.hdr.ring_idx as u32), l(d.size), limbs(sum)]);
            }
            res_of(&r)
        }
        "set_scanout" => {
            let s = VhostUserGpuScanout {
                scanout_id: r32(rng),
                width: r32(rng),
                height: r32(rng),
            };
            args = json!({"f": [l(s.scanout_id), l(s.width), l(s.height)]});
            res_of(&g.set_scanout(&s))
        }
        "update_scanout" | "update_dmabuf_scanout" => {
            let u = VhostUserGpuUpdate {
                scanout_id: r32(rng),
                x: r32(rng),
                y: r32(rng),
                width: r32(rng),
                height: r32(rng),
            };
            args = json!({"f": [l(u.scanout_id), l(u.x), l(u.y), l(u.width), l(u.height)]});
            if op == "update_scanout" {
                data = (0..dlen).map(|i| (i as u8).wrapping_mul(7) ^ 0x3c).collect();
                res_of(&g.update_scanout(&u, &data))
            } else {
                res_of(&g.update_dmabuf_scanout(&u))
            }
        }
        "set_dmabuf_scanout" | "set_dmabuf_scanout2" => {
            let d = VhostUserGpuDMABUFScanout {
                scanout_id: r32(rng),
                x: r32(rng),
                y: r32(rng),
                width: r32(rng),
                height: r32(rng),
                fd_width: r32(rng),
                fd_height: r32(rng),
                fd_stride: r32(rng),
                fd_flags: r32(rng),
                fd_drm_fourcc: r32(rng),
            };
            let f = memfd("dmabuf", 0x1000);
            if with_fd {
                lent = fd_id(f.as_raw_fd());
            }
            let mut fl = vec![l(d.scanout_id), l(d.x), l(d.y), l(d.width), l(d.height), l(d.fd_width), l(d.fd_height), l(d.fd_stride), l(d.fd_flags), l(d.fd_drm_fourcc)];
            let fdopt = if with_fd { Some(&f) } else { None };
            if op == "set_dmabuf_scanout" {
                args = json!({"f": fl});
                res_of(&g.set_dmabuf_scanout(&d, fdopt))
            } else {
                let m = rng.u64_edge();
                fl.push(limbs(m));
                args = json!({"f": fl});
                res_of(&g.set_dmabuf_scanout2(
                    &VhostUserGpuDMABUFScanout2 {
                        dmabuf_scanout: d,
                        modifier: m,
                    },
                    fdopt,
                ))
            }
        }
        "cursor_pos" | "cursor_pos_hide" => {
            let c = VhostUserGpuCursorPos {
                scanout_id: r32(rng),
                x: r32(rng),
                y: r32(rng),
            };
            args = json!({"f": [l(c.scanout_id), l(c.x), l(c.y)]});
            if op == "cursor_pos" {
                res_of(&g.cursor_pos(&c))
            } else {
                res_of(&g.cursor_pos_hide(&c))
            }
        }
        "cursor_update" => {
            let c = VhostUserGpuCursorUpdate {
                pos: VhostUserGpuCursorPos {
                    scanout_id: r32(rng),
                    x: r32(rng),
                    y: r32(rng),
                },
                hot_x: r32(rng),
                hot_y: r32(rng),
            };
            args = json!({"f": [l(c.pos.scanout_id), l(c.pos.x), l(c.pos.y), l(c.hot_x), l(c.hot_y)]});
            let mut d = [0u8; 4 * 64 * 64];
            for (i, x) in d.iter_mut().enumerate() {
                *x = (i as u8).wrapping_mul(13) ^ 0xa5;
            }
            data = d.to_vec();
            res_of(&g.cursor_update(&c, &d))
        }
        _ => panic!("unknown gpu op {op}"),
    };
    GOut {
        res,
        args,
        dec,
        data,
        lent,
    }
}

fn p32(v: &mut Vec<u8>, x: u32) {
    v.extend_from_slice(&x.to_le_bytes());
}

/// Correct reply body for request code, plus the abstract values encoded (flattened, spec order).
fn gpu_reply(code: u32, rng: &mut Rng) -> (Vec<u8>, Value) {
    let mut b = Vec::new();
    let l = |x: u32| limbs(x as u64);
    match code {
        1 => {
            let v = rng.u64_edge();
            b.extend_from_slice(&v.to_le_bytes());
            (b, json!([limbs(v)]))
        }
        3 | 11 => {
            let (t, f, fence, ctx, ring) = (r32(rng), r32(rng), rng.u64_edge(), r32(rng), rng.next() as u8);
            p32(&mut b, t);
            p32(&mut b, f);
            b.extend_from_slice(&fence.to_le_bytes());
            p32(&mut b, ctx);
            b.push(ring);
            b.extend_from_slice(&[0, 0, 0]);
            let mut enc = vec![l(t), l(f), limbs(fence), l(ctx), l(ring as u32)];
            if code == 3 {
                for _ in 0..16 {
                    let v6: Vec<u32> = (0..6).map(|_| r32(rng)).collect();
                    for x in &v6 {
                        p32(&mut b, *x);
                        enc.push(l(*x));
                    }
                }
            } else {
                let size = r32(rng);
                p32(&mut b, size);
                p32(&mut b, 0);
                let mut sum: u64 = 0;
                for i in 0..1024usize {
                    let x = rng.next() as u8;
                    b.push(x);
                    sum = sum.wrapping_mul(31).wrapping_add(x as u64 + i as u64);
                }
                enc.push(l(size));
                enc.push(limbs(sum));
            }
            (b, json!(enc))
        }
        _ => (b, json!([])),
    }
}

pub fn run(cases: &[Value], trace: &mut Trace, seed: u64) {
    for (k, case) in cases.iter().enumerate() {
        let mut rng = Rng::new(seed ^ (k as u64).wrapping_mul(0x0bad_cafe));
        let watch = FdWatch::start();
        let (gsock, psock) = UnixStream::pair().unwrap();
        let gdup = gsock.try_clone().unwrap();
        let g = GpuBackend::from_stream(gsock);
        trace.emit(json!({"ev": "reset", "id": case["id"]}));
        for step in case["steps"].as_array().unwrap() {
            let op = step["op"].as_str().unwrap().to_string();
            let behaviour = step["peer"].as_str().unwrap_or("auto").to_string();
            let dlen = step["dlen"].as_u64().unwrap_or(0) as usize;
            let with_fd = step["fd"].as_bool().unwrap_or(false);
            let (tx, rx) = channel();
            let g2 = g.clone();
            let op2 = op.clone();
            let mut rng2 = Rng::new(rng.next());
            let call_tid = std::sync::Arc::new(std::sync::atomic::AtomicI32::new(0));
            let ct2 = call_tid.clone();
            let t = std::thread::spawn(move || {
                ct2.store(gettid(), std::sync::atomic::Ordering::SeqCst);
                let r = std::panic::catch_unwind(std::panic::AssertUnwindSafe(|| gpu_call(&g2, &op2, dlen, with_fd, &mut rng2)));
                let _ = tx.send(r.ok());
            });
            let t0 = Instant::now();
            let mut chunks_all: Vec<(Vec<u8>, Vec<i32>)> = Vec::new();
            let mut answered = 0usize;
            let mut out = None;
            let mut done = false;
            let mut hang = false;
            let mut enc = json!([]);
            let mut wire: Vec<Value> = Vec::new();
            loop {
                if !done {
                    if let Ok(o) = rx.recv_timeout(Duration::from_micros(200)) {
                        out = o;
                        done = true;
                    }
                }
                let (chunks, _) = raw_drain(&psock);
                let got = !chunks.is_empty();
                chunks_all.extend(chunks);
                if got || done {
                    let (msgs, _) = split_messages(&chunks_all);
                    while answered < msgs.len() {
                        let m = &msgs[answered];
                        answered += 1;
                        let code = m["c"].as_u64().unwrap() as u32;
                        if [1u32, 3, 10, 11].contains(&code) && !done {
                            let (mut body, e) = gpu_reply(code, &mut rng);
                            enc = e;
                            let mut rcode = code;
                            let mut rflags: u32 = 4;
                            let mut size = body.len() as u32;
                            let mut extra = Vec::new();
                            match behaviour.as_str() {
                                "code+1" => rcode = if code == 12 { 1 } else { code + 1 },
                                "code=0" => rcode = 0,
                                "code=999" => rcode = 999,
                                "flag-reply" => rflags = 0,
                                "flag+version" => rflags |= 1,
                                "resv" => rflags |= 1 << (3 + rng.below(29)),
                                "body_short" => {
                                    let n = body.len();
                                    body.truncate(n / 2);
                                }
                                "fds+1" => extra.push(memfd("x", 0)),
                                "random" => {
                                    rcode = rng.next() as u32;
                                    rflags = rng.next() as u32;
                                    size = rng.next() as u32;
                                }
                                _ => {}
                            }
                            if behaviour != "silent" {
                                let mut bytes = Vec::new();
                                p32(&mut bytes, rcode);
                                p32(&mut bytes, rflags);
                                p32(&mut bytes, size);
                                bytes.extend_from_slice(&body);
                                let fds: Vec<i32> = extra.iter().map(|f| f.as_raw_fd()).collect();
                                let _ = raw_send_all(&psock, &bytes, &fds);
                                if behaviour != "auto" {
                                    let _ = psock.shutdown(std::net::Shutdown::Write);
                                }
                            }
                        }
                    }
                    wire = msgs;
                }
                if done {
                    break;
                }
                if t0.elapsed() > Duration::from_millis(2000)
                    && hang_confirmed(t0, &[call_tid.load(std::sync::atomic::Ordering::SeqCst)], &[std::os::unix::io::AsRawFd::as_raw_fd(&gdup)])
                {
                    hang = true;
                    let _ = psock.shutdown(std::net::Shutdown::Both);
                    out = rx.recv_timeout(Duration::from_millis(5000)).ok().flatten();
                    break;
                }
            }
            // a call that never returns even after its socket was shut down (e.g. a self-deadlock) must not take the
            // harness with it: the thread is left behind and the call is recorded as hung
            if !hang || out.is_some() || t.is_finished() {
                let _ = t.join();
            }
            let (_, leftover) = split_messages(&chunks_all);
            close_chunk_fds(&chunks_all);
            let (res, args, dec, data, lent) = match out {
                Some(o) => (o.res, o.args, o.dec, o.data, o.lent),
                None => ((if hang { "stuck" } else { "panic" }).into(), json!({}), json!([]), vec![], "none".into()),
            };
            // big payloads are compared here byte for byte (pure equality, no layout knowledge)
            let mut wire2 = Vec::new();
            let mut data_ok = true;
            for m in wire.iter() {
                let mut m = m.clone();
                let bytes = unhex(m["body"].as_str().unwrap());
                let fixed = bytes.len() - data.len().min(bytes.len());
                if !data.is_empty() {
                    data_ok = bytes[fixed..] == data[..];
                    m["bytes"] = bytes_json(&bytes[..fixed]);
                    m["body"] = json!("");
                }
                m["dlen"] = json!(bytes.len() - fixed);
                wire2.push(m);
            }
            let dead = behaviour != "auto" || hang;
            trace.emit(json!({"ev": "gcall", "op": op, "peer": behaviour, "res": res, "args": args, "dec": dec, "enc": enc, "hang": hang,
                "wire": wire2, "nwire": wire2.len(), "leftover": leftover, "dlen": data.len(), "data_ok": data_ok, "lent": lent, "fd": with_fd}));
            if dead {
                break;
            }
        }
        drop(gdup);
        drop(g);
        drop(psock);
        trace.emit(watch.finish());
    }
}
