//! Concurrent mode of the daemon engine (C12): the worker thread and the daemon (control) thread are
//! stepped through the instrumented hold points by a TLC-generated schedule.
//!
//! Case: {"id":.., "conc": true, "vring":.., "script":[ops], "sched":["k" | "w" | "c" | "m:<op>", ..]}
//! Trace: reset, then events in global order {kick, begin, hook, dispatch, reply, skipped}, then end{..}.

use crate::common::*;
use crate::eng_daemon::*;
use serde_json::{json, Value};
use std::os::unix::io::AsRawFd;
use std::sync::{Arc, Condvar, Mutex};
use std::time::{Duration, Instant};
use vhost_user_backend::VringT;
use vmm_sys_util::eventfd::EventFd;

#[derive(Default)]
struct Gate {
    hold: bool,
    /// class -> Some(point) while a thread of that class is blocked at a hold point
    held_w: Option<String>,
    held_c: Option<String>,
    release_w: u64,
    release_c: u64,
    arrivals_w: u64,
    arrivals_c: u64,
}
struct Ctl {
    g: Mutex<Gate>,
    cv: Condvar,
    log: Arc<Log>,
    /// worker hook events recorded in this case (a worker that spins on a descriptor that stays readable would fill the log)
    nworker: std::sync::atomic::AtomicUsize,
}
/// worker hook events kept per case; further ones are dropped (the count is reported in the `end` event)
const WORKER_HOOK_CAP: usize = 4000;

fn involved_tids() -> Vec<i32> {
    let mut v = tids_named("vring_worker");
    v.extend(tids_named("vh-daemon"));
    v
}

const W_HOLDS: [&str; 4] = ["w.after_wait", "w.after_read", "w.before_dispatch", "w.in_dispatch"];
const C_HOLDS: [&str; 4] = ["c.after_setkick", "c.after_state", "c.after_ctl", "c.after_dropkick"];

impl Ctl {
    fn hit(&self, point: &'static str, args: &[u64]) {
        if !(point.starts_with("w.") || point.starts_with("c.") || point.starts_with("d.")) {
            return;
        }
        // events of the barrier listener only (no ring event) are not part of the schedule
        if point.starts_with("w.") && self.nworker.fetch_add(1, std::sync::atomic::Ordering::SeqCst) >= WORKER_HOOK_CAP {
            // a spinning worker: keep it from starving everything else of the CPU and the log of memory
            if W_HOLDS.contains(&point) {
                std::thread::sleep(Duration::from_micros(200));
            }
        } else {
            self.log.push(json!({"ev": "hook", "p": point, "a": args}));
        }
        let is_w = W_HOLDS.contains(&point);
        let is_c = C_HOLDS.contains(&point);
        if !is_w && !is_c {
            return;
        }
        let mut g = self.g.lock().unwrap();
        if !g.hold {
            return;
        }
        if is_w {
            g.held_w = Some(point.to_string());
            g.arrivals_w += 1;
            let ticket = g.release_w;
            self.cv.notify_all();
            while g.hold && g.release_w == ticket {
                g = self.cv.wait(g).unwrap();
            }
            g.held_w = None;
        } else {
            g.held_c = Some(point.to_string());
            g.arrivals_c += 1;
            let ticket = g.release_c;
            self.cv.notify_all();
            while g.hold && g.release_c == ticket {
                g = self.cv.wait(g).unwrap();
            }
            g.held_c = None;
        }
        self.cv.notify_all();
    }
    /// wait until the event log has been quiet for `quiet` and the worker and daemon threads are asleep (at a hold point, in
    /// epoll_wait, in a socket read): on a loaded machine a thread that is still on its way must not be mistaken for one that
    /// has nothing to do (which would quietly turn the schedule into a different, tamer one)
    fn settle(&self, quiet: Duration) {
        let t0 = Instant::now();
        let mut n = self.log.m.lock().unwrap().len();
        loop {
            std::thread::sleep(quiet);
            let m = self.log.m.lock().unwrap().len();
            if m == n && (blocked_now(&involved_tids()) || t0.elapsed() > Duration::from_secs(3)) {
                return;
            }
            n = m;
        }
    }
    /// release one thread class from its hold point; false if it is not held (after a grace period)
    fn step(&self, class: char, grace: Duration) -> bool {
        let t0 = Instant::now();
        let mut g = self.g.lock().unwrap();
        loop {
            let held = if class == 'w' { g.held_w.is_some() } else { g.held_c.is_some() };
            if held {
                if class == 'w' {
                    g.release_w += 1;
                } else {
                    g.release_c += 1;
                }
                self.cv.notify_all();
                // wait until the thread has left this hold point (it may already sit at the next one)
                let arr0 = if class == 'w' { g.arrivals_w } else { g.arrivals_c };
                while (if class == 'w' { g.held_w.is_some() && g.arrivals_w == arr0 } else { g.held_c.is_some() && g.arrivals_c == arr0 })
                    && t0.elapsed() < Duration::from_secs(5)
                {
                    g = self.cv.wait_timeout(g, Duration::from_millis(5)).unwrap().0;
                }
                return true;
            }
            if t0.elapsed() > grace {
                // not at a hold point: it is not coming only if it sleeps elsewhere (epoll_wait, socket read)
                let tids = tids_named(if class == 'w' { "vring_worker" } else { "vh-daemon" });
                if blocked_now(&tids) || t0.elapsed() > Duration::from_secs(3) {
                    let held = if class == 'w' { g.held_w.is_some() } else { g.held_c.is_some() };
                    if !held {
                        return false;
                    }
                    continue;
                }
            }
            g = self.cv.wait_timeout(g, Duration::from_millis(1)).unwrap().0;
        }
    }
}

pub fn run_case<V: VringT<GM> + Clone + Send + Sync + 'static>(case: &Value, trace: &mut Trace) {
    let mut cfg = cfg_of(case);
    cfg.nq = 1;
    cfg.masks = vec![1];
    let mut rig = make_rig::<V>(cfg, "arc");
    let ctl = Arc::new(Ctl {
        g: Mutex::new(Gate::default()),
        cv: Condvar::new(),
        log: rig.log.clone(),
        nworker: std::sync::atomic::AtomicUsize::new(0),
    });
    let c2 = ctl.clone();
    vhost::verif::set_controller(Some(Arc::new(move |p: &'static str, a: &[u64]| c2.hit(p, a))));
    // start-up (uncontrolled): negotiate, start and enable ring 0
    rig.negotiate(1 << 30, (1 << 3) | (1 << 13) | (1 << 15));
    let kick = new_eventfd();
    let mut kicks: Vec<EventFd> = vec![kick];
    let _ = rig.peer.request(12, &u64b(0), &[kicks[0].as_raw_fd()], false);
    let _ = rig.peer.request(18, &state(0, 1), &[], false);
    rig.quiesce();
    rig.log.take();
    trace.emit(json!({"ev": "reset", "id": case["id"], "script": case["script"], "vring": case["vring"].as_str().unwrap_or("rwlock")}));
    ctl.g.lock().unwrap().hold = true;
    let quiet = Duration::from_millis(2);
    let mut pending: Vec<String> = Vec::new(); // ops whose answer has not been read yet
    let poll_acks = |pending: &mut Vec<String>, rig: &Rig<V>| {
        loop {
            let avail = fionread(rig.peer.sock.as_raw_fd());
            if avail < 12 || pending.is_empty() {
                break;
            }
            let mut hdr = [0u8; 12];
            if raw_recv(&rig.peer.sock, &mut hdr, libc::MSG_DONTWAIT).map(|x| x.0).unwrap_or(0) != 12 {
                break;
            }
            let size = le32(&hdr, 8) as usize;
            let mut body = vec![0u8; size];
            let _ = raw_recv(&rig.peer.sock, &mut body, 0);
            let op = pending.remove(0);
            let okv = size == 8 && le64(&body, 0) == 0 || op == "stop";
            rig.log.push(json!({"ev": "reply", "op": op, "ok": okv}));
        }
    };
    let wfree: Vec<bool> = case["wfree"].as_array().map(|a| a.iter().map(|x| x.as_bool().unwrap_or(false)).collect()).unwrap_or_default();
    for (ci, cmd) in case["sched"].as_array().unwrap().iter().enumerate() {
        let c = cmd.as_str().unwrap();
        match c {
            "k" => {
                rig.log.push(json!({"ev": "kick", "obj": kicks.len() - 1}));
                let _ = kicks.last().unwrap().write(1);
            }
            "w" | "c" => {
                let ok = ctl.step(c.chars().next().unwrap(), Duration::from_millis(20));
                if !ok {
                    rig.log.push(json!({"ev": "skipped", "cmd": c}));
                }
            }
            _ => {
                let op = c.strip_prefix("m:").unwrap();
                rig.log.push(json!({"ev": "begin", "op": op}));
                let (code, body, fds): (u32, Vec<u8>, Vec<i32>) = match op {
                    "disable" => (18, state(0, 0), vec![]),
                    "enable" => (18, state(0, 1), vec![]),
                    "stop" => (11, state(0, 0), vec![]),
                    "reset" => (34, vec![], vec![]),
                    "features" => (2, u64b(1 << 30), vec![]),
                    // the ring is started again with the very eventfd it had before it was stopped
                    "restart" => (12, u64b(0), vec![kicks.last().unwrap().as_raw_fd()]),
                    _ => {
                        kicks.push(new_eventfd());
                        (12, u64b(0), vec![kicks.last().unwrap().as_raw_fd()])
                    }
                };
                let mut bytes = Vec::new();
                bytes.extend_from_slice(&code.to_le_bytes());
                bytes.extend_from_slice(&(1u32 | if op == "stop" { 0 } else { 8 }).to_le_bytes());
                bytes.extend_from_slice(&(body.len() as u32).to_le_bytes());
                bytes.extend_from_slice(&body);
                let _ = raw_send_all(&rig.peer.sock, &bytes, &fds);
                pending.push(op.to_string());
            }
        }
        ctl.settle(quiet);
        // the model's worker sleeps and nothing could wake it, yet the real one stands at a hold point: let it run on (bounded)
        if wfree.get(ci).copied().unwrap_or(false) {
            let mut n = 0;
            while n < 8 && ctl.g.lock().unwrap().held_w.is_some() {
                if n == 0 {
                    rig.log.push(json!({"ev": "unexpected_wake", "after": c}));
                }
                let _ = ctl.step('w', Duration::from_millis(1));
                ctl.settle(quiet);
                n += 1;
            }
        }
        poll_acks(&mut pending, &rig);
    }
    // run everything to completion
    {
        let mut g = ctl.g.lock().unwrap();
        g.hold = false;
        g.release_w += 1;
        g.release_c += 1;
        ctl.cv.notify_all();
    }
    ctl.settle(Duration::from_millis(10));
    let t0 = Instant::now();
    while !pending.is_empty() && t0.elapsed() < Duration::from_millis(500) {
        poll_acks(&mut pending, &rig);
        std::thread::sleep(Duration::from_millis(1));
    }
    let alive = live_workers() >= 1;
    let workers_ok = if alive { rig.quiesce() } else { false };
    let evs = rig.log.take();
    let bid = rig.barrier_id as u16;
    let mut last_snapshot = json!({});
    for e in evs.iter() {
        if e["ev"] == "dispatch" && e["event"] == bid {
            last_snapshot = e["rings"][0].clone();
            continue;
        }
        if e["ev"] == "cb" {
            continue; // backend callbacks are not part of this property's alphabet
        }
        if e["ev"] == "hook" {
            // hooks of barrier-only wake-ups carry the barrier id as their only event
            let a = e["a"].as_array().cloned().unwrap_or_default();
            let p = e["p"].as_str().unwrap_or("");
            if (p == "w.after_wait" && a.iter().skip(1).all(|x| x.as_u64() == Some(bid as u64)))
                || ((p == "w.before_dispatch" || p == "w.after_dispatch") && a.get(1).and_then(|x| x.as_u64()) == Some(bid as u64))
            {
                continue;
            }
        }
        let mut e = e.clone();
        // uniform fields for TLC
        for (k, d) in [("op", json!("")), ("p", json!("")), ("event", json!(-1)), ("obj", json!(-1)), ("ok", json!(true)), ("cmd", json!(""))] {
            if e.get(k).is_none() {
                e[k] = d;
            }
        }
        if e["ev"] == "dispatch" {
            let r = &e["rings"][0];
            e["active"] = json!(r["ready"].as_bool().unwrap_or(false) && r["enabled"].as_bool().unwrap_or(false));
            e.as_object_mut().unwrap().remove("rings");
            e.as_object_mut().unwrap().remove("sizes");
        } else {
            e["active"] = json!(false);
        }
        let seen = if e["p"] == "w.after_read" { e["a"][2].as_u64().unwrap_or(1) == 1 } else { true };
        e["enabled_seen"] = json!(seen);
        e.as_object_mut().unwrap().remove("a");
        trace.emit(e);
    }
    let counter = kicks.last().map(|k| k.read().unwrap_or(0)).unwrap_or(0);
    let active = last_snapshot["ready"].as_bool().unwrap_or(false) && last_snapshot["enabled"].as_bool().unwrap_or(false);
    trace.emit(json!({"ev": "end", "worker_alive": alive && workers_ok, "final_active": active, "final_has_kick": last_snapshot["has_kick"].as_bool().unwrap_or(false),
        "final_counter": counter, "unanswered": pending.len(), "worker_hooks": ctl.nworker.load(std::sync::atomic::Ordering::SeqCst)}));
    vhost::verif::set_controller(None);
    let _ = rig.finish();
}
