//! Shutdown / teardown mode of the daemon engine (C16): the daemon thread, 0..3 shutdown callers and
//! the peer are stepped through the hold points (`d.before_request`, `d.after_request`,
//! `d.before_final_shutdown`, `s.after_flag`, a blocking handler) by a TLC-generated schedule.
//!
//! Case: {"id":.., "shutdown": true, "callers": n, "peer": "nothing"|"part_hdr"|"hdr_only"|"full", "peer_closes": bool,
//!        "sched": [[cmd, arg], ..], "serve": bool}

use crate::common::*;
use crate::eng_daemon::*;
use serde_json::{json, Value};
use std::cell::Cell;
use std::os::unix::net::UnixStream;
use std::sync::{Arc, Condvar, Mutex};
use std::time::{Duration, Instant};
use vhost::vhost_user::Listener;
use vhost_user_backend::{VhostUserDaemon, VringRwLock};
use vm_memory::{GuestMemoryAtomic, GuestMemoryMmap};

thread_local! { static CALLER: Cell<u64> = const { Cell::new(0) }; }

#[derive(Default)]
struct Gate {
    hold: bool,
    /// the daemon thread runs freely from now on while shutdown callers stay parked at `s.after_flag`
    d_released: bool,
    /// the daemon thread is not stepped (flood scenario): its hold points neither stop it nor are they logged
    free_d: bool,
    held_d: Option<String>,
    release_d: u64,
    arrivals_d: u64,
    held_s: Vec<u64>,     // callers currently at s.after_flag
    released_s: Vec<u64>, // callers allowed past s.after_flag
}
struct Ctl {
    g: Mutex<Gate>,
    cv: Condvar,
    log: Arc<Log>,
}
const D_HOLDS: [&str; 3] = ["d.before_request", "d.after_request", "d.before_final_shutdown"];

impl Ctl {
    fn hit(&self, point: &'static str, args: &[u64]) {
        if point == "s.after_flag" {
            let c = CALLER.with(|x| x.get());
            self.log.push(json!({"ev": "hook", "p": point, "caller": c}));
            let mut g = self.g.lock().unwrap();
            if !g.hold || c == 0 {
                return;
            }
            g.held_s.push(c);
            self.cv.notify_all();
            while g.hold && !g.released_s.contains(&c) {
                g = self.cv.wait(g).unwrap();
            }
            g.held_s.retain(|x| *x != c);
            self.cv.notify_all();
            return;
        }
        if !D_HOLDS.contains(&point) {
            return;
        }
        let mut g = self.g.lock().unwrap();
        if g.free_d {
            g.arrivals_d += 1;
            return;
        }
        if g.d_released {
            return;
        }
        drop(g);
        self.log.push(json!({"ev": "hook", "p": point, "caller": 0, "ok": args.first().copied().unwrap_or(0)}));
        let mut g = self.g.lock().unwrap();
        if !g.hold {
            return;
        }
        g.held_d = Some(point.to_string());
        g.arrivals_d += 1;
        let ticket = g.release_d;
        self.cv.notify_all();
        while g.hold && !g.d_released && g.release_d == ticket {
            g = self.cv.wait(g).unwrap();
        }
        g.held_d = None;
        self.cv.notify_all();
    }
    /// quiet log and the daemon thread asleep (hold point, socket read, blocked write) or gone: a slow machine must not turn a
    /// thread that is still on its way into one that "did not come"
    fn settle(&self, quiet: Duration) {
        let t0 = Instant::now();
        let mut n = self.log.m.lock().unwrap().len();
        loop {
            std::thread::sleep(quiet);
            let m = self.log.m.lock().unwrap().len();
            if m == n && (blocked_now(&tids_named("vh-daemon")) || t0.elapsed() > Duration::from_secs(3)) {
                return;
            }
            n = m;
        }
    }
    fn step_daemon(&self, grace: Duration) -> bool {
        let t0 = Instant::now();
        let mut g = self.g.lock().unwrap();
        loop {
            if g.held_d.is_some() {
                let arr0 = g.arrivals_d;
                g.release_d += 1;
                self.cv.notify_all();
                while g.held_d.is_some() && g.arrivals_d == arr0 && t0.elapsed() < Duration::from_secs(5) {
                    g = self.cv.wait_timeout(g, Duration::from_millis(2)).unwrap().0;
                }
                return true;
            }
            if t0.elapsed() > grace && (blocked_now(&tids_named("vh-daemon")) || t0.elapsed() > Duration::from_secs(3)) {
                if g.held_d.is_some() {
                    continue;
                }
                return false;
            }
            g = self.cv.wait_timeout(g, Duration::from_millis(1)).unwrap().0;
        }
    }
}

/// `serve()` convenience call: one connection, peer sends `cut` bytes of a request and closes.
fn run_serve(case: &Value, trace: &mut Trace) {
    let cut = case["cut"].as_u64().unwrap_or(0) as usize;
    let bodied = case["bodied"].as_bool().unwrap_or(true);
    let log = Arc::new(Log { m: Mutex::new(Vec::new()), cv: Condvar::new() });
    let cfg = Cfg { nq: 2, maxq: 256, masks: vec![1, 2], features: (1 << 30) | 1, pf: 0xffff, exit: true, exit_pipe: case["id"].as_u64().unwrap_or(0) % 2 == 1, fail_update_memory: false };
    let tb = Arc::new(TB::<VringRwLock<GM>>::new(cfg, log));
    let path = sock_path();
    let mut daemon = VhostUserDaemon::new("vh-daemon".to_string(), tb, GuestMemoryAtomic::new(GuestMemoryMmap::new())).unwrap();
    let workers_started = live_workers();
    let p2 = path.clone();
    let (tx, rx) = std::sync::mpsc::channel();
    let th = std::thread::spawn(move || {
        let r = daemon.serve(&p2);
        let s = match &r {
            Ok(()) => "Ok".to_string(),
            Err(vhost_user_backend::Error::HandleRequest(e)) => format!("Err:{}", errkind(e)),
            Err(e) => format!("Err:{}", errkind(e)),
        };
        let _ = tx.send(s);
        daemon
    });
    let mut msg = Vec::new();
    msg.extend_from_slice(&(if bodied { 2u32 } else { 1u32 }).to_le_bytes());
    msg.extend_from_slice(&1u32.to_le_bytes());
    msg.extend_from_slice(&(if bodied { 8u32 } else { 0u32 }).to_le_bytes());
    if bodied {
        msg.extend_from_slice(&1u64.to_le_bytes());
    }
    let t0 = Instant::now();
    let peer = loop {
        match UnixStream::connect(&path) {
            Ok(p) => break Some(p),
            Err(_) if t0.elapsed() < Duration::from_secs(5) => std::thread::sleep(Duration::from_millis(1)),
            Err(_) => break None,
        }
    };
    if let Some(p) = peer {
        let _ = raw_send_all(&p, &msg[..cut.min(msg.len())], &[]);
        if cut >= msg.len() && !bodied {
            // a complete GET_FEATURES: consume the reply so that closing is an orderly end of stream
            let mut buf = [0u8; 20];
            let mut got = 0;
            p.set_read_timeout(Some(Duration::from_secs(5))).unwrap();
            while got < 20 {
                match raw_recv(&p, &mut buf[got..], 0) {
                    Ok((n, _)) if n > 0 => got += n,
                    _ => break,
                }
            }
        }
        drop(p);
    }
    let res = recv_or_blocked(&rx, Duration::from_secs(10), Duration::from_secs(120), &|| tids_named("vh-daemon"), &[]).unwrap_or_else(|| "hang".to_string());
    // every worker's exit event must have been raised: the worker threads terminate although the daemon object is alive
    let t1 = Instant::now();
    let mut left = live_workers();
    // (workers count as left behind only once the watchdog has expired and they are seen asleep in a system call)
    while left > 0 && (t1.elapsed() < Duration::from_secs(10) || (t1.elapsed() < Duration::from_secs(120) && !all_blocked(&tids_named("vring_worker"), &[]))) {
        std::thread::sleep(Duration::from_millis(2));
        left = live_workers();
    }
    trace.emit(json!({"ev": "reset", "id": case["id"], "callers": 0, "peer": "nothing", "peer_closes": true, "serve": true}));
    trace.emit(json!({"ev": "serve", "cut": cut, "len": msg.len(), "bodied": bodied, "res": res, "workers_started": workers_started, "workers_left": left,
        "exit": true, "before": 0, "after": 0}));
    if res != "hang" {
        if let Ok(d) = th.join() {
            guarded_drop(d);
        }
    }
    let _ = std::fs::remove_file(&path);
}

/// The daemon object is dropped while its connection is still up (no shutdown request, no wait): its threads must go away
/// and the peer must see end-of-stream.  `sent`: what the peer has done before ("nothing", "part" of a header, one answered
/// round "trip").
fn run_dropconn(case: &Value, trace: &mut Trace) {
    let sent = case["sent"].as_str().unwrap_or("nothing");
    let log = Arc::new(Log { m: Mutex::new(Vec::new()), cv: Condvar::new() });
    let cfg = Cfg { nq: 2, maxq: 256, masks: vec![1, 2], features: (1 << 30) | 1, pf: 0xffff, exit: true, exit_pipe: case["id"].as_u64().unwrap_or(0) % 2 == 1, fail_update_memory: false };
    let tb = Arc::new(TB::<VringRwLock<GM>>::new(cfg, log));
    let path = sock_path();
    let threads_before = thread_count();
    let mut daemon = VhostUserDaemon::new("vh-daemon".to_string(), tb, GuestMemoryAtomic::new(GuestMemoryMmap::new())).unwrap();
    let mut listener = Listener::new(&path, true).unwrap();
    let peer = UnixStream::connect(&path).unwrap();
    daemon.start(&mut listener).unwrap();
    let mut msg = Vec::new();
    msg.extend_from_slice(&1u32.to_le_bytes());
    msg.extend_from_slice(&1u32.to_le_bytes());
    msg.extend_from_slice(&0u32.to_le_bytes());
    match sent {
        "part" => {
            let _ = raw_send_all(&peer, &msg[..5], &[]);
        }
        "trip" => {
            let _ = raw_send_all(&peer, &msg, &[]);
            let mut buf = [0u8; 20];
            let mut got = 0;
            peer.set_read_timeout(Some(Duration::from_secs(30))).unwrap();
            while got < 20 {
                match raw_recv(&peer, &mut buf[got..], 0) {
                    Ok((n, _)) if n > 0 => got += n,
                    _ => break,
                }
            }
        }
        _ => {}
    }
    trace.emit(json!({"ev": "reset", "id": case["id"], "callers": 0, "peer": "nothing", "peer_closes": false, "serve": true}));
    let dropped = guarded_drop(daemon);
    // the peer must see end-of-stream (final only with the daemon's threads asleep or gone)
    peer.set_read_timeout(Some(Duration::from_secs(5))).unwrap();
    let t_eof = Instant::now();
    let mut buf = [0u8; 256];
    let peer_sees = loop {
        match raw_recv(&peer, &mut buf, 0) {
            Ok((0, _)) => break "eof",
            Ok(_) => {}
            Err(e) if e.kind() == std::io::ErrorKind::WouldBlock || e.kind() == std::io::ErrorKind::TimedOut => {
                if all_blocked(&tids_named("vh-daemon"), &[]) || t_eof.elapsed() > Duration::from_secs(120) {
                    break "no_eof";
                }
            }
            Err(_) => break "eof",
        }
    };
    let leftover = || {
        let mut v = tids_named("vring_worker");
        v.extend(tids_named("vh-daemon"));
        v
    };
    let t0 = Instant::now();
    let mut after = thread_count();
    while after > threads_before && (t0.elapsed() < Duration::from_secs(10) || (t0.elapsed() < Duration::from_secs(120) && !all_blocked(&leftover(), &[]))) {
        std::thread::sleep(Duration::from_millis(2));
        after = thread_count();
    }
    trace.emit(json!({"ev": "dropconn", "sent": sent, "dropped": dropped, "peer_sees": peer_sees, "threads_before": threads_before, "threads_after": after,
        "cut": 0, "len": 0, "bodied": false, "res": "", "workers_started": 0, "workers_left": 0, "exit": true, "before": 0, "after": 0}));
    drop(listener);
    let _ = std::fs::remove_file(&path);
    if after > threads_before {
        // threads left behind would be counted against the next cases
        trace.flush();
        std::process::exit(77);
    }
}

pub fn run_case(case: &Value, trace: &mut Trace) {
    if case["dropconn"].as_bool() == Some(true) {
        return run_dropconn(case, trace);
    }
    if case["serve"].as_bool() == Some(true) {
        return run_serve(case, trace);
    }
    let ncallers = case["callers"].as_u64().unwrap_or(1);
    let peer_sends = case["peer"].as_str().unwrap_or("nothing");
    let peer_closes = case["peer_closes"].as_bool().unwrap_or(false);
    let use_serve = case["serve"].as_bool().unwrap_or(false);
    let log = Arc::new(Log {
        m: Mutex::new(Vec::new()),
        cv: Condvar::new(),
    });
    let cfg = Cfg {
        nq: 1,
        maxq: 256,
        masks: vec![1],
        features: (1 << 30) | 1,
        pf: 0xffff,
        exit: true,
        exit_pipe: case["id"].as_u64().unwrap_or(0) % 2 == 1,
        fail_update_memory: false,
    };
    let tb = Arc::new(TB::<VringRwLock<GM>>::new(cfg, log.clone()));
    let hgate = Arc::new((Mutex::new((false, false)), Condvar::new()));
    *tb.gate.lock().unwrap() = Some(hgate.clone());
    let flood = peer_sends == "flood";
    let ctl = Arc::new(Ctl {
        g: Mutex::new(Gate {
            hold: true,
            free_d: flood,
            ..Default::default()
        }),
        cv: Condvar::new(),
        log: log.clone(),
    });
    let c2 = ctl.clone();
    vhost::verif::set_controller(Some(Arc::new(move |p: &'static str, a: &[u64]| c2.hit(p, a))));
    let threads_before = thread_count();
    let path = sock_path();
    let mut daemon = VhostUserDaemon::new("vh-daemon".to_string(), tb.clone(), GuestMemoryAtomic::new(GuestMemoryMmap::new())).unwrap();
    let mut listener = Listener::new(&path, true).unwrap();
    let peer = UnixStream::connect(&path).unwrap();
    // what the peer has already put on the socket: a SET_FEATURES request (or a prefix of it)
    let mut msg = Vec::new();
    msg.extend_from_slice(&2u32.to_le_bytes());
    msg.extend_from_slice(&1u32.to_le_bytes());
    msg.extend_from_slice(&8u32.to_le_bytes());
    msg.extend_from_slice(&1u64.to_le_bytes());
    if peer_sends == "full_reply" {
        // GET_FEATURES: a complete body-less request that has a reply
        msg.clear();
        msg.extend_from_slice(&1u32.to_le_bytes());
        msg.extend_from_slice(&1u32.to_le_bytes());
        msg.extend_from_slice(&0u32.to_le_bytes());
    }
    if flood {
        // the handler gate stays open: requests are served until the daemon blocks
        let (m, cv) = &*hgate;
        m.lock().unwrap().1 = true;
        cv.notify_all();
    }
    let n = match peer_sends {
        "part_hdr" => 5,
        "hdr_only" => 12,
        "full" => 20,
        "full_reply" => 12,
        _ => 0,
    };
    let _ = raw_send_all(&peer, &msg[..n], &[]);
    trace.emit(json!({"ev": "reset", "id": case["id"], "callers": ncallers, "peer": peer_sends, "peer_closes": peer_closes, "serve": use_serve}));
    daemon.start(&mut listener).unwrap();
    let handle = daemon.shutdown_handle();
    let mut flooded = 0u64;
    if flood {
        // GET_FEATURES requests without end, no answer is ever read: the daemon ends up blocked writing a reply, stops
        // reading, and then the peer cannot send either.  "Blocked" = the peer could not send and the daemon thread passed
        // none of its hold points for 300 ms.
        msg.clear();
        msg.extend_from_slice(&1u32.to_le_bytes());
        msg.extend_from_slice(&1u32.to_le_bytes());
        msg.extend_from_slice(&0u32.to_le_bytes());
        peer.set_nonblocking(true).unwrap();
        let mut last_progress = Instant::now();
        let mut last_arr = ctl.g.lock().unwrap().arrivals_d;
        let t0 = Instant::now();
        loop {
            match raw_send(&peer, &msg, &[]) {
                Ok(n) if n == msg.len() => {
                    flooded += 1;
                    last_progress = Instant::now();
                }
                Ok(n) if n > 0 => {
                    // a partial request: complete it (blocking) so that the stream stays well-formed
                    peer.set_nonblocking(false).unwrap();
                    let _ = raw_send_all(&peer, &msg[n..], &[]);
                    peer.set_nonblocking(true).unwrap();
                    flooded += 1;
                    last_progress = Instant::now();
                }
                _ => std::thread::sleep(Duration::from_millis(2)),
            }
            let arr = ctl.g.lock().unwrap().arrivals_d;
            if arr != last_arr {
                last_arr = arr;
                last_progress = Instant::now();
            }
            if last_progress.elapsed() > Duration::from_millis(300) || t0.elapsed() > Duration::from_secs(60) {
                break;
            }
        }
        peer.set_nonblocking(false).unwrap();
        log.push(json!({"ev": "hook", "p": "flooded", "caller": 0, "ok": flooded}));
    }
    // wait() under a watchdog.  With "wait_first" the owner is already blocked inside wait() while the schedule runs (the
    // shutdown requests then come from other threads during the wait); otherwise wait() is called after the schedule.
    let wait_first = case["wait_first"].as_bool().unwrap_or(false);
    let (tx, rx) = std::sync::mpsc::channel();
    let mut daemon_opt = Some(daemon);
    let waiter_tid = Arc::new(std::sync::atomic::AtomicI32::new(0));
    let wt2 = waiter_tid.clone();
    let spawn_waiter = move |mut daemon: VhostUserDaemon<Arc<TB<VringRwLock<GM>>>>, tx: std::sync::mpsc::Sender<String>| {
        let wt3 = wt2.clone();
        std::thread::spawn(move || {
            wt3.store(gettid(), std::sync::atomic::Ordering::SeqCst);
            let r = daemon.wait();
            let s = match &r {
                Ok(()) => "Ok".to_string(),
                Err(vhost_user_backend::Error::HandleRequest(e)) => format!("Err:{}", errkind(e)),
                Err(e) => format!("Err:{}", errkind(e)),
            };
            let _ = tx.send(s);
            daemon
        })
    };
    let mut waiter = None;
    if wait_first {
        waiter = Some(spawn_waiter(daemon_opt.take().unwrap(), tx.clone()));
        std::thread::sleep(Duration::from_millis(5));
    }
    let mut caller_threads: Vec<(u64, std::thread::JoinHandle<()>)> = Vec::new();
    let mut peer_opt = Some(peer);
    let quiet = Duration::from_millis(2);
    ctl.settle(quiet);
    for cmd in case["sched"].as_array().unwrap() {
        let c = cmd[0].as_str().unwrap();
        let a = cmd[1].as_u64().unwrap_or(0);
        let mut done = true;
        match c {
            "t" | "handler_return" if flood => {}
            "t" => done = ctl.step_daemon(Duration::from_millis(20)),
            "handler_return" => {
                // wait until the handler has really been entered, then let it return
                let (m, cv) = &*hgate;
                let mut st = m.lock().unwrap();
                let t0 = Instant::now();
                while !st.0 && t0.elapsed() < Duration::from_millis(200) {
                    st = cv.wait_timeout(st, Duration::from_millis(5)).unwrap().0;
                }
                done = st.0;
                st.1 = true;
                cv.notify_all();
            }
            "store" => {
                let h = handle.clone();
                caller_threads.push((a, std::thread::spawn(move || {
                    CALLER.with(|x| x.set(a));
                    if let Some(h) = h {
                        h.shutdown();
                    }
                })));
                // positive completion: the caller has stored the flag and stands at its hold point (a loaded machine may need
                // a while to schedule the new thread; going on before that would run the rest of the schedule -- and wait() --
                // against a request that has not been made yet)
                let t0 = Instant::now();
                let mut g = ctl.g.lock().unwrap();
                while !g.held_s.contains(&a) && t0.elapsed() < Duration::from_secs(60) {
                    g = ctl.cv.wait_timeout(g, Duration::from_millis(5)).unwrap().0;
                }
                done = g.held_s.contains(&a);
            }
            "shut" => {
                {
                    let mut g = ctl.g.lock().unwrap();
                    g.released_s.push(a);
                    ctl.cv.notify_all();
                }
                // positive completion: the caller's request has returned
                let t0 = Instant::now();
                while t0.elapsed() < Duration::from_secs(60) {
                    if caller_threads.iter().filter(|(c, _)| *c == a).all(|(_, t)| t.is_finished()) {
                        break;
                    }
                    std::thread::sleep(Duration::from_millis(1));
                }
            }
            "peer_close" => {
                if case["halfclose"].as_bool() == Some(true) {
                    // the peer only ends its own direction (the daemon sees end-of-stream exactly as for a close) and goes on
                    // reading: it must see end-of-stream from the daemon in turn
                    if let Some(p) = peer_opt.as_ref() {
                        let (chunks, _) = raw_drain(p);
                        close_chunk_fds(&chunks);
                        let _ = p.shutdown(std::net::Shutdown::Write);
                    }
                } else if let Some(p) = peer_opt.take() {
                    // orderly close: consume whatever the daemon has answered so far (a close with unread
                    // data would be seen as ECONNRESET by the daemon, which is outside this property)
                    let (chunks, _) = raw_drain(&p);
                    close_chunk_fds(&chunks);
                    drop(p);
                }
            }
            _ => {}
        }
        ctl.settle(quiet);
        log.push(json!({"ev": "cmd", "c": c, "a": a, "done": done}));
    }
    // run to completion.  If some caller has completed its shutdown request while others are still parked between their two
    // steps, wait() must return *now* -- one completed request is enough, the parked callers owe nothing: the daemon thread
    // is let go, wait() runs under its watchdog, and only then are the parked callers released.
    let shut_done: Vec<u64> = case["sched"].as_array().unwrap().iter().filter(|c| c[0] == "shut").map(|c| c[1].as_u64().unwrap_or(0)).collect();
    let stored: Vec<u64> = case["sched"].as_array().unwrap().iter().filter(|c| c[0] == "store").map(|c| c[1].as_u64().unwrap_or(0)).collect();
    let parked = stored.iter().any(|c| !shut_done.contains(c));
    let early_wait = !shut_done.is_empty() && parked;
    {
        let mut g = ctl.g.lock().unwrap();
        if early_wait {
            g.d_released = true;
        } else {
            g.hold = false;
        }
        g.release_d += 1;
        ctl.cv.notify_all();
    }
    {
        let (m, cv) = &*hgate;
        m.lock().unwrap().1 = true;
        cv.notify_all();
    }
    // "wait() does not return": the 10 s watchdog has expired and both the waiting thread and the daemon thread are seen asleep
    // in a blocking call (or the daemon thread spins): a slow machine only prolongs the wait
    let wait_tids = || {
        let mut v = tids_named("vh-daemon");
        v.push(waiter_tid.load(std::sync::atomic::Ordering::SeqCst));
        v
    };
    let wait_result = |rx: &std::sync::mpsc::Receiver<String>| -> String {
        recv_or_blocked(rx, Duration::from_secs(10), Duration::from_secs(120), &wait_tids, &[]).unwrap_or_else(|| "hang".to_string())
    };
    let mut early_res: Option<String> = None;
    if early_wait {
        if waiter.is_none() {
            waiter = Some(spawn_waiter(daemon_opt.take().unwrap(), tx.clone()));
        }
        early_res = Some(wait_result(&rx));
        let mut g = ctl.g.lock().unwrap();
        g.hold = false;
        ctl.cv.notify_all();
    }
    for (_, t) in caller_threads {
        let _ = t.join();
    }
    if waiter.is_none() {
        waiter = Some(spawn_waiter(daemon_opt.take().unwrap(), tx.clone()));
    }
    let waiter = waiter.unwrap();
    let wait_res = match early_res {
        Some(r) if r != "hang" => r,
        Some(_) => {
            // it did not return while callers were parked; does it now?  (recorded as a hang either way: the verdict is about
            // the moment one request had completed)
            let _ = rx.recv_timeout(Duration::from_secs(10));
            "hang".to_string()
        }
        None => wait_result(&rx),
    };
    // what does the peer see?
    let mut peer_eof = "closed_by_peer".to_string();
    if let Some(p) = peer_opt.as_ref() {
        p.set_read_timeout(Some(Duration::from_secs(5))).unwrap();
        let mut buf = [0u8; 4096];
        let mut got = 0usize;
        let cap = if flood { 256usize << 20 } else { 4096 };
        let t_eof = Instant::now();
        peer_eof = loop {
            match raw_recv(p, &mut buf, 0) {
                Ok((0, _)) => break "eof".to_string(),
                Ok((n, _)) => got += n,
                Err(e) if e.kind() == std::io::ErrorKind::WouldBlock || e.kind() == std::io::ErrorKind::TimedOut => {
                    // five seconds without end-of-stream: final only if the daemon thread is asleep or gone (nobody is on the
                    // way to closing the connection), or after two minutes
                    if all_blocked(&tids_named("vh-daemon"), &[]) || t_eof.elapsed() > Duration::from_secs(120) {
                        break "no_eof".to_string();
                    }
                }
                Err(_) => break "eof".to_string(),
            }
            if got > cap {
                break "no_eof".to_string();
            }
        };
    }
    let mut restart_ok = false;
    let mut second_wait = "skipped".to_string();
    if wait_res != "hang" {
        let mut daemon = waiter.join().unwrap();
        // the daemon can accept a new connection
        let path2 = sock_path();
        let mut l2 = Listener::new(&path2, true).unwrap();
        let p2 = UnixStream::connect(&path2).unwrap();
        p2.set_read_timeout(Some(Duration::from_secs(5))).unwrap();
        if daemon.start(&mut l2).is_ok() {
            let mut pr = Peer {
                sock: p2,
                reply_ack: false,
                offered_pf: false,
            };
            let r = pr.request(1, &[], &[], true);
            restart_ok = r.status == "ok" && r.body.len() == 8;
            // shutting down again (repeated request) and waiting again must also work
            daemon.request_shutdown();
            daemon.request_shutdown();
            let (tx2, rx2) = std::sync::mpsc::channel();
            let w2 = std::thread::spawn(move || {
                let r = daemon.wait();
                let _ = tx2.send(if r.is_ok() { "Ok".to_string() } else { "Err".to_string() });
                daemon
            });
            second_wait = wait_result(&rx2);
            if second_wait != "hang" {
                if let Ok(d) = w2.join() {
                    guarded_drop(d);
                }
            }
        } else {
            guarded_drop(daemon);
        }
        let _ = std::fs::remove_file(&path2);
    }
    let _ = std::fs::remove_file(&path);
    drop(listener);
    vhost::verif::set_controller(None);
    // thread count back to the baseline after drop?
    let t0 = Instant::now();
    let mut after = thread_count();
    let leftover = || {
        let mut v = tids_named("vring_worker");
        v.extend(tids_named("vh-daemon"));
        v
    };
    while after > threads_before && (t0.elapsed() < Duration::from_secs(10) || (t0.elapsed() < Duration::from_secs(120) && !all_blocked(&leftover(), &[]))) {
        std::thread::sleep(Duration::from_millis(2));
        after = thread_count();
    }
    for e in log.take() {
        if e["ev"] == "hook" || e["ev"] == "cmd" {
            let mut e = e;
            for (k, d) in [("p", json!("")), ("caller", json!(0)), ("c", json!("")), ("a", json!(0)), ("done", json!(true)), ("ok", json!(0))] {
                if e.get(k).is_none() {
                    e[k] = d;
                }
            }
            trace.emit(e);
        }
    }
    trace.emit(json!({"ev": "end", "wait": wait_res, "peer_sees": peer_eof, "restart_ok": restart_ok, "second_wait": second_wait,
        "threads_before": threads_before, "threads_after": after}));
}
